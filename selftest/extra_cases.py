"""Hand-written self-test cases (mutants that must be reported, equivalents that must
stay silent) and corrections of the expectations seeded from the design round."""

# id -> fields to override in selftest/cases.json (seeded from design_data)
OVERRIDES = {
    # the design round misread this operator mutant as `% 1001`; it divides by 1001:
    # y=0 and y=1000 both map to 000/000/000 -> not injective -> must be reported
    'G-C05-CONST-int-path-L113': {'expect': 'report', 'rule': 'C05.a', 'props': ['C05']},
}


def M(id, path, find, replace, rule, note=''):
    return {'id': id, 'path': path, 'find': find, 'replace': replace, 'expect': 'report', 'rule': rule,
            'props': sorted({r.strip()[:3] for r in rule.split('|')}), 'origin': note}


def E(id, path, find, replace, note='', props=None):
    c = {'id': id, 'path': path, 'find': find, 'replace': replace, 'expect': 'silent', 'origin': note}
    if props:
        c['props'] = props
    return c


PATH = 'mapproxy/cache/path.py'
MBT = 'mapproxy/cache/mbtiles.py'
GPKG = 'mapproxy/cache/geopackage.py'
COMPACT = 'mapproxy/cache/compact.py'
FILE = 'mapproxy/cache/file.py'

EXTRA = [
    # ---------------------------------------------------------------- C05
    E('E-C05a-mod-1001', PATH, '"%03d" % (int(x / 1000) % 1000),', '"%03d" % (int(x / 1000) % 1001),',
      'modulus larger than needed is still injective'),
    E('E-C05a-floordiv', PATH, '"%04d" % int(x / 10000),', '"%04d" % (x // 10000),', '// instead of int(a / b)'),
    M('M-C05a-mp-div', PATH, '"%04d" % int(x / 10000),', '"%04d" % int(x / 100000),', 'C05.a'),
    M('M-C05b-revert-D11-quadkey', PATH, "cache_dir, dimensions_part(dimensions), quadKey + '.' + file_ext",
      "cache_dir, quadKey + '.' + file_ext", 'C05.b', 'revert of fix D11'),
    M('M-C05b-revert-D11-arcgis', PATH, "parts = (cache_dir, dimensions_part(dimensions), 'L%02d' % z,",
      "parts = (cache_dir, 'L%02d' % z,", 'C05.b', 'revert of fix D11'),
    M('M-C05b-mp-drops-level', PATH, """                 dimensions_part(dimensions),
                 level_part(z),
                 "%04d" % int(x / 10000),""", """                 dimensions_part(dimensions),
                 "%04d" % int(x / 10000),""", 'C05.b'),
    M('M-C05c-v2-slot-width', COMPACT, 'return BUNDLE_V2_HEADER_SIZE + (x + BUNDLE_V2_GRID_HEIGHT * y) * 8',
      'return BUNDLE_V2_HEADER_SIZE + (x + BUNDLE_V2_GRID_HEIGHT * y) * 4', 'C05.c'),
    M('M-C05c-v1-stride', COMPACT, 'return BUNDLEX_V1_HEADER_SIZE + (x * BUNDLEX_V1_GRID_HEIGHT + y) * 5',
      'return BUNDLEX_V1_HEADER_SIZE + (x * 64 + y) * 5', 'C05.c'),
    M('M-C05c-quotient', COMPACT, 'c = x // BUNDLEX_V1_GRID_WIDTH * BUNDLEX_V1_GRID_WIDTH',
      'c = x // BUNDLEX_V1_GRID_WIDTH * 64', 'C05.c'),
    E('E-C05c-literal-128', COMPACT, 'c = x // BUNDLEX_V1_GRID_WIDTH * BUNDLEX_V1_GRID_WIDTH', 'c = x // 128 * 128',
      'literal instead of named constant'),
    M('M-C05d-remove-level', MBT, 'return self._get_level(tile.coord[2]).remove_tile(tile)',
      'return self._get_level(tile.coord[1]).remove_tile(tile)', 'C05.d'),
    M('M-C05e-batch-1000', MBT, 'cur_coords = coords[:999]', 'cur_coords = coords[:1000]', 'C05.e'),
    M('M-C05e-batch-advance', GPKG, 'coords = coords[999:]', 'coords = coords[996:]', 'C05.e'),
    M('M-C05e-swap-xy-store', GPKG, 'records.append((level, x, y, content))', 'records.append((level, y, x, content))',
      'C05.e'),
    M('M-C05e-revert-D9-mbtiles', MBT, 'tile_dict[(x, y, level)] = tile', 'tile_dict[(x, y)] = tile', 'C05.e',
      'partial revert of fix D9'),
    M('M-C05e-data-column', GPKG, 'data = row[3]', 'data = row[2]', 'C05.e'),
    M('M-C05e-where-order', MBT, """                WHERE tile_column = ? AND
                      tile_row = ? AND
                      zoom_level = ?'''

        if self.ttl:""", """                WHERE tile_row = ? AND
                      tile_column = ? AND
                      zoom_level = ?'''

        if self.ttl:""", 'C05.e'),
    M('M-C05f-revert-D1-mbtiles', MBT, """        if level is None:
            return True

        return self._get_level(level).load_tiles""", """        if not level:
            return True

        return self._get_level(level).load_tiles""", 'C05.f', 'revert of fix D1'),
    M('M-C05f-revert-D1-gpkg', GPKG, """        if level is None:
            return True

        return self._get_level(level).load_tiles""", """        if not level:
            return True

        return self._get_level(level).load_tiles""", 'C05.f', 'revert of fix D1'),
    E('E-C05f-none-is-level', MBT, """        if level is None:
            return True

        return self._get_level(level).load_tiles""", """        if None is level:
            return True

        return self._get_level(level).load_tiles""", 'operand order of the None test'),
    M('M-C05g-no-dimensions', MBT, 'def remove_tile(self, tile, dimensions=None):\n        cursor = self.db.cursor()',
      'def remove_tile(self, tile):\n        cursor = self.db.cursor()', 'C05.g'),
    E('E-C05h-lexists', FILE, 'if os.path.exists(tile_loc) or os.path.islink(tile_loc):',
      'if os.path.lexists(tile_loc):', 'lexists is exists-or-dangling-link'),
    M('M-C05h-no-unlink', FILE, """        if os.path.exists(tile_loc) or os.path.islink(tile_loc):
            os.unlink(tile_loc)
""", """        if os.path.exists(tile_loc) or os.path.islink(tile_loc):
            pass
""", 'C05.h'),
    M('M-C05i-store-no-commit', GPKG, """            cursor.executemany(stmt, records)
            self.db.commit()""", """            cursor.executemany(stmt, records)""", 'C05.i'),
]
