"""Hand-written self-test cases (mutants that must be reported, equivalents that must
stay silent) and corrections of the expectations seeded from the design round."""

# id -> fields to override in selftest/cases.json (seeded from design_data)
OVERRIDES = {
    # the design round misread this operator mutant as `% 1001`; it divides by 1001:
    # y=0 and y=1000 both map to 000/000/000 -> not injective -> must be reported
    'G-C05-CONST-int-path-L113': {'expect': 'report', 'rule': 'C05.a', 'props': ['C05']},
    # ProgressLog.log_step only prints to the console; the resumable progress is stored by log_progress, which is
    # called from report_progress in the walk.  An additional log_step before the put changes no stored progress,
    # so the design round's "must report" was wrong: behaviour-preserving for the statement.
    'C11-progress-before-put': {'expect': 'silent', 'props': None, 'rule': None},
    # round 0 called `min_res <= x_res AND min_res <= y_res` "outside the statements" (only non-square pixels differ).  An
    # independent seeded change with the same effect (seeded/C17-2) demonstrates a source with min_res being asked for a
    # request that is out of range on one axis, i.e. the statement's "resolution range excludes the resolution of the
    # request" is broken for anisotropic requests -> must be reported (C17.f).
    'G-C17-LCR-grid-L1155': {'expect': 'report', 'rule': 'C17.f', 'props': ['C17']},
}


def M(id, path, find, replace, rule, note=''):
    return {'id': id, 'path': path, 'find': find, 'replace': replace, 'expect': 'report', 'rule': rule,
            'props': sorted({r.strip()[:3] for r in rule.split('|')}), 'origin': note}


def E(id, path, find, replace, note='', props=None):
    c = {'id': id, 'path': path, 'find': find, 'replace': replace, 'expect': 'silent', 'origin': note}
    if props:
        c['props'] = props
    return c


PATH = 'mapproxy/cache/path.py'
MBT = 'mapproxy/cache/mbtiles.py'
GPKG = 'mapproxy/cache/geopackage.py'
COMPACT = 'mapproxy/cache/compact.py'
FILE = 'mapproxy/cache/file.py'

EXTRA = [
    # ---------------------------------------------------------------- C05
    E('E-C05a-mod-1001', PATH, '"%03d" % (int(x / 1000) % 1000),', '"%03d" % (int(x / 1000) % 1001),',
      'modulus larger than needed is still injective'),
    E('E-C05a-floordiv', PATH, '"%04d" % int(x / 10000),', '"%04d" % (x // 10000),', '// instead of int(a / b)'),
    M('M-C05a-mp-div', PATH, '"%04d" % int(x / 10000),', '"%04d" % int(x / 100000),', 'C05.a'),
    M('M-C05b-revert-D11-quadkey', PATH, "cache_dir, dimensions_part(dimensions), quadKey + '.' + file_ext",
      "cache_dir, quadKey + '.' + file_ext", 'C05.b', 'revert of fix D11'),
    M('M-C05b-revert-D11-arcgis', PATH, "parts = (cache_dir, dimensions_part(dimensions), 'L%02d' % z,",
      "parts = (cache_dir, 'L%02d' % z,", 'C05.b', 'revert of fix D11'),
    M('M-C05b-mp-drops-level', PATH, """                 dimensions_part(dimensions),
                 level_part(z),
                 "%04d" % int(x / 10000),""", """                 dimensions_part(dimensions),
                 "%04d" % int(x / 10000),""", 'C05.b'),
    M('M-C05c-v2-slot-width', COMPACT, 'return BUNDLE_V2_HEADER_SIZE + (x + BUNDLE_V2_GRID_HEIGHT * y) * 8',
      'return BUNDLE_V2_HEADER_SIZE + (x + BUNDLE_V2_GRID_HEIGHT * y) * 4', 'C05.c'),
    M('M-C05c-v1-stride', COMPACT, 'return BUNDLEX_V1_HEADER_SIZE + (x * BUNDLEX_V1_GRID_HEIGHT + y) * 5',
      'return BUNDLEX_V1_HEADER_SIZE + (x * 64 + y) * 5', 'C05.c'),
    M('M-C05c-quotient', COMPACT, 'c = x // BUNDLEX_V1_GRID_WIDTH * BUNDLEX_V1_GRID_WIDTH',
      'c = x // BUNDLEX_V1_GRID_WIDTH * 64', 'C05.c'),
    E('E-C05c-literal-128', COMPACT, 'c = x // BUNDLEX_V1_GRID_WIDTH * BUNDLEX_V1_GRID_WIDTH', 'c = x // 128 * 128',
      'literal instead of named constant'),
    M('M-C05d-remove-level', MBT, 'return self._get_level(tile.coord[2]).remove_tile(tile)',
      'return self._get_level(tile.coord[1]).remove_tile(tile)', 'C05.d'),
    M('M-C05e-batch-1000', MBT, 'cur_coords = coords[:999]', 'cur_coords = coords[:1000]', 'C05.e'),
    M('M-C05e-batch-advance', GPKG, 'coords = coords[999:]', 'coords = coords[996:]', 'C05.e'),
    M('M-C05e-swap-xy-store', GPKG, 'records.append((level, x, y, content))', 'records.append((level, y, x, content))',
      'C05.e'),
    M('M-C05e-revert-D9-mbtiles', MBT, 'tile_dict[(x, y, level)] = tile', 'tile_dict[(x, y)] = tile', 'C05.e',
      'partial revert of fix D9'),
    M('M-C05e-data-column', GPKG, 'data = row[3]', 'data = row[2]', 'C05.e'),
    M('M-C05e-where-order', MBT, """                WHERE tile_column = ? AND
                      tile_row = ? AND
                      zoom_level = ?'''

        if self.ttl:""", """                WHERE tile_row = ? AND
                      tile_column = ? AND
                      zoom_level = ?'''

        if self.ttl:""", 'C05.e'),
    M('M-C05f-revert-D1-mbtiles', MBT, """        for level in level_tiles:
            if not self._get_level(level).load_tiles(""", """        for level in level_tiles:
            if not level:
                continue
            if not self._get_level(level).load_tiles(""", 'C05.f', 'the mechanism of D1 (level 0 is "no level") in the grouped bulk load'),
    M('M-C05f-revert-D1-gpkg', GPKG, """        for level in level_tiles:
            if not self._get_level(level).load_tiles(""", """        for level in level_tiles:
            if not level:
                continue
            if not self._get_level(level).load_tiles(""", 'C05.f', 'the mechanism of D1 (level 0 is "no level") in the grouped bulk load'),
    E('E-C05f-none-is-level', MBT, """        for level in level_tiles:
            if not self._get_level(level).load_tiles(""", """        for level in level_tiles:
            if level is None:
                continue
            if not self._get_level(level).load_tiles(""", 'a None test on the level is not a truthiness test'),
    M('M-C05g-no-dimensions', MBT, 'def remove_tile(self, tile, dimensions=None):\n        cursor = self.db.cursor()',
      'def remove_tile(self, tile):\n        cursor = self.db.cursor()', 'C05.g'),
    E('E-C05h-lexists', FILE, 'if os.path.exists(tile_loc) or os.path.islink(tile_loc):',
      'if os.path.lexists(tile_loc):', 'lexists is exists-or-dangling-link'),
    M('M-C05h-no-unlink', FILE, """        if os.path.exists(tile_loc) or os.path.islink(tile_loc):
            os.unlink(tile_loc)
""", """        if os.path.exists(tile_loc) or os.path.islink(tile_loc):
            pass
""", 'C05.h'),
    M('M-C05i-store-no-commit', GPKG, """            cursor.executemany(stmt, records)
            self.db.commit()""", """            cursor.executemany(stmt, records)""", 'C05.i'),
    # ---------------------------------------------------------------- C08
    M('M-C08a-fetch-above-lock', 'mapproxy/cache/tile.py', """        main_tile = Tile(meta_tile.main_tile_coord)
        with self.tile_mgr.lock(main_tile):
            if not all(self.is_cached(t, dimensions=self.dimensions) for t in meta_tile.tiles if t is not None):
                meta_tile_image = self._query_sources(query)
                if not meta_tile_image:""", """        main_tile = Tile(meta_tile.main_tile_coord)
        meta_tile_image = self._query_sources(query)
        with self.tile_mgr.lock(main_tile):
            if not all(self.is_cached(t, dimensions=self.dimensions) for t in meta_tile.tiles if t is not None):
                if not meta_tile_image:""", 'C08.a'),
    M('M-C08a-no-recheck-meta', 'mapproxy/cache/tile.py', """        with self.tile_mgr.lock(main_tile):
            if not all(self.is_cached(t, dimensions=self.dimensions) for t in meta_tile.tiles if t is not None):
                meta_tile_image = self._query_sources(query)""", """        with self.tile_mgr.lock(main_tile):
            if True:
                meta_tile_image = self._query_sources(query)""", 'C08.a'),
    M('M-C08a-renderd-no-recheck', 'mapproxy/cache/renderd.py', """            if not self.is_cached(tile):
                self._create_renderd_tile(tile.coord)
            self.cache.load_tile(tile)""", """            self._create_renderd_tile(tile.coord)
            self.cache.load_tile(tile)""", 'C08.a'),
    M('M-C08a-recheck-any', 'mapproxy/cache/tile.py', """        with self.tile_mgr.lock(main_tile):
            if not all(self.is_cached(t, dimensions=self.dimensions) for t in meta_tile.tiles if t is not None):
                meta_tile_image = self._query_sources(query)""", """        with self.tile_mgr.lock(main_tile):
            if not self.is_cached(main_tile, dimensions=self.dimensions):
                meta_tile_image = self._query_sources(query)""", 'C08.a', 're-check covers only the main tile'),
    E('E-C08a-swapped-branches', 'mapproxy/cache/renderd.py', """            if not self.is_cached(tile):
                self._create_renderd_tile(tile.coord)
            self.cache.load_tile(tile)""", """            if self.is_cached(tile):
                pass
            else:
                self._create_renderd_tile(tile.coord)
            self.cache.load_tile(tile)""", 'if c: pass else: fetch'),
    M('M-C08b-lock-requested-tile', 'mapproxy/cache/tile.py', """        tile_size = self.grid.tile_size
        main_tile = Tile(meta_tile.main_tile_coord)
        with self.tile_mgr.lock(main_tile):
            if not all(self.is_cached(t, dimensions=self.dimensions) for t in meta_tile.tiles if t is not None):
                async_pool""", """        tile_size = self.grid.tile_size
        main_tile = Tile((id(self) % 7, 0, 0))
        with self.tile_mgr.lock(main_tile):
            if not all(self.is_cached(t, dimensions=self.dimensions) for t in meta_tile.tiles if t is not None):
                async_pool""", 'C08.b', 'lock depends on the creator object, not on the meta tile'),
    M('M-C08b-main-tile-quotient', 'mapproxy/grid.py', "x0 = x//meta_size[0] * meta_size[0]",
      "x0 = x//meta_size[0] * (meta_size[0] + 1)", 'C08.b'),
    M('M-C08b-main-tile-axis', 'mapproxy/grid.py', "y0 = y//meta_size[1] * meta_size[1]",
      "y0 = y//meta_size[0] * meta_size[0]", 'C08.b|C03.a'),
    E('E-C08b-bind-coord-first', 'mapproxy/cache/renderd.py', """        main_tile = Tile(meta_tile.main_tile_coord)
        with self.tile_locker(main_tile):""", """        coord = meta_tile.main_tile_coord
        main_tile = Tile(coord)
        with self.tile_locker(main_tile):""", 'local alias'),
    M('M-C08c-const-cache-id', 'mapproxy/cache/file.py', "self.lock_cache_id = md5.hexdigest()",
      "self.lock_cache_id = 'file'", 'C08.c'),
    M('M-C08c-name-without-cache-id', 'mapproxy/cache/base.py',
      "return os.path.join(self.lock_dir, self.lock_cache_id + '-' +", "return os.path.join(self.lock_dir, 'tile-' +",
      'C08.c'),
    M('M-C08d-revert-D7-store', 'mapproxy/cache/compact.py', """    def store_tiles(self, tiles, dimensions=None):
        tiles_data = []
        for t in tiles:
            if t.stored:
                continue
            with tile_buffer(t) as buf:
                data = buf.read()
            tiles_data.append((t.coord, data))

        with FileLock(self.lock_filename, directory_permissions=self.directory_permissions,
                      file_permissions=self.file_permissions, remove_on_unlock=True):
            # _readwrite""", """    def store_tiles(self, tiles, dimensions=None):
        self._init_index()
        tiles_data = []
        for t in tiles:
            if t.stored:
                continue
            with tile_buffer(t) as buf:
                data = buf.read()
            tiles_data.append((t.coord, data))

        with FileLock(self.lock_filename, directory_permissions=self.directory_permissions,
                      file_permissions=self.file_permissions, remove_on_unlock=True):
            # _readwrite""", 'C08.d', 'revert of fix D7'),
    M('M-C08d-v1-remove-outside-lock', 'mapproxy/cache/compact.py', """        with FileLock(self.lock_filename, directory_permissions=self.directory_permissions,
                      file_permissions=self.file_permissions, remove_on_unlock=True):
            with self.index().readwrite() as idx:
                x, y = self._rel_tile_coord(tile.coord)
                idx.remove_tile_offset(x, y)""", """        if True:
            with self.index().readwrite() as idx:
                x, y = self._rel_tile_coord(tile.coord)
                idx.remove_tile_offset(x, y)""", 'C08.d'),
    E('E-C08d-helper-under-lock', 'mapproxy/cache/compact.py', """            with self._readwrite() as fh:
                x, y = self._rel_tile_coord(tile.coord)
                self._update_tile_offset(fh, x, y, 0, 0)

        return True""", """            self._clear_slot(tile)

        return True

    def _clear_slot(self, tile):
        with self._readwrite() as fh:
            x, y = self._rel_tile_coord(tile.coord)
            self._update_tile_offset(fh, x, y, 0, 0)""", 'mutation moved into a private helper whose only call site is under the lock'),
    # ---------------------------------------------------------------- C06
    M('M-C06b-no-excl', 'mapproxy/util/fs.py', "fd = os.open(path_tmp, os.O_EXCL | os.O_CREAT | os.O_WRONLY, 0o664)",
      "fd = os.open(path_tmp, os.O_CREAT | os.O_WRONLY, 0o664)", 'C06.b'),
    M('M-C06b-swallow-oserror', 'mapproxy/util/fs.py', """            except OSError:
                pass
            raise ex""", """            except OSError:
                pass""", 'C06.b'),
    M('M-C06b-temp-is-final', 'mapproxy/util/fs.py', "path_tmp = filename + '.tmp-' + str(random.randint(0, 99999999))",
      "path_tmp = filename", 'C06.b'),
    M('M-C06b-rename-direction', 'mapproxy/util/fs.py', "os.rename(path_tmp, filename)", "os.rename(filename, path_tmp)", 'C06.b'),
    E('E-C06b-replace', 'mapproxy/util/fs.py', "os.rename(path_tmp, filename)", "os.replace(path_tmp, filename)",
      'os.replace is a synonym'),
    E('E-C06b-close-explicit', 'mapproxy/util/fs.py', """            with os.fdopen(fd, 'wb') as f:
                f.write(data)
            os.rename(path_tmp, filename)""", """            f = os.fdopen(fd, 'wb')
            try:
                f.write(data)
            finally:
                f.close()
            os.rename(path_tmp, filename)""", 'try/finally close instead of with'),
    M('M-C06d-v1-load-no-zero-check', 'mapproxy/cache/compact.py', """                    offset = idx.tile_offset(x, y)
                    if offset == 0:
                        missing = True
                        continue

                    data = bundle.read_tile(offset)""", """                    offset = idx.tile_offset(x, y)

                    data = bundle.read_tile(offset)""", 'C06.d'),
    E('E-C06d-not-offset', 'mapproxy/cache/compact.py', """                    offset = idx.tile_offset(x, y)
                    if offset == 0:
                        missing = True
                        continue

                    data = bundle.read_tile(offset)""", """                    offset = idx.tile_offset(x, y)
                    if not offset:
                        missing = True
                        continue

                    data = bundle.read_tile(offset)""", 'truthiness form of the zero test'),
    M('M-C06d-v2-load-no-size-check', 'mapproxy/cache/compact.py', """        offset, size = self._tile_offset_size(fh, x, y)
        if not size:
            return False

        fh.seek(offset)""", """        offset, size = self._tile_offset_size(fh, x, y)

        fh.seek(offset)""", 'C06.d'),
    M('M-C06a-truncating-readwrite', 'mapproxy/cache/compact.py', """        self._init_index()
        with open(self.filename, 'r+b') as fh:
            yield fh""", """        self._init_index()
        with open(self.filename, 'w+b') as fh:
            yield fh""", 'C06.a'),
    M('M-C06e-legend-direct', 'mapproxy/cache/legend.py', "write_atomic(legend.location, data.read())",
      "open(legend.location, 'wb').write(data.read())", 'C06.a|C06.e'),
    M('M-C06c-v1-size-after-data', 'mapproxy/cache/compact.py', """        self._fh.write(struct.pack('<L', size))
        self._fh.write(data)

        # update header""", """        self._fh.write(data)
        self._fh.write(struct.pack('<L', size))

        # update header""", 'C06.c'),
    # ---------------------------------------------------------------- C19
    M('M-C19a-shift-mismatch', 'mapproxy/cache/compact.py', "size = val >> 40", "size = val >> 32", 'C19.a'),
    M('M-C19a-size-word-2', 'mapproxy/cache/compact.py', """        self._fh.seek(offset)
        return struct.unpack('<L', self._fh.read(4))[0]""", """        self._fh.seek(offset)
        return struct.unpack('<L', self._fh.read(2))[0]""", 'C19.a'),
    M('M-C19a-size-word-format', 'mapproxy/cache/compact.py', "fh.write(struct.pack('<L', len(data)))",
      "fh.write(struct.pack('<H', len(data)))", 'C19.a'),
    M('M-C19a-header-offset', 'mapproxy/cache/compact.py', """        fh.seek(24)
        fh.write(struct.pack("<Q", filesize))""", """        fh.seek(20)
        fh.write(struct.pack("<Q", filesize))""", 'C19.a'),
    M('M-C19a-header-fields', 'mapproxy/cache/compact.py', "BUNDLE_V2_HEADER_STRUCT_FORMAT = '<4I3Q6I'",
      "BUNDLE_V2_HEADER_STRUCT_FORMAT = '<4I3Q5I'", 'C19.a|C05.c'),
    E('E-C19a-named-shift', 'mapproxy/cache/compact.py', "size = val >> 40", "size = val >> (5 * 8)", 'constant expression for 40'),
    M('M-C19c-remove-first', 'mapproxy/script/defrag.py', """        stored_tiles = False

        for y in range(128):""", """        stored_tiles = False
        os.remove(bundle_file)

        for y in range(128):""", 'C19.c'),
    M('M-C19c-half-range', 'mapproxy/script/defrag.py', "tiles = [Tile((x, y, 0)) for x in range(128)]",
      "tiles = [Tile((x, y, 0)) for x in range(64)]", 'C19.c'),
    M('M-C19c-rename-unconditional', 'mapproxy/script/defrag.py', """        if stored_tiles:
            os.rename(tmp_bundle + '.bundle', bundle_file)""", """        if True:
            os.rename(tmp_bundle + '.bundle', bundle_file)""", 'C19.c'),
    E('E-C19c-rename-locals', 'mapproxy/script/defrag.py', """        for y in range(128):
            tiles = [Tile((x, y, 0)) for x in range(128)]""", """        for row in range(128):
            tiles = [Tile((col, row, 0)) for col in range(128)]""", 'renamed loop variables'),
    # ---------------------------------------------------------------- C07
    M('M-C07a-shared-lock', 'mapproxy/util/ext/lockfile.py', "_flags = fcntl.LOCK_EX | fcntl.LOCK_NB",
      "_flags = fcntl.LOCK_SH | fcntl.LOCK_NB", 'C07.a'),
    M('M-C07a-publish-before-lock', 'mapproxy/util/ext/lockfile.py', """        try:
            _lock_file(fp)
        except Exception as ex:
            try:
                fp.close()
            except Exception:
                pass
            raise ex

        self._fp = fp""", """        self._fp = fp
        try:
            _lock_file(fp)
        except Exception as ex:
            try:
                fp.close()
            except Exception:
                pass
            raise ex
""", 'C07.a'),
    M('M-C07a-failure-not-raised', 'mapproxy/util/ext/lockfile.py', """            try:
                fp.close()
            except Exception:
                pass
            raise ex

        self._fp = fp""", """            try:
                fp.close()
            except Exception:
                pass

        self._fp = fp""", 'C07.a'),
    M('M-C07b-revert-D6', 'mapproxy/util/ext/lockfile.py', """        if (path_stat.st_dev, path_stat.st_ino) != (file_stat.st_dev, file_stat.st_ino):
            raise LockError("Lock file {0} was replaced".format(file.name))
""", """        if (path_stat.st_dev, path_stat.st_ino) != (file_stat.st_dev, file_stat.st_ino):
            pass
""", 'C07.b', 'revert of fix D6 (the comparison no longer rejects)'),
    E('E-C07b-compare-other-order', 'mapproxy/util/ext/lockfile.py',
      "if (path_stat.st_dev, path_stat.st_ino) != (file_stat.st_dev, file_stat.st_ino):",
      "if (file_stat.st_ino, file_stat.st_dev) != (path_stat.st_ino, path_stat.st_dev):", 'operand order'),
    M('M-C07c-unlock-no-release', 'mapproxy/util/lock.py', """                except OSError:
                    self._lock.close()
            else:
                self._lock.close()""", """                except OSError:
                    self._lock.close()
            else:
                pass""", 'C07.c'),
    M('M-C07c-exit-conditional', 'mapproxy/util/lock.py', """    def __exit__(self, _exc_type, _exc_value, _traceback):
        self.unlock()

    def _try_lock(self):""", """    def __exit__(self, _exc_type, _exc_value, _traceback):
        if _exc_type is None:
            self.unlock()

    def _try_lock(self):""", 'C07.c'),
    M('M-C07c-no-with', 'mapproxy/cache/compact.py', """        with FileLock(self.lock_filename, directory_permissions=self.directory_permissions,
                      file_permissions=self.file_permissions, remove_on_unlock=True):
            with self.index().readwrite() as idx:
                x, y = self._rel_tile_coord(tile.coord)
                idx.remove_tile_offset(x, y)
""", """        lck = FileLock(self.lock_filename, directory_permissions=self.directory_permissions,
                       file_permissions=self.file_permissions, remove_on_unlock=True)
        lck.lock()
        with self.index().readwrite() as idx:
            x, y = self._rel_tile_coord(tile.coord)
            idx.remove_tile_offset(x, y)
        lck.unlock()
""", 'C07.c|C08.d', 'lock taken without with/try-finally: not released when the body raises'),
    M('M-C07d-timeout-early', 'mapproxy/util/lock.py', "if current_time < stop_time:", "if current_time > stop_time:", 'C07.d'),
    M('M-C07d-locked-in-handler', 'mapproxy/util/lock.py', """                    raise LockTimeout('another process is still running with our lock')
            else:
                self._locked = True""", """                    raise LockTimeout('another process is still running with our lock')
            self._locked = True""", 'C07.d'),
    E('E-C07e-tries-gt', 'mapproxy/util/lock.py', "if tries >= self.n:", "if tries > self.n:", 'one more retry'),
    E('E-C07e-descending', 'mapproxy/util/lock.py', "i = (i+1) % self.n", "i = (i-1) % self.n", 'descending slot order'),
    M('M-C07e-step-two', 'mapproxy/util/lock.py', "i = (i+1) % self.n", "i = (i+2) % self.n", 'C07.e'),
    E('E-C07f-commuted', 'mapproxy/cache/base.py', "max_lock_time=self.lock_timeout + 10,", "max_lock_time=10 + self.lock_timeout,",
      'commuted sum'),
    M('M-C07f-cleanup-newer', 'mapproxy/util/lock.py', "if os.path.getmtime(name) < expire_time:", "if os.path.getmtime(name) > expire_time:", 'C07.f'),
    # ---------------------------------------------------------------- C09
    M('M-C09c-rest-tile-no-int', 'mapproxy/request/wmts.py', """        self.layer = req_vars['Layer']
        self.tile = int(req_vars['TileCol']), int(req_vars['TileRow']), int(req_vars['TileMatrix'])
        self.format = req_vars.get('Format')""", """        self.layer = req_vars['Layer']
        self.tile = req_vars['TileCol'], req_vars['TileRow'], req_vars['TileMatrix']
        self.format = req_vars.get('Format')""", 'C09.c'),
    E('E-C09c-tuple-generator', 'mapproxy/request/tile.py', "self.tile = tuple([int(match.group(v)) for v in ['x', 'y', 'z']])",
      "self.tile = tuple(int(match.group(v)) for v in ['x', 'y', 'z'])", 'generator instead of list'),
    M('M-C09d-revert-D2', 'mapproxy/cache/path.py', """            lambda k: _dimension_dirname(k) + "-" + _dimension_dirname(dims.get(k, 'default')), dim_keys)))""",
      """            lambda k: k + "-" + str(dims.get(k, 'default')), dim_keys)))""", 'C09.d', 'revert of fix D2'),
    M('M-C09d-values-only', 'mapproxy/cache/path.py', """            lambda k: _dimension_dirname(k) + "-" + _dimension_dirname(dims.get(k, 'default')), dim_keys)))""",
      """            lambda k: k + "-" + _dimension_dirname(dims.get(k, 'default')), dim_keys)))""", 'C09.d', 'keys unsanitised'),
    M('M-C09d-sanitiser-forward-slash-only', 'mapproxy/cache/path.py', "for sep, escaped in (('/', '%2F'), ('\\\\', '%5C')):",
      "for sep, escaped in (('/', '%2F'),):", 'C09.d'),
    E('E-C09d-resub-whitelist', 'mapproxy/cache/path.py', """    value = str(value).replace('%', '%25')
    for sep, escaped in (('/', '%2F'), ('\\\\', '%5C')):
        value = value.replace(sep, escaped)
    return value""", """    import re
    return re.sub(r'[^A-Za-z0-9_.:+-]', '_', str(value))""", 're.sub with a negated whitelist: safe as a path (C09), not injective (C05.p reports it)', props=['C09']),
    E('E-C09d-replace-chain', 'mapproxy/cache/path.py', """    value = str(value).replace('%', '%25')
    for sep, escaped in (('/', '%2F'), ('\\\\', '%5C')):
        value = value.replace(sep, escaped)
    return value""", """    return str(value).replace('/', '_').replace('\\\\', '_')""", 'replace chain: safe as a path (C09), not injective (C05.p reports it)', props=['C09']),
    E('E-C05p-chain-spelling', 'mapproxy/cache/path.py', """    value = str(value).replace('%', '%25')
    for sep, escaped in (('/', '%2F'), ('\\\\', '%5C')):
        value = value.replace(sep, escaped)
    return value""", """    return str(value).replace('%', '%25').replace('/', '%2F').replace('\\\\', '%5C')""", 'the same escape scheme as one chain'),
    M('M-C09e-unvalidated-dimensions', 'mapproxy/service/tile.py', """                tile = self.tile_manager.load_tile_coord(tile_coord,
                                                         dimensions=dimensions, with_metadata=True)
            if tile.source is None:
                return self.empty_response()

            # Provide the wrapping WSGI app or filter the opportunity to process the
            # image before it's wrapped up in a response
            if decorate_img:
                tile.source = decorate_img(tile.source)

            if coverage_intersects:
                if self.empty_response_as_png:
                    format = 'png'
                    image_opts = ImageOptions(transparent=True, format='png')
                else:
                    format = self.format
                    image_opts = tile.source.image_opts

                tile.source = mask_image_source_from_coverage(
                    tile.source, tile_bbox, self.grid.srs, coverage, image_opts)

                return TileResponse(tile, format=format, image_opts=image_opts)

            format = None if self._mixed_format else tile_request.format""", """                tile = self.tile_manager.load_tile_coord(tile_coord,
                                                         dimensions=tile_request.dimensions, with_metadata=True)
            if tile.source is None:
                return self.empty_response()

            # Provide the wrapping WSGI app or filter the opportunity to process the
            # image before it's wrapped up in a response
            if decorate_img:
                tile.source = decorate_img(tile.source)

            if coverage_intersects:
                if self.empty_response_as_png:
                    format = 'png'
                    image_opts = ImageOptions(transparent=True, format='png')
                else:
                    format = self.format
                    image_opts = tile.source.image_opts

                tile.source = mask_image_source_from_coverage(
                    tile.source, tile_bbox, self.grid.srs, coverage, image_opts)

                return TileResponse(tile, format=format, image_opts=image_opts)

            format = None if self._mixed_format else tile_request.format""", 'C09.e'),
    M('M-C09e-accept-any-value', 'mapproxy/service/tile.py', """            if value in values:
                dimensions[dimension] = value
            elif not value or value == 'default':""", """            if value:
                dimensions[dimension] = value
            elif not value or value == 'default':""", 'C09.e'),
    M('M-C09a-request-path-in-filecache', 'mapproxy/cache/file.py', """        return self._tile_location(tile, self.cache_dir, self.file_ext, create_dir=create_dir, dimensions=dimensions,
                                   directory_permissions=self.directory_permissions)""", """        return self._tile_location(tile, cache_dir, self.file_ext, create_dir=create_dir, dimensions=dimensions,
                                   directory_permissions=self.directory_permissions)""", 'C09.b',
      'the half-sanitised cache_dir computed from request dimensions is actually used'),
    M('M-C09a-level-from-dimension', 'mapproxy/cache/mbtiles.py', """        return self._get_level(tile.coord[2]).is_cached(tile, dimensions=dimensions)""",
      """        return self._get_level(dimensions and dimensions.get('time') or tile.coord[2]).is_cached(tile, dimensions=dimensions)""",
      'C09.a|C05.d', 'level database name taken from a request dimension'),
    M('M-C09f-multiapp-two-segments', 'mapproxy/multiapp.py', "        app_name = req.pop_path()\n        if not app_name:\n            return self.index_list(req)",
      "        app_name = req.path.lstrip('/')\n        if not app_name:\n            return self.index_list(req)", 'C09.f'),
    # ---------------------------------------------------------------- C12
    M('M-C12a-revert-D3', 'mapproxy/cache/path.py', "return tile_location_tms, level_location_tms", "return tile_location_tms, level_location",
      'C12.a', 'revert of fix D3'),
    M('M-C12a-tms-level-drops-dimensions', 'mapproxy/cache/path.py', "return level_location(str(level), cache_dir=cache_dir, dimensions=dimensions)",
      "return level_location(str(level), cache_dir=cache_dir)", 'C12.a'),
    M('M-C12a-level-part-format', 'mapproxy/cache/path.py', """    if isinstance(level, str):
        return level
    else:
        return "%02d" % level""", """    if isinstance(level, str):
        return level
    else:
        return "%03d" % level""", 'C12.a'),
    M('M-C12b-mtime-gt', 'mapproxy/util/fs.py', "if remove_all or os.lstat(filename).st_mtime < before_timestamp:",
      "if remove_all or os.lstat(filename).st_mtime > before_timestamp:", 'C12.b'),
    M('M-C12b-stat', 'mapproxy/util/fs.py', "if remove_all or os.lstat(filename).st_mtime < before_timestamp:",
      "if remove_all or os.stat(filename).st_mtime < before_timestamp:", 'C12.b'),
    M('M-C12b-and', 'mapproxy/util/fs.py', "if remove_all or os.lstat(filename).st_mtime < before_timestamp:",
      "if remove_all and os.lstat(filename).st_mtime < before_timestamp:", 'C12.b'),
    E('E-C12b-swapped-operands', 'mapproxy/util/fs.py', "if remove_all or os.lstat(filename).st_mtime < before_timestamp:",
      "if remove_all or before_timestamp > os.lstat(filename).st_mtime:", 'swapped operands'),
    E('E-C12b-le', 'mapproxy/util/fs.py', "if remove_all or os.lstat(filename).st_mtime < before_timestamp:",
      "if remove_all or os.lstat(filename).st_mtime <= before_timestamp:", 'boundary not fixed by the statement'),
    M('M-C12c-delete-without-level', 'mapproxy/cache/geopackage.py', '"DELETE FROM [{0}] WHERE (zoom_level = ?)".format(self.table_name), (level,))',
      '"DELETE FROM [{0}] WHERE (zoom_level <= ?)".format(self.table_name), (level,))', 'C12.c'),
    M('M-C12c-delete-no-age', 'mapproxy/cache/mbtiles.py', """"DELETE FROM tiles WHERE (zoom_level = ? AND last_modified < datetime(?, 'unixepoch', 'localtime'))",""",
      """"DELETE FROM tiles WHERE (zoom_level = ? AND last_modified > datetime(?, 'unixepoch', 'localtime'))",""", 'C12.c'),
    M('M-C12d-simple-without-complete', 'mapproxy/seed/cleanup.py', """        if task.complete_extent:
            if has_level_location(task.tile_manager.cache, task.levels):""", """        if True:
            if has_level_location(task.tile_manager.cache, task.levels):""", 'C12.d'),
    E('E-C12d-nested-if', 'mapproxy/seed/cleanup.py', """        if task.complete_extent:
            if has_level_location(task.tile_manager.cache, task.levels):""", """        if task.complete_extent and task.levels is not None:
            if has_level_location(task.tile_manager.cache, task.levels):""", 'additional conjunct'),
    M('M-C12d-walker-not-stale', 'mapproxy/seed/cleanup.py', "tile_walker = TileWalker(task, tile_worker_pool, handle_stale=True, handle_all=handle_all,",
      "tile_walker = TileWalker(task, tile_worker_pool, handle_stale=False, handle_all=True,", 'C12.d'),
    M('M-C12d-remove-in-creator', 'mapproxy/cache/tile.py', """                if not source:
                    return []
                if source.authorize_stale""", """                if not source:
                    self.cache.remove_tile(tile)
                    return []
                if source.authorize_stale""", 'C12.d|C13.c'),
    # ---------------------------------------------------------------- C15
    M('M-C15a-revert-D4', 'mapproxy/util/async_.py', """                except Exception:
                    if raise_exceptions:
                        raise
                    result = sys.exc_info()
                yield result""", """                except Exception:
                    result = sys.exc_info()
                yield result""", 'C15.a', 'revert of fix D4'),
    E('E-C15a-else-raise', 'mapproxy/util/async_.py', """                except Exception:
                    if raise_exceptions:
                        raise
                    result = sys.exc_info()
                yield result""", """                except Exception:
                    if not raise_exceptions:
                        result = sys.exc_info()
                    else:
                        raise
                yield result""", 'if not mode: value else: raise'),
    M('M-C15a-single-call-swallow', 'mapproxy/util/async_.py', """        except Exception:
            if not use_result_objects:
                raise
            result = sys.exc_info()
        return _result_iter([result], use_result_objects)""", """        except Exception:
            result = sys.exc_info()
        return _result_iter([result], use_result_objects)""", 'C15.a|C15.d'),
    M('M-C15c-results-wrong-key', 'mapproxy/util/async_.py', "                results[i] = value", "                results[next_result] = value", 'C15.c'),
    M('M-C15c-worker-index-zero', 'mapproxy/util/async_.py', "self.result_queue.put((exec_id, result))", "self.result_queue.put((0, result))", 'C15.c'),
    M('M-C15c-no-advance', 'mapproxy/util/async_.py', """                while next_result in results:
                    yield results.pop(next_result)
                    next_result += 1""", """                while next_result in results:
                    yield results.pop(next_result)
                    next_result += 2""", 'C15.c'),
    E('E-C15c-rename-exec-id', 'mapproxy/util/async_.py', """                exec_id, func, args = task
                try:
                    result = func(*args)
                except Exception:
                    result = sys.exc_info()
                self.result_queue.put((exec_id, result))""", """                idx, func, args = task
                try:
                    result = func(*args)
                except Exception:
                    result = sys.exc_info()
                self.result_queue.put((idx, result))""", 'renamed local'),
    M('M-C15d-swallow-in-result-iter', 'mapproxy/util/async_.py', """                exception = result
                result = None""", """                result = None""", 'C15.d'),
    M('M-C15d-fetch-no-raise', 'mapproxy/util/async_.py', """                exc_class, exc, tb = task_result[1]
                raise exc.with_traceback(tb)""", """                exc_class, exc, tb = task_result[1]
                continue""", 'C15.d'),
    E('E-C15d-shutdown-not-forced', 'mapproxy/util/async_.py', """                self.shutdown(force=True)
                exc_class, exc, tb = task_result[1]""", """                self.shutdown(force=False)
                exc_class, exc, tb = task_result[1]""", 'force flag is not part of the rule'),
    M('M-C15e-sorted-results', 'mapproxy/cache/tile.py', "for layer in async_.imap(get_map_from_source, self.sources):",
      "for layer in sorted(async_.imap(get_map_from_source, self.sources), key=id):", 'C15.e'),
    # ---------------------------------------------------------------- C20
    M('M-C20a-revert-D5-wmts', 'mapproxy/service/wmts.py', """        if tile.cacheable:
            resp.cache_headers(tile.timestamp, etag_data=(tile.timestamp, tile.size),
                               max_age=self.max_tile_age)
        else:
            resp.cache_headers(no_cache=True)""", """        resp.cache_headers(tile.timestamp, etag_data=(tile.timestamp, tile.size),
                           max_age=self.max_tile_age)""", 'C20.a', 'revert of fix D5'),
    M('M-C20a-conditional-first', 'mapproxy/service/kml.py', """        if tile.cacheable:
            resp.cache_headers(tile.timestamp, etag_data=(tile.timestamp, tile.size),
                               max_age=self.max_tile_age)
        else:
            resp.cache_headers(no_cache=True)
        resp.make_conditional(map_request.http)""", """        resp.make_conditional(map_request.http)
        if tile.cacheable:
            resp.cache_headers(tile.timestamp, etag_data=(tile.timestamp, tile.size),
                               max_age=self.max_tile_age)
        else:
            resp.cache_headers(no_cache=True)""", 'C20.a'),
    M('M-C20a-tms-always-cacheable', 'mapproxy/service/tile.py', """        if tile.cacheable:
            resp.cache_headers(tile.timestamp, etag_data=(tile.timestamp, tile.size),
                               max_age=self.max_tile_age)
        else:
            resp.cache_headers(no_cache=True)""", """        if tile.cacheable or True:
            resp.cache_headers(tile.timestamp, etag_data=(tile.timestamp, tile.size),
                               max_age=self.max_tile_age)
        else:
            resp.cache_headers(no_cache=True)""", 'C20.a'),
    M('M-C20a-etag-mixed-objects', 'mapproxy/service/wmts.py', """            resp.cache_headers(tile.timestamp, etag_data=(tile.timestamp, tile.size),
                               max_age=self.max_tile_age)""", """            resp.cache_headers(tile.timestamp, etag_data=(tile.timestamp, tile_layer.grid.tile_size),
                               max_age=self.max_tile_age)""", 'C20.a'),
    E('E-C20a-negated-branches', 'mapproxy/service/wmts.py', """        if tile.cacheable:
            resp.cache_headers(tile.timestamp, etag_data=(tile.timestamp, tile.size),
                               max_age=self.max_tile_age)
        else:
            resp.cache_headers(no_cache=True)""", """        if not tile.cacheable:
            resp.cache_headers(no_cache=True)
        else:
            resp.cache_headers(tile.timestamp, etag_data=(tile.timestamp, tile.size),
                               max_age=self.max_tile_age)""", 'swapped branches'),
    M('M-C20b-inm-default-none', 'mapproxy/response.py', "environ.get('HTTP_IF_NONE_MATCH', -1)", "environ.get('HTTP_IF_NONE_MATCH', None)", 'C20.b'),
    M('M-C20b-ims-ge', 'mapproxy/response.py', "if timestamp is not None and self._timestamp <= timestamp:",
      "if timestamp is not None and self._timestamp >= timestamp:", 'C20.b'),
    M('M-C20b-unparsed-date-304', 'mapproxy/response.py', "if timestamp is not None and self._timestamp <= timestamp:",
      "if timestamp is None or self._timestamp <= timestamp:", 'C20.b'),
    E('E-C20b-swapped-operands', 'mapproxy/response.py', "if timestamp is not None and self._timestamp <= timestamp:",
      "if timestamp is not None and timestamp >= self._timestamp:", 'swapped operands'),
    E('E-C20b-strict', 'mapproxy/response.py', "if timestamp is not None and self._timestamp <= timestamp:",
      "if timestamp is not None and self._timestamp < timestamp:", 'strictly older is sound too'),
    M('M-C20c-etag-size-only', 'mapproxy/response.py', "hash_src = ''.join((str(x) for x in etag_data)).encode('ascii')",
      "hash_src = str(etag_data[1]).encode('ascii')", 'C20.c'),
    M('M-C20c-no-store-dropped', 'mapproxy/response.py', "self.headers['Cache-Control'] = 'no-cache, no-store'", "self.headers['Cache-Control'] = 'no-cache'", 'C20.c'),
    M('M-C20d-response-size-zero', 'mapproxy/service/tile.py', "        self.size = tile.size\n        self.cacheable = tile.cacheable", "        self.size = 0\n        self.cacheable = tile.cacheable", 'C20.d'),
    M('M-C20e-error-cacheable', 'mapproxy/exception.py', """            resp = Response('internal error: %s' % self.msg, status=500)
        resp.cache_headers(no_cache=True)
        return resp""", """            resp = Response('internal error: %s' % self.msg, status=500)
            resp.cache_headers(no_cache=True)
        return resp""", 'C20.e', 'no-store only on one branch'),
    # ---------------------------------------------------------------- C02
    M('M-C02a-revert-D10', 'mapproxy/service/wmts.py', "bbox = tile_layer.tile_bbox(request)", "bbox = tile_layer.grid.tile_bbox(request.tile)",
      'C02.a', 'revert of fix D10'),
    M('M-C02a-kml-public-to-grid', 'mapproxy/service/kml.py', "bbox = layer.tile_bbox(tile_request, use_profiles=tile_request.use_profiles, limit=True)",
      "bbox = layer.grid.tile_bbox(tile_request.tile, limit=True)", 'C02.a'),
    E('E-C02a-local-before-converter', 'mapproxy/service/tile.py', "tile_coord = self.grid.internal_tile_coord(tile_request.tile, use_profiles)",
      "public = tile_request.tile\n        tile_coord = self.grid.internal_tile_coord(public, use_profiles)", 'bound to a local first'),
    M('M-C02b-rest-origin-sw', 'mapproxy/request/wmts.py', "    request_handler_name = 'tile'\n    origin = 'nw'", "    request_handler_name = 'tile'\n    origin = 'sw'", 'C02.b'),
    M('M-C02b-revert-D10-origin', 'mapproxy/request/wmts.py', "    request_handler_name = 'featureinfo'\n    origin = 'nw'\n", "    request_handler_name = 'featureinfo'\n", 'C02.b', 'revert of fix D10 (origin)'),
    M('M-C02b-no-flip-nw', 'mapproxy/service/tile.py', "if tile_request.origin == 'nw' and self.grid.origin not in ('ul', 'nw'):",
      "if tile_request.origin == 'nw' and self.grid.origin in ('ul', 'nw'):", 'C02.b'),
    M('M-C02b-kml-origin-late', 'mapproxy/service/kml.py', """        map_request.origin = 'sw'
        layer = self.layer(map_request)
        limit_to = self.authorize_tile_layer(layer, map_request)
        tile = layer.render(map_request, coverage=limit_to)""", """        layer = self.layer(map_request)
        limit_to = self.authorize_tile_layer(layer, map_request)
        tile = layer.render(map_request, coverage=limit_to)
        map_request.origin = 'sw'""", 'C02.b'),
    E('E-C02b-origin-in-init', 'mapproxy/request/wmts.py', """class WMTS100RestFeatureInfoRequest(TileRequest):
    \"\"\"
    Class for RESTful WMTS FeatureInfo requests.
    \"\"\"
    xml_exception_handler = WMTS100ExceptionHandler
    request_handler_name = 'featureinfo'
    origin = 'nw'

    def __init__(self, request, req_vars, url_converter=None):
        self.http = request""", """class WMTS100RestFeatureInfoRequest(TileRequest):
    \"\"\"
    Class for RESTful WMTS FeatureInfo requests.
    \"\"\"
    xml_exception_handler = WMTS100ExceptionHandler
    request_handler_name = 'featureinfo'

    def __init__(self, request, req_vars, url_converter=None):
        self.origin = 'nw'
        self.http = request""", 'origin set in __init__ instead of the class body'),
    M('M-C02c-topleft-bottom', 'mapproxy/service/wmts.py', "topleft = bbox[0], bbox[3]", "topleft = bbox[0], bbox[1]", 'C02.c'),
    M('M-C02c-origin-tile-ll', 'mapproxy/service/wmts.py', "origin = self.grid.origin_tile(level, 'ul')", "origin = self.grid.origin_tile(level, 'll')", 'C02.c'),
    M('M-C02d-profile-skip-two', 'mapproxy/service/tile.py', """        if use_profiles and self._skip_first_level:
            z += 1
        if self._skip_odd_level:
            z *= 2
        return self.grid.limit_tile((x, y, z))""", """        if use_profiles and self._skip_first_level:
            z += 2
        if self._skip_odd_level:
            z *= 2
        return self.grid.limit_tile((x, y, z))""", 'C02.d'),
    M('M-C02d-tile-sets-start', 'mapproxy/service/tile.py', """            if self._skip_odd_level:
                start = 2
            else:
                start = 1""", """            if self._skip_odd_level:
                start = 1
            else:
                start = 1""", 'C02.d'),
    M('M-C02e-revert-D12', 'mapproxy/service/templates/tms_tilemap_capabilities.xml', '<Origin x="{{layer.grid.bbox[0]}}" y="{{layer.grid.bbox[1]}}" />',
      '<Origin x="{{layer.bbox[0]}}" y="{{layer.bbox[1]}}" />', 'C02.e', 'revert of fix D12'),
    M('M-C02e-tilewidth-index', 'mapproxy/service/templates/wmts100capabilities.xml', "<TileWidth>{{matrix.tile_size[0]}}</TileWidth>",
      "<TileWidth>{{matrix.tile_size[1]}}</TileWidth>", 'C02.e'),
    M('M-C02e-wmsc-width', 'mapproxy/service/templates/wms111capabilities.xml', "<Width>{{layer.grid.tile_size[0]}}</Width>",
      "<Width>{{layer.grid.tile_size[1]}}</Width>", 'C02.e'),
    E('E-C02e-whitespace', 'mapproxy/service/templates/wmts100capabilities.xml', "<TileWidth>{{matrix.tile_size[0]}}</TileWidth>",
      "<TileWidth>{{ matrix.tile_size[0] }}</TileWidth>", 'whitespace inside the placeholder'),
    M('M-C02f-meters-per-degree', 'mapproxy/service/wmts.py', "METERS_PER_DEEGREE = 111319.4907932736", "METERS_PER_DEEGREE = 111139.4907932736", 'C02.f'),
    # ---------------------------------------------------------------- C10
    M('M-C10a-no-filter-map', 'mapproxy/service/wms.py', """        self.filter_actual_layers(actual_layers, map_request.params.layers, authorized_layers)

        render_layers = []""", """        render_layers = []""", 'C10.a'),
    M('M-C10a-wmts-auth-after-render', 'mapproxy/service/wmts.py', """        limited_to = self.authorize_tile_layer(tile_layer, request)

        def decorate_img(image):
            query_extent = tile_layer.grid.srs.srs_code, tile_layer.tile_bbox(request)
            return self.decorate_img(image, 'wmts', [tile_layer.name], request.http.environ, query_extent)

        tile = tile_layer.render(request, coverage=limited_to, decorate_img=decorate_img)
""", """        def decorate_img(image):
            query_extent = tile_layer.grid.srs.srs_code, tile_layer.tile_bbox(request)
            return self.decorate_img(image, 'wmts', [tile_layer.name], request.http.environ, query_extent)

        tile = tile_layer.render(request, coverage=None, decorate_img=decorate_img)
        limited_to = self.authorize_tile_layer(tile_layer, request)
""", 'C10.a|C10.b'),
    M('M-C10a-kml-no-auth', 'mapproxy/service/kml.py', """        layer = self.layer(map_request)
        limit_to = self.authorize_tile_layer(layer, map_request)
        tile = layer.render(map_request, coverage=limit_to)""", """        layer = self.layer(map_request)
        limit_to = None
        tile = layer.render(map_request, coverage=limit_to)""", 'C10.a'),
    M('M-C10a-tms-layer-no-auth', 'mapproxy/service/tile.py', """        limit_to = self.authorize_tile_layer(internal_layer, tile_request)
        return internal_layer, limit_to""", """        limit_to = None
        return internal_layer, limit_to""", 'C10.a'),
    E('E-C10a-reordered-prologue', 'mapproxy/service/wms.py', """        p = request.params
        query = InfoQuery(p.bbox, p.size, SRS(p.srs), p.pos,
                          p['info_format'], format=request.params.format or None,
                          feature_count=p.get('feature_count'))

        actual_layers = odict()
""", """        actual_layers = odict()
        p = request.params
        query = InfoQuery(p.bbox, p.size, SRS(p.srs), p.pos,
                          p['info_format'], format=request.params.format or None,
                          feature_count=p.get('feature_count'))
""", 'independent statements reordered'),
    M('M-C10b-wmts-coverage-none', 'mapproxy/service/wmts.py', "tile = tile_layer.render(request, coverage=limited_to, decorate_img=decorate_img)",
      "tile = tile_layer.render(request, coverage=None, decorate_img=decorate_img)", 'C10.b'),
    M('M-C10b-merge-no-coverage', 'mapproxy/service/wms.py', "bbox=query.bbox, bbox_srs=params.srs, coverage=coverage)",
      "bbox=query.bbox, bbox_srs=params.srs, coverage=None)", 'C10.b'),
    M('M-C10b-fi-no-gate', 'mapproxy/service/wms.py', """        if coverage and not coverage.contains(query.coord, query.srs):
            infos = []
        else:
            info_layers = []""", """        if False:
            infos = []
        else:
            info_layers = []""", 'C10.b'),
    M('M-C10c-tms-forbidden-return', 'mapproxy/service/tile.py', """                    else:
                        return None
            raise RequestError('forbidden', status=403)

    def authorized_tile_layers(self, env):""", """                    else:
                        return None
            return None

    def authorized_tile_layers(self, env):""", 'C10.c'),
    M('M-C10c-kml-is-true-inverted', 'mapproxy/service/kml.py', "if result['layers'].get(tile_layer.name, {}).get('tile', False) is True:",
      "if result['layers'].get(tile_layer.name, {}).get('tile', False) is not True:", 'C10.c'),
    M('M-C10c-wmts-default-true', 'mapproxy/service/wmts.py', "if result['layers'].get(tile_layer.name, {}).get(key, False) is True:",
      "if result['layers'].get(tile_layer.name, {}).get(key, True) is True:", 'C10.c'),
    M('M-C10c-wms-none-is-permit-all', 'mapproxy/service/wms.py', """            if result['authorized'] == 'full':
                return PERMIT_ALL_LAYERS, None
            layers = {}""", """            if result['authorized'] != 'partial':
                return PERMIT_ALL_LAYERS, None
            layers = {}""", 'C10.c'),
    M('M-C10c-filter-keeps-unauthorized', 'mapproxy/service/wms.py', """                    # or implicit (part of group layer)
                    else:
                        del actual_layers[layer_name]""", """                    # or implicit (part of group layer)
                    else:
                        pass""", 'C10.c'),
    E('E-C10c-early-return-style', 'mapproxy/service/wmts.py', """        if result['authorized'] == 'unauthenticated':
            raise RequestError('unauthorized', status=401)
        if result['authorized'] == 'full':
            return
        if result['authorized'] == 'partial':
            if result['layers'].get(tile_layer.name, {}).get(key, False) is True:""", """        if result['authorized'] == 'full':
            return
        if result['authorized'] == 'unauthenticated':
            raise RequestError('unauthorized', status=401)
        if result['authorized'] == 'partial':
            if result['layers'].get(tile_layer.name, {}).get(key, False) is True:""", 'reordered independent tests'),
    M('M-C10d-clip-false', 'mapproxy/util/coverage.py', "    return GeomCoverage(geom, srs, clip=True)\n\n\nclass MultiCoverage", "    return GeomCoverage(geom, srs, clip=False)\n\n\nclass MultiCoverage", 'C10.d'),
    M('M-C10d-no-global-mask', 'mapproxy/image/merge.py', """        # apply global clip coverage
        if coverage:
            bg = create_image(size, image_opts)""", """        # apply global clip coverage
        if coverage and len(self.layers) > 1:
            bg = create_image(size, image_opts)""", 'C10.d'),
    E('E-C10d-demorgan-fastpath', 'mapproxy/image/merge.py', "                and (not layer_coverage or not layer_coverage.clip)\n                and (not layer_opts",
      "                and not (layer_coverage and layer_coverage.clip)\n                and (not layer_opts", 'De Morgan'),
    M('M-C10e-flag-false', 'mapproxy/service/tile.py', """            elif coverage.intersects(tile_bbox, self.grid.srs):
                coverage_intersects = True
            else:
                return self.empty_response()

        dimensions = self.checked_dimensions(tile_request)""", """            elif coverage.intersects(tile_bbox, self.grid.srs):
                coverage_intersects = False
            else:
                return self.empty_response()

        dimensions = self.checked_dimensions(tile_request)""", 'C10.e'),
    M('M-C10e-disjoint-rendered', 'mapproxy/service/tile.py', """            elif coverage.intersects(tile_bbox, self.grid.srs):
                coverage_intersects = True
            else:
                return self.empty_response()

        dimensions = self.checked_dimensions(info_request)""", """            elif coverage.intersects(tile_bbox, self.grid.srs):
                coverage_intersects = True
            else:
                pass

        dimensions = self.checked_dimensions(info_request)""", 'C10.e'),
    E('E-C10e-not-contains-form', 'mapproxy/service/tile.py', """            if coverage.contains(tile_bbox, self.grid.srs):
                pass
            elif coverage.intersects(tile_bbox, self.grid.srs):
                coverage_intersects = True
            else:
                return self.empty_response()

        dimensions = self.checked_dimensions(tile_request)""", """            if not coverage.contains(tile_bbox, self.grid.srs):
                if coverage.intersects(tile_bbox, self.grid.srs):
                    coverage_intersects = True
                else:
                    return self.empty_response()

        dimensions = self.checked_dimensions(tile_request)""", 'nested form'),
    M('M-C10f-limited-fi-ungated', 'mapproxy/layer.py', """        if self.coverage:
            if not self.coverage.contains(query.coord, query.srs):
                return None
        return self._layer.get_info(query)""", """        return self._layer.get_info(query)""", 'C10.f'),
    # ---------------------------------------------------------------- C16
    M('M-C16a-limit-no-ymax', 'mapproxy/grid.py', "if x < 0 or y < 0 or x >= grid[0] or y >= grid[1]:\n            return None",
      "if x < 0 or y < 0 or x >= grid[0]:\n            return None", 'C16.a'),
    M('M-C16a-limit-off-by-one', 'mapproxy/grid.py', "if x < 0 or y < 0 or x >= grid[0] or y >= grid[1]:\n            return None",
      "if x < 0 or y < 0 or x > grid[0] or y >= grid[1]:\n            return None", 'C16.a'),
    M('M-C16a-limit-axis', 'mapproxy/grid.py', "if x < 0 or y < 0 or x >= grid[0] or y >= grid[1]:\n            return None",
      "if x < 0 or y < 0 or x >= grid[1] or y >= grid[0]:\n            return None", 'C16.a|C03.a'),
    E('E-C16a-chained-form', 'mapproxy/grid.py', "if x < 0 or y < 0 or x >= grid[0] or y >= grid[1]:\n            return None",
      "if not (0 <= x < grid[0]) or not (0 <= y < grid[1]):\n            return None", 'chained comparison form'),
    M('M-C16a-tilelist-no-upper', 'mapproxy/grid.py', "if x < 0 or y < 0 or x >= x_limit or y >= y_limit:", "if x < 0 or y < 0:", 'C16.a'),
    M('M-C16a-level-upper', 'mapproxy/grid.py', "elif z < 0 or z >= self.levels:", "elif z < 0 or z > self.levels:", 'C16.a'),
    M('M-C16b-no-format-check', 'mapproxy/service/tile.py', """        if tile_request.format != self.format:
            raise RequestError('invalid format (%s). this tile set only supports (%s)'
                               % (tile_request.format, self.format), request=tile_request,
                               code='InvalidParameterValue')
""", """        if False:
            raise RequestError('invalid format (%s). this tile set only supports (%s)'
                               % (tile_request.format, self.format), request=tile_request,
                               code='InvalidParameterValue')
""", 'C16.b'),
    M('M-C16b-outofrange-swallowed', 'mapproxy/service/tile.py', """        if tile_coord is None:
            raise RequestError('The requested tile is outside the bounding box'
                               ' of the tile map.', request=tile_request,
                               code='TileOutOfRange')
        if tile_request.origin == 'nw'""", """        if tile_coord is None:
            return None
        if tile_request.origin == 'nw'""", 'C16.a|C02.b'),
    M('M-C16b-wmts-lookup-before-check', 'mapproxy/service/wmts.py', """    def tile(self, request):
        self.check_request(request)

        tile_layer = self.layers[request.layer][request.tilematrixset]""", """    def tile(self, request):
        request.make_request()
        tile_layer = self.layers[request.layer][request.tilematrixset]
        self.check_request(request)
""", 'C16.b'),
    E('E-C16b-coord-before-format', 'mapproxy/service/tile.py', """        if info_request.format != self.format:
            raise RequestError('invalid format (%s). this tile set only supports (%s)'
                               % (info_request.format, self.format), request=info_request,
                               code='InvalidParameterValue')

        tile_coord = self._internal_tile_coord(info_request)
""", """        tile_coord = self._internal_tile_coord(info_request)
        if info_request.format != self.format:
            raise RequestError('invalid format (%s). this tile set only supports (%s)'
                               % (info_request.format, self.format), request=info_request,
                               code='InvalidParameterValue')
""", 'coordinate computed before the format test, both still before the load'),
    M('M-C16c-check-after-render', 'mapproxy/service/wms.py', """    def map(self, map_request):
        self.check_map_request(map_request)

        params = map_request.params""", """    def map(self, map_request):
        params = map_request.params""", 'C16.c'),
    M('M-C16c-tile-limit-logged', 'mapproxy/layer.py', """        if self.max_tile_limit and num_tiles >= self.max_tile_limit:
            raise MapBBOXError("too many tiles, max_tile_limit: %s, num_tiles: %s" % (self.max_tile_limit, num_tiles))
""", """        if self.max_tile_limit and num_tiles >= self.max_tile_limit:
            log.warning("too many tiles, max_tile_limit: %s, num_tiles: %s" % (self.max_tile_limit, num_tiles))
""", 'C16.c'),
    M('M-C16c-limit-after-load', 'mapproxy/layer.py', """        num_tiles = tile_grid[0] * tile_grid[1]

        if self.max_tile_limit and num_tiles >= self.max_tile_limit:
            raise MapBBOXError("too many tiles, max_tile_limit: %s, num_tiles: %s" % (self.max_tile_limit, num_tiles))

        if query.tiled_only:
            if num_tiles > 1:
                raise MapBBOXError("not a single tile")
            bbox = query.bbox
            if not bbox_equals(bbox, src_bbox, abs((bbox[2]-bbox[0])/query.size[0]/10),
                               abs((bbox[3]-bbox[1])/query.size[1]/10)):
                raise MapBBOXError("query does not align to tile boundaries")

        with self.tile_manager.session():
            tile_collection = self.tile_manager.load_tile_coords(
                affected_tile_coords, with_metadata=query.tiled_only, dimensions=query.dimensions)
""", """        num_tiles = tile_grid[0] * tile_grid[1]

        if query.tiled_only:
            if num_tiles > 1:
                raise MapBBOXError("not a single tile")
            bbox = query.bbox
            if not bbox_equals(bbox, src_bbox, abs((bbox[2]-bbox[0])/query.size[0]/10),
                               abs((bbox[3]-bbox[1])/query.size[1]/10)):
                raise MapBBOXError("query does not align to tile boundaries")

        with self.tile_manager.session():
            tile_collection = self.tile_manager.load_tile_coords(
                affected_tile_coords, with_metadata=query.tiled_only, dimensions=query.dimensions)

        if self.max_tile_limit and num_tiles >= self.max_tile_limit:
            raise MapBBOXError("too many tiles, max_tile_limit: %s, num_tiles: %s" % (self.max_tile_limit, num_tiles))
""", 'C16.c'),
    E('E-C16c-unpacked-area', 'mapproxy/layer.py', "        num_tiles = tile_grid[0] * tile_grid[1]\n", "        cols, rows = tile_grid\n        num_tiles = cols * rows\n", 'w, h = size; w * h'),
    E('E-C16c-gt', 'mapproxy/layer.py', "if self.max_tile_limit and num_tiles >= self.max_tile_limit:", "if self.max_tile_limit and num_tiles > self.max_tile_limit:", 'boundary value not fixed'),
    M('M-C16d-missing-for-none', 'mapproxy/cache/tile.py', """        if tile.coord is None:
            return False
        if cache_only:""", """        if cache_only:""", 'C16.d'),
    M('M-C16d-mbtiles-none-io', 'mapproxy/cache/mbtiles.py', """    def load_tile(self, tile, with_metadata=False, dimensions=None):
        if tile.source or tile.coord is None:
            return True

        cur = self.db.cursor()""", """    def load_tile(self, tile, with_metadata=False, dimensions=None):
        if tile.source:
            return True

        cur = self.db.cursor()""", 'C16.d'),
    # ---------------------------------------------------------------- C13
    M('M-C13a-stale-lt', 'mapproxy/cache/tile.py', "stale = int(tile.timestamp) <= max_mtime", "stale = int(tile.timestamp) < max_mtime", 'C13.a'),
    M('M-C13a-compare-before-metadata', 'mapproxy/cache/tile.py', """            self.cache.load_tile_metadata(tile, dimensions=self.dimensions)
            # file time stamp must be rounded to integer since time conversion functions
            # mktime and timetuple strip decimals from seconds
            stale = int(tile.timestamp) <= max_mtime""", """            # file time stamp must be rounded to integer since time conversion functions
            # mktime and timetuple strip decimals from seconds
            stale = int(tile.timestamp or 0) <= max_mtime
            self.cache.load_tile_metadata(tile, dimensions=self.dimensions)""", 'C13.a'),
    E('E-C13a-swapped', 'mapproxy/cache/tile.py', "stale = int(tile.timestamp) <= max_mtime", "stale = max_mtime >= int(tile.timestamp)", 'swapped operands'),
    M('M-C13a-is-stale-inverted', 'mapproxy/cache/tile.py', """            if not self.is_cached(tile, dimensions=dimensions):
                # expired
                return True
            return False
        return False""", """            if self.is_cached(tile, dimensions=dimensions):
                # expired
                return True
            return False
        return False""", 'C13.a'),
    M('M-C13b-cached-threshold', 'mapproxy/cache/tile.py', """            from mapproxy.seed.config import before_timestamp_from_options
            return before_timestamp_from_options(self._refresh_before)
        return None""", """            from mapproxy.seed.config import before_timestamp_from_options
            self._expire_timestamp = before_timestamp_from_options(self._refresh_before)
            return self._expire_timestamp
        return None""", 'C13.b'),
    M('M-C13b-precedence', 'mapproxy/seed/config.py', "    if 'time' in conf:\n        try:\n            return timestamp_from_isodate(conf['time'])",
      "    if 'time' in conf and 'mtime' not in conf:\n        try:\n            return timestamp_from_isodate(conf['time'])", 'C13.b'),
    M('M-C13c-store-before-check', 'mapproxy/cache/tile.py', """                if not source:
                    return []
                if source.authorize_stale and self.is_stale(tile):""", """                if source.authorize_stale and self.is_stale(tile):""", 'C13.c'),
    M('M-C13c-meta-store-unfetched', 'mapproxy/cache/tile.py', """                if not meta_tile_image:
                    return []
                splitted_tiles = split_meta_tiles""", """                splitted_tiles = split_meta_tiles""", 'C13.c'),
    M('M-C13d-recheck-plain-cache', 'mapproxy/cache/tile.py', """        return self.tile_mgr.is_cached(tile, dimensions=dimensions)

    def is_stale(self, tile):""", """        return self.tile_mgr.cache.is_cached(tile, dimensions=dimensions)

    def is_stale(self, tile):""", 'C13.d'),
    # ---------------------------------------------------------------- C17
    M('M-C17a-no-coverage-gate-tile', 'mapproxy/source/tile.py', """        if self.coverage and not self.coverage.intersects(query.bbox, query.srs):
            raise BlankImage()

        _bbox, grid, tiles""", """        _bbox, grid, tiles""", 'C17.a'),
    M('M-C17a-gate-after-fetch', 'mapproxy/source/wms.py', """        if self.coverage and not self.coverage.intersects(query.bbox, query.srs):
            raise BlankImage()
        try:
            resp = self._get_map(query)""", """        try:
            resp = self._get_map(query)
            if self.coverage and not self.coverage.intersects(query.bbox, query.srs):
                raise BlankImage()""", 'C17.a'),
    M('M-C17a-no-resrange-gate', 'mapproxy/source/wms.py', """    def get_map(self, query):
        if self.res_range and not self.res_range.contains(query.bbox, query.size,
                                                          query.srs):
            raise BlankImage()
        if self.coverage and not self.coverage.intersects""", """    def get_map(self, query):
        if self.coverage and not self.coverage.intersects""", 'C17.a'),
    M('M-C17a-foreign-grid-tile', 'mapproxy/source/tile.py', "return self.client.get_tile(tile_coord, format=query.format)",
      "return self.client.get_tile(getattr(query, 'tile_coord', tile_coord), format=query.format)", 'C17.a'),
    M('M-C17a-info-no-gate', 'mapproxy/source/wms.py', """        if self.coverage and not self.coverage.contains(query.coord, query.srs):
            return None
        doc = self.client.get_info(query)""", """        doc = self.client.get_info(query)""", 'C17.a'),
    M('M-C17b-preferred-first', 'mapproxy/srs.py', """            for preferred in self.target_proj[target]:
                for avail in available_src:
                    if avail == preferred:
                        return avail""", """            for preferred in self.target_proj[target]:
                return preferred""", 'C17.b'),
    M('M-C17b-unsupported-direct', 'mapproxy/source/wms.py', """            if request_srs is None:
                return self._get_transformed(query, format)""", """            if request_srs is None:
                pass""", 'C17.b'),
    M('M-C17c-format-not-negotiated', 'mapproxy/source/wms.py', """        if self.supported_formats and format not in self.supported_formats:
            format = self.supported_formats[0]
        if self.supported_srs:""", """        if self.supported_srs:""", 'C17.c'),
    M('M-C17d-no-subquery', 'mapproxy/source/wms.py', """        if self.extent and not self.extent.contains(MapExtent(query.bbox, query.srs)):
            return self._get_sub_query(query, format)
        resp = self.client.retrieve(query, format)""", """        resp = self.client.retrieve(query, format)""", 'C17.d'),
    M('M-C17e-forward-all-dims', 'mapproxy/client/wms.py', "req.params.update(query.dimensions_for_params(self.fwd_req_params))", "req.params.update(query.dimensions)", 'C17.e'),
    E('E-C17e-local-first', 'mapproxy/client/wms.py', "req.params.update(query.dimensions_for_params(self.fwd_req_params))",
      "fwd = query.dimensions_for_params(self.fwd_req_params)\n        req.params.update(fwd)", 'filtered dict bound to a local first'),
    M('M-C17e-filter-inverted', 'mapproxy/layer.py', "return dict((k, v) for k, v in self.dimensions.items() if k.lower() in params)",
      "return dict((k, v) for k, v in self.dimensions.items() if k.lower() not in params)", 'C17.e'),
    # ---------------------------------------------------------------- C14
    M('M-C14a-fastpath-any-count', 'mapproxy/image/merge.py', "        if len(self.layers) == 1:\n            layer_img, layer_coverage = self.layers[0]",
      "        if len(self.layers) >= 1:\n            layer_img, layer_coverage = self.layers[0]", 'C14.a'),
    M('M-C14a-fastpath-ignores-opacity-of-output', 'mapproxy/image/merge.py', "if (((layer_opts and not layer_opts.transparent) or image_opts.transparent)",
      "if (((layer_opts and not layer_opts.transparent) or not image_opts.transparent)", 'C14.a'),
    E('E-C14a-nested-ifs', 'mapproxy/image/merge.py', """            if (((layer_opts and not layer_opts.transparent) or image_opts.transparent)
                and (not size or size == layer_img.size)
                and (not layer_coverage or not layer_coverage.clip)
                and (not layer_opts or layer_opts.opacity is None or layer_opts.opacity >= 1.0)
                    and not coverage):
                # layer is opaque, no need to make transparent or add bgcolor
                return layer_img""", """            if not coverage and (not layer_coverage or not layer_coverage.clip):
                if ((layer_opts and not layer_opts.transparent) or image_opts.transparent) \\
                        and (not size or size == layer_img.size) \\
                        and (not layer_opts or layer_opts.opacity is None or layer_opts.opacity >= 1.0):
                    # layer is opaque, no need to make transparent or add bgcolor
                    return layer_img""", 'nested ifs'),
    M('M-C14b-opaque-transparent', 'mapproxy/source/wms.py', """        if self.image_opts.transparent:
            return False

        if self.opacity is not None""", """        if self.opacity is not None""", 'C14.b'),
    M('M-C14b-opaque-outside-range', 'mapproxy/source/wms.py', """        if self.res_range and not self.res_range.contains(query.bbox, query.size,
                                                          query.srs):
            return False

        if self.image_opts.transparent:""", """        if self.image_opts.transparent:""", 'C14.b'),
    M('M-C14b-maplayer-opaque', 'mapproxy/layer.py', """        is indeed opaque. is_opaque should return False if in doubt.
        \"\"\"
        return False""", """        is indeed opaque. is_opaque should return False if in doubt.
        \"\"\"
        return True""", 'C14.b'),
    E('E-C14b-reordered-tests', 'mapproxy/source/wms.py', """        if self.image_opts.transparent:
            return False

        if self.opacity is not None and self.opacity < 0.99:
            return False
""", """        if self.opacity is not None and self.opacity < 0.99:
            return False

        if self.image_opts.transparent:
            return False
""", 'independent tests reordered'),
    M('M-C14c-compat-ignores-opacity', 'mapproxy/source/wms.py', """        if self.opacity is not None or other.opacity is not None:
            return False

        if self.supported_srs""", """        if self.supported_srs""", 'C14.c'),
    M('M-C14c-compat-ignores-transparent-color', 'mapproxy/source/wms.py', """        if self.transparent_color != other.transparent_color:
            return False
""", "", 'C14.c'),
    M('M-C14c-different-urls', 'mapproxy/client/wms.py', """        if self.request_template.url != other.request_template.url:
            return None

        new_req""", """        new_req""", 'C14.c'),
    M('M-C14c-layer-order-reversed', 'mapproxy/client/wms.py', "new_req.params.layers = new_req.params.layers + other.request_template.params.layers",
      "new_req.params.layers = other.request_template.params.layers + new_req.params.layers", 'C14.c'),
    M('M-C14c-combine-non-adjacent', 'mapproxy/service/wms.py', "combined = combined_layers[-1].combined_layer(current_layer, query)",
      "combined = combined_layers[0].combined_layer(current_layer, query)", 'C14.c'),
    M('M-C14d-insert-front', 'mapproxy/image/merge.py', "            self.layers.append((img, coverage))", "            self.layers.insert(0, (img, coverage))", 'C14.d|C10.d'),
    # ---------------------------------------------------------------- C18
    M('M-C18a-reraise', 'mapproxy/wsgiapp.py', """                        if self.base_config.debug_mode:
                            raise
                        else:""", """                        if True:
                            raise
                        else:""", 'C18.a'),
    M('M-C18a-no-catch-all', 'mapproxy/wsgiapp.py', """                    except Exception:
                        if self.base_config.debug_mode:""", """                    except KeyError:
                        if self.base_config.debug_mode:""", 'C18.a'),
    M('M-C18a-server-no-render', 'mapproxy/service/base.py', """        except RequestError as e:
            return e.render()""", """        except RequestError as e:
            raise""", 'C18.a'),
    E('E-C18a-extra-log', 'mapproxy/wsgiapp.py', """                            import traceback
                            traceback.print_exc(file=environ['wsgi.errors'])""", """                            import traceback
                            log_wsgiapp.error('handler %s failed', handler_name)
                            traceback.print_exc(file=environ['wsgi.errors'])""", 'log call added'),
    M('M-C18b-no-escape-xml', 'mapproxy/exception.py', """        # escape &<> in error message (e.g. URL params)
        msg = escape_xml_text(request_error.msg)
        result = self.template.substitute(exception=msg,
                                          code=request_error.code)""", """        # escape &<> in error message (e.g. URL params)
        msg = request_error.msg
        result = self.template.substitute(exception=msg,
                                          code=request_error.code)""", 'C18.b'),
    M('M-C18b-ows-no-escape', 'mapproxy/exception.py', """        msg = escape_xml_text(request_error.msg)
        result = self.template.substitute(exception=msg,
                                          code=request_error.code, locator=request_error.locator)""", """        msg = str(request_error.msg)
        result = self.template.substitute(exception=msg,
                                          code=request_error.code, locator=request_error.locator)""", 'C18.b'),
    E('E-C18b-inline-escape', 'mapproxy/exception.py', """        msg = escape_xml_text(request_error.msg)
        result = self.template.substitute(exception=msg,
                                          code=request_error.code, locator=request_error.locator)""", """        result = self.template.substitute(exception=escape_xml_text(request_error.msg),
                                          code=request_error.code, locator=request_error.locator)""", 'escape inlined'),
    M('M-C18j-revert-D15', 'mapproxy/exception.py', "    return _illegal_xml_chars.sub('', escape(text))", "    return escape(text)", 'C18.j',
      'revert of fix D15: control characters stay in the message'),
    M('M-C18j-class-misses-vt', 'mapproxy/exception.py', "_illegal_xml_chars = re.compile('[\\x00-\\x08\\x0b\\x0c\\x0e-\\x1f",
      "_illegal_xml_chars = re.compile('[\\x00-\\x08\\x0c\\x0e-\\x1f", 'C18.j', 'the class no longer contains U+000B'),
    E('E-C18j-resub', 'mapproxy/exception.py', "    return _illegal_xml_chars.sub('', escape(text))",
      "    return re.sub('[\\x00-\\x08\\x0b-\\x0c\\x0e-\\x1f]', '', escape(text))", 're.sub with an equivalent class'),
    M('M-C18k-revert-D16', 'mapproxy/response.py', "            value = ''.join(c for c in value if ' ' <= c != '\\x7f')\n", "", 'C18.k', 'revert of fix D16'),
    E('E-C18k-replace-chain', 'mapproxy/response.py', "            value = ''.join(c for c in value if ' ' <= c != '\\x7f')\n",
      "            value = value.replace('\\r', '').replace('\\n', '')\n", 'CR and LF removed by replace()'),
    M('M-C18l-revert-D17', 'mapproxy/request/wms/exception.py', "return Response(result.as_buffer(), content_type=content_type)",
      "return Response(result.as_buffer(), content_type=params.format_mime_type)", 'C18.l', 'revert of fix D17'),
    M('M-C18i-revert-D14', 'mapproxy/cache/tile.py', "        for t in tiles:\n            if t.source is not None and getattr(t.source, 'image_opts', False) is None:\n                t.source.image_opts = self.image_opts\n",
      "        for t in tiles:\n            if t.source is not None and getattr(t.source, 'image_opts', False) is None:\n                pass\n", 'C18.i', 'revert of fix D14'),
    M('M-C18i-late-tiles-unlabelled', 'mapproxy/cache/tile.py', "            for t in late_tiles:\n                if t.source is not None and getattr(t.source, 'image_opts', False) is None:\n                    t.source.image_opts = self.image_opts\n",
      "", 'C18.i', 'tiles loaded late (fix D29) carry no image options'),
    M('M-C20f-revert-D13', 'mapproxy/cache/tile.py', "                    tiles[created_tile.coord].cacheable = created_tile.cacheable\n", "", 'C20.f', 'revert of fix D13'),
    M('M-C18c-code-from-request', 'mapproxy/service/wms.py', """            raise RequestError('unknown layer: ' + request.params.layer,
                               code='LayerNotDefined', request=request)""", """            raise RequestError('unknown layer: ' + request.params.layer,
                               code=request.params.layer, request=request)""", 'C18.c'),
    M('M-C18c-new-placeholder', 'mapproxy/service/templates/wms111exception.xml', "{{exception}}</ServiceException>", "{{exception}} {{request}}</ServiceException>", 'C18.c'),
    M('M-C18c-locator-from-request', 'mapproxy/service/ows.py', "code='InvalidParameterValue', request=req, locator='service', status=400)",
      "code='InvalidParameterValue', request=req, locator=service, status=400)", 'C18.c'),
    E('E-C18c-keyword-order', 'mapproxy/service/ows.py', "code='InvalidParameterValue', request=req, locator='service', status=400)",
      "request=req, locator='service', code='InvalidParameterValue', status=400)", 'keyword order changed'),
    M('M-C18d-index-no-escape', 'mapproxy/multiapp.py', "url = escape_html(req.script_url)", "url = req.script_url", 'C18.d'),
    M('M-C18d-demo-format-unescaped', 'mapproxy/service/demo.py', """                                   image_formats=self.image_formats,
                                   format=escape_html(req.args['format']),""", """                                   image_formats=self.image_formats,
                                   format=req.args['format'],""", 'C18.d'),
    M('M-C18d-escape-html-keeps-quotes', 'mapproxy/util/escape.py', """    data = data.replace('"', '')\n""", "", 'C18.d'),
    M('M-C18e-plain-as-html', 'mapproxy/exception.py', "class PlainExceptionHandler(ExceptionHandler):\n    mimetype = 'text/plain'", "class PlainExceptionHandler(ExceptionHandler):\n    mimetype = 'text/html'", 'C18.e'),
    M('M-C18g-status-418', 'mapproxy/request/tile.py', "    mimetype = 'text/xml'\n    status_code = 404", "    mimetype = 'text/xml'\n    status_code = 418", 'C18.g'),
    # ---------------------------------------------------------------- C11
    M('M-C11a-report-after-subtree', 'mapproxy/seed/seeder.py', """        if current_level in levels and current_level <= self.report_till_level:
            self.report_progress(current_level, cur_bbox)

        if not self.seed_progress.running():""", """        if not self.seed_progress.running():""", 'C11.a', 'progress never reported before the subtree'),
    M('M-C11a-progress-direct-write', 'mapproxy/seed/util.py', "write_atomic(self.filename, pickle.dumps(self.status))",
      "open(self.filename, 'wb').write(pickle.dumps(self.status))", 'C11.a|C06.a|C06.e'),
    M('M-C11b-skip-ge', 'mapproxy/seed/seeder.py', """            if old > current:
                return True
        return False""", """            if old >= current:
                return True
        return False""", 'C11.b'),
    E('E-C11b-swapped', 'mapproxy/seed/seeder.py', """            if old > current:
                return True
        return False""", """            if current < old:
                return True
        return False""", 'swapped operands'),
    M('M-C11b-equal-skipped', 'mapproxy/seed/seeder.py', """            if old > current:
                return True
        return False

    def running(self):""", """            if old > current:
                return True
        return True

    def running(self):""", 'C11.b'),
    M('M-C11b-recurse-always-skip', 'mapproxy/seed/seeder.py', """                    if self.seed_progress.already_processed():
                        self.seed_progress.step_forward()
                    else:
                        self._walk(sub_bbox, levels, current_level=current_level+1,""", """                    if not self.seed_progress.already_processed():
                        self.seed_progress.step_forward()
                    else:
                        self._walk(sub_bbox, levels, current_level=current_level+1,""", 'C11.b'),
    M('M-C11c-drop-intersecting', 'mapproxy/seed/seeder.py', """            if not process:
                continue
""", """            if not process or intersection == INTERSECTS:
                continue
""", 'C11.c'),
    M('M-C11c-filter-precedence', 'mapproxy/seed/seeder.py', """            elif self.handle_uncached:
                handle_tiles = [t for t in handle_tiles if
                                t is not None and
                                not self.tile_mgr.is_cached(t)]""", """            elif self.handle_uncached:
                handle_tiles = [t for t in handle_tiles if
                                t is not None and
                                self.tile_mgr.is_cached(t)]""", 'C11.c'),
    M('M-C11c-process-returns-early', 'mapproxy/seed/seeder.py', """                    if not alive:
                        log.warning('no workers left, stopping')
                        raise SeedInterrupted
                    continue""", """                    if not alive:
                        log.warning('no workers left, stopping')
                        raise SeedInterrupted
                    break""", 'C11.c'),
    M('M-C11d-intersects-none', 'mapproxy/seed/seeder.py', """class SeedTask(object):
    def __init__(self, md, tile_manager, levels, refresh_timestamp, refresh_all, coverage):""", """NONE = 2


class SeedTask(object):
    def __init__(self, md, tile_manager, levels, refresh_timestamp, refresh_all, coverage):""", 'C11.d', 'NONE becomes truthy: nothing is filtered'),
    M('M-C11d-all-subtiles-on-intersects', 'mapproxy/seed/seeder.py', """                if intersection == CONTAINS:
                    all_subtiles = True
                else:
                    all_subtiles = False""", """                if intersection != NONE:
                    all_subtiles = True
                else:
                    all_subtiles = False""", 'C11.d'),
    M('M-C11d-limit-sub-bbox-axis', 'mapproxy/seed/util.py', "    miny = max(bbox[1], sub_bbox[1])", "    miny = max(bbox[1], sub_bbox[0])", 'C11.d|C03.g'),
    # ---------------------------------------------------------------- C03
    M('M-C03a-tilebbox-axis-x', 'mapproxy/grid.py', "x1 = x0 + round(res * self.tile_size[0], 12)", "x1 = x0 + round(res * self.tile_size[1], 12)", 'C03.a'),
    M('M-C03a-tile-axis', 'mapproxy/grid.py', "tile_y = y/float(res*self.tile_size[1])", "tile_y = y/float(res*self.tile_size[0])", 'C03.a'),
    E('E-C03a-unpacked-size', 'mapproxy/grid.py', """        tile_x = x/float(res*self.tile_size[0])
        tile_y = y/float(res*self.tile_size[1])""", """        tw, th = self.tile_size
        tile_x = x/float(res*tw)
        tile_y = y/float(res*th)""", 'tw, th = self.tile_size then use th'),
    M('M-C03a-unpacked-size-swapped', 'mapproxy/grid.py', """        tile_x = x/float(res*self.tile_size[0])
        tile_y = y/float(res*self.tile_size[1])""", """        tw, th = self.tile_size
        tile_x = x/float(res*th)
        tile_y = y/float(res*tw)""", 'C03.a'),
    M('M-C03a-pattern-offset', 'mapproxy/grid.py', "i*self.grid.tile_size[1] + buffers[3])", "i*self.grid.tile_size[1] + buffers[0])", 'C03.a'),
    M('M-C03b-flip-no-minus-one', 'mapproxy/grid.py', "return (x, self.grid_sizes[z][1]-1-y, z)", "return (x, self.grid_sizes[z][1]-y, z)", 'C03.b'),
    M('M-C03b-flip-columns', 'mapproxy/grid.py', "return (x, self.grid_sizes[z][1]-1-y, z)", "return (x, self.grid_sizes[z][0]-1-y, z)", 'C03.b|C03.a'),
    E('E-C03b-reordered', 'mapproxy/grid.py', "return (x, self.grid_sizes[z][1]-1-y, z)", "return (x, -y + self.grid_sizes[z][1] - 1, z)", 'same affine form'),
    E('E-C03c-intersects-touch', 'mapproxy/grid.py', "        a_x0 < b_x1 and\n        a_x1 > b_x0 and", "        a_x0 <= b_x1 and\n        a_x1 >= b_x0 and", 'boundary not fixed'),
    M('M-C03c-intersects-indices', 'mapproxy/grid.py', "        a_y0 < b_y1 and\n        a_y1 > b_y0", "        a_y0 < b_x1 and\n        a_y1 > b_y0", 'C03.c|C03.a'),
    M('M-C03d-inset-one-corner', 'mapproxy/grid.py', """        delta = self.resolutions[level] / 10.0
        x0, y0, _ = self.tile(bbox[0]+delta, bbox[1]+delta, level)
        x1, y1, _ = self.tile(bbox[2]-delta, bbox[3]-delta, level)""", """        delta = self.resolutions[level] / 10.0
        x0, y0, _ = self.tile(bbox[0]+delta, bbox[1]+delta, level)
        x1, y1, _ = self.tile(bbox[2], bbox[3], level)""", 'C03.d'),
    M('M-C03d-inset-sign', 'mapproxy/grid.py', """        x0, y0, _ = self.grid.tile(bbox[0]+delta, bbox[1]+delta, level)
        x1, y1, _ = self.grid.tile(bbox[2]-delta, bbox[3]-delta, level)""", """        x0, y0, _ = self.grid.tile(bbox[0]-delta, bbox[1]-delta, level)
        x1, y1, _ = self.grid.tile(bbox[2]+delta, bbox[3]+delta, level)""", 'C03.d'),
    M('M-C03e-tilebbox-drop-size', 'mapproxy/grid.py', "x0 = self.bbox[0] + round(x * res * self.tile_size[0], 12)", "x0 = self.bbox[0] + round(x * res, 12)", 'C03.e'),
    M('M-C03e-tile-multiply', 'mapproxy/grid.py', "tile_x = x/float(res*self.tile_size[0])", "tile_x = x*float(res*self.tile_size[0])", 'C03.e'),
    M('M-C03e-buffer-without-res', 'mapproxy/grid.py', "            minx -= self.meta_buffer * res", "            minx -= self.meta_buffer", 'C03.e'),
    E('E-C03e-hoisted-span', 'mapproxy/grid.py', """        x0 = self.bbox[0] + round(x * res * self.tile_size[0], 12)
        x1 = x0 + round(res * self.tile_size[0], 12)""", """        span = res * self.tile_size[0]
        x0 = self.bbox[0] + round(x * span, 12)
        x1 = x0 + round(span, 12)""", 'hoisted span'),
    M('M-C03f-roworder-meta', 'mapproxy/grid.py', "            ys = list(range(y1, y0-1, -meta_size[1]))", "            ys = list(range(y0, y1+1, meta_size[1]))", 'C03.f'),
    M('M-C03f-tilelist-colmajor', 'mapproxy/grid.py', """    for y in ys:
        for x in xs:
            if x < 0 or y < 0 or x >= x_limit or y >= y_limit:""", """    for x in xs:
        for y in ys:
            if x < 0 or y < 0 or x >= x_limit or y >= y_limit:""", 'C03.f'),
    E('E-C03f-reversed-range', 'mapproxy/grid.py', "            ys = range(maxy, miny-1, -1)\n        xs = range(minx, maxx+1)\n\n        bounds",
      "            ys = reversed(range(miny, maxy+1))\n        xs = range(minx, maxx+1)\n\n        bounds", 'reversed(range()) is descending'),
    M('M-C03g-extent-intersection-min', 'mapproxy/layer.py', "            max(source[1], sub[1]),\n            min(source[2], sub[2]),", "            min(source[1], sub[1]),\n            min(source[2], sub[2]),", 'C03.g'),
    M('M-C03g-position-direction', 'mapproxy/image/__init__.py', "    if src_bbox[2] < bbox[2]:\n        sub_bbox[2] = src_bbox[2]", "    if src_bbox[2] > bbox[2]:\n        sub_bbox[2] = src_bbox[2]", 'C03.g'),
    # ---------------------------------------------------------------- C04
    M('M-C04a-store-first-only', 'mapproxy/cache/tile.py', "self.cache.store_tiles(splitted_tiles, dimensions=self.dimensions)",
      "self.cache.store_tiles(splitted_tiles[:1], dimensions=self.dimensions)", 'C04.a'),
    M('M-C04a-store-filtered', 'mapproxy/cache/tile.py', "splitted_tiles = [self.tile_mgr.apply_tile_filter(t) for t in splitted_tiles]",
      "splitted_tiles = [self.tile_mgr.apply_tile_filter(t) for t in splitted_tiles if t.coord == main_tile.coord]", 'C04.a'),
    E('E-C04a-alias', 'mapproxy/cache/tile.py', """                if meta_tile_image.cacheable:
                    self.cache.store_tiles(splitted_tiles, dimensions=self.dimensions)
                return splitted_tiles""", """                to_store = splitted_tiles
                if meta_tile_image.cacheable:
                    self.cache.store_tiles(to_store, dimensions=self.dimensions)
                return splitted_tiles""", 'store via a local alias'),
    M('M-C04a-split-skips-odd', 'mapproxy/cache/tile.py', """        if tile_coord is None:
            continue
        data = splitter.get_tile(crop_coord, tile_size)""", """        if tile_coord is None or tile_coord[0] % 2:
            continue
        data = splitter.get_tile(crop_coord, tile_size)""", 'C04.a|C16.d'),
    M('M-C04a-bulk-stores-none', 'mapproxy/cache/tile.py', "self.cache.store_tiles([t for t in tiles if t.cacheable], dimensions=self.dimensions)",
      "self.cache.store_tiles([t for t in tiles if t.cacheable][:1], dimensions=self.dimensions)", 'C04.a'),
    M('M-C04b-unlocked-strategy', 'mapproxy/cache/tile.py', """        if not self.meta_grid:
            created_tiles = self._create_single_tiles(tiles)""", """        if not self.meta_grid:
            created_tiles = self._create_unlocked(tiles)""", 'C04.b'),
    M('M-C04c-metasize-max', 'mapproxy/grid.py', "return min(self.meta_size[0], grid_size[0]), min(self.meta_size[1], grid_size[1])",
      "return max(self.meta_size[0], grid_size[0]), min(self.meta_size[1], grid_size[1])", 'C04.c'),
    M('M-C04c-metasize-axis', 'mapproxy/grid.py', "return min(self.meta_size[0], grid_size[0]), min(self.meta_size[1], grid_size[1])",
      "return min(self.meta_size[0], grid_size[1]), min(self.meta_size[1], grid_size[0])", 'C04.c|C03.a'),
    M('M-C04c-direct-meta-size', 'mapproxy/grid.py', """        meta_size = self._meta_size(z)

        x0 = x//meta_size[0] * meta_size[0]""", """        meta_size = self.meta_size

        x0 = x//meta_size[0] * meta_size[0]""", 'C04.c|C08.b'),
    M('M-C04c-pattern-buffer', 'mapproxy/grid.py', "                    j*self.grid.tile_size[0] + buffers[0],", "                    j*self.grid.tile_size[0] + buffers[2],", 'C04.c'),
    # ---------------------------------------------------------------- C01
    M('M-C01a-no-egress-switch', 'mapproxy/request/wms/__init__.py', """        params = WMSMapRequest.adapt_params_to_version(self)
        params.switch_bbox()
        if 'srs' in params:""", """        params = WMSMapRequest.adapt_params_to_version(self)
        if 'srs' in params:""", 'C01.a'),
    M('M-C01a-egress-switch-after-rename', 'mapproxy/request/wms/__init__.py', """        params = WMSMapRequest.adapt_params_to_version(self)
        params.switch_bbox()
        if 'srs' in params:
            params['crs'] = params['srs']
            del params['srs']
        return params""", """        params = WMSMapRequest.adapt_params_to_version(self)
        if 'srs' in params:
            params['crs'] = params['srs']
            del params['srs']
        params.switch_bbox()
        return params""", 'C01.a'),
    M('M-C01a-ingress-switch-first', 'mapproxy/request/wms/__init__.py', """        del self.params['wmtver']
        if 'crs' in self.params:
            self.params['srs'] = self.params['crs']
            del self.params['crs']
        self.params.switch_bbox()""", """        del self.params['wmtver']
        self.params.switch_bbox()
        if 'crs' in self.params:
            self.params['srs'] = self.params['crs']
            del self.params['crs']""", 'C01.a'),
    M('M-C01a-double-switch-fi', 'mapproxy/request/wms/__init__.py', """        WMS130MapRequest.adapt_to_111(self)
        # only set x,y when present,""", """        WMS130MapRequest.adapt_to_111(self)
        self.params.switch_bbox()
        # only set x,y when present,""", 'C01.a'),
    M('M-C01a-swap-indices', 'mapproxy/request/wms/__init__.py', "return bbox[1], bbox[0], bbox[3], bbox[2]", "return bbox[1], bbox[0], bbox[2], bbox[3]", 'C01.a'),
    M('M-C01a-111-switches', 'mapproxy/request/wms/__init__.py', """    xml_exception_handler = exception.WMS111ExceptionHandler

    def adapt_to_111(self):
        del self.params['wmtver']


def switch_bbox_epsg_axis_order""", """    xml_exception_handler = exception.WMS111ExceptionHandler

    def adapt_to_111(self):
        del self.params['wmtver']
        self.params.switch_bbox()


def switch_bbox_epsg_axis_order""", 'C01.a'),
    E('E-C01a-statement-between', 'mapproxy/request/wms/__init__.py', """        params = WMSMapRequest.adapt_params_to_version(self)
        params.switch_bbox()
        if 'srs' in params:""", """        params = WMSMapRequest.adapt_params_to_version(self)
        params.switch_bbox()
        log.debug('adapting params to 1.3.0')
        if 'srs' in params:""", 'unrelated statement between switch and rename'),
    M('M-C01b-size-for-offset', 'mapproxy/layer.py', "result = SubImageSource(resp, size=query.size, offset=offset, image_opts=self.image_opts,",
      "result = SubImageSource(resp, size=query.size, offset=size, image_opts=self.image_opts,", 'C01.b'),
    M('M-C01b-subquery-full-bbox', 'mapproxy/source/wms.py', "src_query = MapQuery(bbox, size, query.srs, format, dimensions=query.dimensions)\n        resp = self.client.retrieve(src_query, format)\n        return SubImageSource",
      "src_query = MapQuery(query.bbox, size, query.srs, format, dimensions=query.dimensions)\n        resp = self.client.retrieve(src_query, format)\n        return SubImageSource", 'C01.b|C17.d'),
    E('E-C01b-renamed-locals', 'mapproxy/source/wms.py', """        size, offset, bbox = bbox_position_in_image(query.bbox, query.size, self.extent.bbox_for(query.srs))
        if size[0] == 0 or size[1] == 0:
            raise BlankImage()
        src_query = MapQuery(bbox, size, query.srs, format, dimensions=query.dimensions)
        resp = self.client.retrieve(src_query, format)
        return SubImageSource(resp, size=query.size, offset=offset, image_opts=self.image_opts)""", """        sub_size, sub_offset, sub_bbox = bbox_position_in_image(query.bbox, query.size, self.extent.bbox_for(query.srs))
        if sub_size[0] == 0 or sub_size[1] == 0:
            raise BlankImage()
        src_query = MapQuery(sub_bbox, sub_size, query.srs, format, dimensions=query.dimensions)
        resp = self.client.retrieve(src_query, format)
        return SubImageSource(resp, size=query.size, offset=sub_offset, image_opts=self.image_opts)""", 'renamed locals'),
    M('M-C01c-fi-coord-untransformed', 'mapproxy/client/wms.py', "info_coord = req_srs.transform_to(info_srs, req_coord)", "info_coord = req_coord", 'C01.c'),
    M('M-C01c-infoquery-coord-swapped', 'mapproxy/layer.py', "return make_lin_transf((0, 0, self.size[0], self.size[1]), self.bbox)(self.pos)",
      "return make_lin_transf(self.bbox, (0, 0, self.size[0], self.size[1]))(self.pos)", 'C01.c'),
    M('M-C01d-tileoffset-axis', 'mapproxy/image/tile.py', "                i//self.tile_grid[0]*self.tile_size[1])", "                i//self.tile_grid[0]*self.tile_size[0])", 'C01.d|C03.a|C03.f'),
    # ---------------------------------------------------------------- equivalents for the rules added after the seeded campaign
    E('E-C05l-unpacked-name', COMPACT, """                bundle_files.add(self._get_bundle_fname_and_offset(t.coord)[0])
                tile_coord = t.coord
            if len(bundle_files) == 1:
                return self._get_bundle(tile_coord).store_tiles(tiles, dimensions=dimensions)""",
      """                fname, _ = self._get_bundle_fname_and_offset(t.coord)
                bundle_files.add(fname)
                tile_coord = t.coord
            if len(bundle_files) == 1:
                return self._get_bundle(tile_coord).store_tiles(tiles, dimensions=dimensions)""",
      'shortcut key bound to a local first'),
    E('E-C07g-lock-local', 'mapproxy/util/lock.py', """    def _try_lock(self):
        return LockFile(self.lock_file, self.file_permissions)""", """    def _try_lock(self):
        lock = LockFile(self.lock_file, self.file_permissions)
        return lock""", 'acquired lock bound to a local before it is returned'),
    E('E-C20f-tile-flag', 'mapproxy/cache/tile.py', """                if source.cacheable:
                    self.cache.store_tile(tile)
            else:""", """                if tile.cacheable:
                    self.cache.store_tile(tile)
            else:""", 'tile.cacheable was assigned from source.cacheable two statements earlier', props=['C20', 'C16', 'C13']),
    E('E-C10g-rename-local', 'mapproxy/service/wms.py', """            limited_to = result.get('limited_to')
            if limited_to:
                coverage = load_limited_to(limited_to)
            else:
                coverage = None
            return layers, coverage""", """            global_limit = result.get('limited_to')
            if global_limit:
                coverage = load_limited_to(global_limit)
            else:
                coverage = None
            return layers, coverage""", 'local renamed'),
    E('E-C15f-rename-loop-var', 'mapproxy/service/wms.py', """            for layer_task in async_pool.imap(self._render_layer, render_layers,
                                              use_result_objects=True):
                if layer_task.exception is None:
                    layer, layer_img = layer_task.result
                    if layer_img is not None:
                        layer_merger.add(layer_img, layer.coverage)
                else:
                    ex = layer_task.exception
                    async_pool.shutdown(True)""", """            for task_result in async_pool.imap(self._render_layer, render_layers,
                                               use_result_objects=True):
                if task_result.exception is None:
                    layer, layer_img = task_result.result
                    if layer_img is not None:
                        layer_merger.add(layer_img, layer.coverage)
                else:
                    ex = task_result.exception
                    async_pool.shutdown(True)""", 'loop variable renamed'),

    M('M-C15h-revert-D18', 'mapproxy/util/async_.py', """        if len(args) == 1:
            return self._single_call(func, args[0], use_result_objects)""", """        if len(args[0]) == 1:
            return self._single_call(func, args[0], use_result_objects)""", 'C15.h', 'revert of fix D18'),
    M('M-C17h-revert-D19-compare', 'mapproxy/source/wms.py', """        if self.res_range != other.res_range:
            return False

""", "", 'C17.h', 'revert of fix D19 (comparison)'),
    M('M-C17h-revert-D19-merged', 'mapproxy/source/wms.py', """                         res_range=self.res_range,
""", """                         res_range=None,
""", 'C17.h', 'revert of fix D19 (merged source)'),
    M('M-C17h-drop-coverage', 'mapproxy/source/wms.py', """                         coverage=self.coverage,
                         fwd_req_params=self.fwd_req_params,""", """                         fwd_req_params=self.fwd_req_params,""", 'C17.h', 'merged source loses the coverage'),
    E('E-C17h-flipped-compare', 'mapproxy/source/wms.py', """        if self.res_range != other.res_range:
            return False
""", """        if not (other.res_range == self.res_range):
            return False
""", 'comparison written the other way'),
    M('M-C09i-revert-D20', 'mapproxy/config/loader.py', """                lock_dir = self.lock_dir()

                global_directory_permissions = self.context.globals.get_value('directory_permissions', self.conf,
                                                                         global_key='cache.directory_permissions')
                if global_directory_permissions:
                    log.info(f'Using global directory permission configuration for tile locks:'
                             f' {global_directory_permissions}')

                global_file_permissions = self.context.globals.get_value('file_permissions', self.conf,
                                                                         global_key='cache.file_permissions')
                if global_file_permissions:
                    log.info(f'Using global file permission configuration for tile locks:'
                             f' {global_file_permissions}')

                lock_timeout""", """                lock_dir = self.context.globals.get_value('cache.tile_lock_dir')
                if not lock_dir:
                    lock_dir = os.path.join(self.cache_dir(), 'tile_locks')

                global_directory_permissions = self.context.globals.get_value('directory_permissions', self.conf,
                                                                         global_key='cache.directory_permissions')
                if global_directory_permissions:
                    log.info(f'Using global directory permission configuration for tile locks:'
                             f' {global_directory_permissions}')

                global_file_permissions = self.context.globals.get_value('file_permissions', self.conf,
                                                                         global_key='cache.file_permissions')
                if global_file_permissions:
                    log.info(f'Using global file permission configuration for tile locks:'
                             f' {global_file_permissions}')

                lock_timeout""", 'C09.i', 'revert of fix D20'),
    M('M-C02j-revert-D21', 'mapproxy/config/loader.py', """        if self.has_multiple_grids():
            raise ConfigurationError(
                "using single mbtiles file for cache with multiple grids in %s" %
                (self.conf['name']),
            )

""", "", 'C02.j', 'revert of fix D21'),
    M('M-C02j-sqlite-shared-dir', 'mapproxy/config/loader.py', """            cache_dir = os.path.join(
                self.context.globals.abspath(cache_dir),
                grid_conf.tile_grid().name
            )
        else:
            cache_dir = self.cache_dir()
            cache_dir = os.path.join(
                cache_dir,
                self.conf['name'],
                grid_conf.tile_grid().name
            )

        sqlite_timeout""", """            cache_dir = self.context.globals.abspath(cache_dir)
        else:
            cache_dir = self.cache_dir()
            cache_dir = os.path.join(
                cache_dir,
                self.conf['name'],
                grid_conf.tile_grid().name
            )

        sqlite_timeout""", 'C02.j', 'explicit sqlite directory shared by all grids'),
    M('M-C14b-revert-D22', 'mapproxy/source/wms.py', """        if self.opacity is not None and self.opacity < 0.99:""",
      """        if self.opacity is not None and (0.0 < self.opacity < 0.99):""", 'C14.b', 'revert of fix D22'),
    M('M-C14a-revert-D23', 'mapproxy/image/merge.py', """                and (not layer_opts or layer_opts.opacity is None or layer_opts.opacity >= 1.0)
""", "", 'C14.a', 'revert of fix D23'),
    M('M-C20k-revert-D24-band', 'mapproxy/image/merge.py', """        cacheable = self.cacheable and all(src.cacheable for src in sources)
        return ImageSource(result, size=size, image_opts=image_opts, cacheable=cacheable)""",
      """        return ImageSource(result, size=size, image_opts=image_opts)""", 'C20.k', 'revert of fix D24 (band merge)'),
    M('M-C20k-revert-D24-splitter', 'mapproxy/image/tile.py', """        return ImageSource(crop, size=tile_size, image_opts=self.image_opts, cacheable=self.cacheable)""",
      """        return ImageSource(crop, size=tile_size, image_opts=self.image_opts)""", 'C20.k', 'revert of fix D24 (tile splitter)'),
    M('M-C20k-band-any', 'mapproxy/image/merge.py', """        cacheable = self.cacheable and all(src.cacheable for src in sources)""",
      """        cacheable = self.cacheable and any(src.cacheable for src in sources)""", 'C20.k', 'one cacheable source is enough'),
    M('M-C18o-revert-D25-layer', 'mapproxy/layer.py', """            raise SourceError("unable to transform image: %s" % error_text_without_file_names(ex))""",
      """            raise SourceError("unable to transform image: %s" % ex)""", 'C18.o', 'revert of fix D25 (layer)'),
    M('M-C18o-revert-D25-wms', 'mapproxy/service/wms.py', """            raise RequestError('error while processing image file: %s' % error_text_without_file_names(ex),""",
      """            raise RequestError('error while processing image file: %s' % ex,""", 'C18.o', 'revert of fix D25 (wms)'),
    M('M-C18o-str-of-exception', 'mapproxy/layer.py', """            raise SourceError("unable to transform image: %s" % error_text_without_file_names(ex))""",
      """            raise SourceError("unable to transform image: " + str(ex))""", 'C18.o', 'the text of the IOError through str()'),
    M('M-C20m-revert-D26-v1', 'mapproxy/cache/compact.py', """                    t.source = ImageSource(BytesIO(data))
                    if with_metadata:
                        t.size = len(data)
""", """                    t.source = ImageSource(BytesIO(data))
""", 'C20.m', 'revert of fix D26 (v1 bundles)'),
    M('M-C20m-revert-D26-v2', 'mapproxy/cache/compact.py', """        tile.source = ImageSource(BytesIO(data))
        if with_metadata:
            tile.size = len(data)
""", """        tile.source = ImageSource(BytesIO(data))
""", 'C20.m', 'revert of fix D26 (v2 bundles)'),
    M('M-C20m-metadata-not-handed-on', 'mapproxy/cache/compact.py', """                return self._get_bundle(tile_coord).load_tiles(tiles, with_metadata, dimensions=dimensions)""",
      """                return self._get_bundle(tile_coord).load_tiles(tiles, dimensions=dimensions)""", 'C20.m', 'with_metadata dropped on the way to the bundle'),
    M('M-C12j-revert-D27', 'mapproxy/cache/geopackage.py', """    # the level files are created without timestamps (GPKG has none per tile)
    supports_timestamp = False

""", "", 'C12.j', 'revert of fix D27'),
    M('M-C12j-mbtiles-level-without-timestamps', 'mapproxy/cache/mbtiles.py', """                    with_timestamps=True,""", """                    with_timestamps=False,""",
      'C12.j', 'level databases without time stamps, class still claims them'),
    M('M-C17k-revert-D28', 'mapproxy/srs.py', """            for preferred in self.target_proj[target]:
                for avail in available_src:
                    if avail == preferred:
                        return avail""", """            for preferred in self.target_proj[target]:
                if preferred in available_src:
                    return preferred""", 'C17.k', 'revert of fix D28'),
    M('M-C08i-revert-D29', 'mapproxy/cache/tile.py', """        if late_tiles:
            self.cache.load_tiles(late_tiles, with_metadata, dimensions=dimensions)
""", """        if late_tiles:
            pass
""", 'C08.i', 'revert of fix D29: late tiles are collected but not loaded'),
    M('M-C08i-late-tiles-wrong-set', 'mapproxy/cache/tile.py', """            elif tile.is_missing():
                # stored by another request after our batch load: cached, but not loaded yet
                late_tiles.append(tile)""", """            else:
                late_tiles.append(tile)""", 'C08.i', 'every cached tile is loaded a second time'),
    M('M-C05p-revert-D30', 'mapproxy/cache/path.py', """    value = str(value).replace('%', '%25')
    for sep, escaped in (('/', '%2F'), ('\\\\', '%5C')):
        value = value.replace(sep, escaped)
    return value""", """    value = str(value)
    for sep in ('/', '\\\\', os.sep, os.altsep):
        if sep:
            value = value.replace(sep, '_')
    return value""", 'C05.p', 'revert of fix D30'),
    M('M-C05p-escape-char-not-first', 'mapproxy/cache/path.py', """    value = str(value).replace('%', '%25')
    for sep, escaped in (('/', '%2F'), ('\\\\', '%5C')):
        value = value.replace(sep, escaped)
    return value""", """    value = str(value)
    for sep, escaped in (('/', '%2F'), ('\\\\', '%5C'), ('%', '%25')):
        value = value.replace(sep, escaped)
    return value""", 'C05.p', 'the escape character is escaped last: %2F and / collide'),
    M('M-C05d-revert-D31-mbtiles', 'mapproxy/cache/mbtiles.py', """        level_tiles = {}
        for tile in tiles:
            if tile.source or tile.coord is None:
                continue
            level_tiles.setdefault(tile.coord[2], []).append(tile)

        loaded = True
        for level in level_tiles:
            if not self._get_level(level).load_tiles(level_tiles[level], with_metadata=with_metadata, dimensions=dimensions):
                loaded = False
        return loaded""", """        level = None
        for tile in tiles:
            if tile.source or tile.coord is None:
                continue
            level = tile.coord[2]
            break

        if level is None:
            return True

        return self._get_level(level).load_tiles(tiles, with_metadata=with_metadata, dimensions=dimensions)""", 'C05.d', 'revert of fix D31'),
    M('M-C05d-group-by-column', 'mapproxy/cache/geopackage.py', """            level_tiles.setdefault(tile.coord[2], []).append(tile)""",
      """            level_tiles.setdefault(tile.coord[0], []).append(tile)""", 'C05.d', 'tiles grouped by column instead of level'),
    M('M-C10l-revert-D32', 'mapproxy/image/mask.py', """    if result.mode == 'RGBA' and hasattr(Image, 'alpha_composite'):
        # paste with the image as its own mask applies the alpha of
        # semi-transparent pixels twice and mixes them with the background color
        result = Image.alpha_composite(result, img)
    else:
        result.paste(img, (0, 0), img)
""", """    result.paste(img, (0, 0), img)
""", 'C10.l', 'revert of fix D32'),
    M('M-C14b-revert-D33', 'mapproxy/service/wms.py', """        if self.this:
            # only the sources of the group itself are rendered (see map_layers_for_query)
            return self.this.is_opaque(query)
        return any(x.is_opaque(query) for x in self.layers)""", """        return any(x.is_opaque(query) for x in self.layers)""", 'C14.b', 'revert of fix D33'),
    M('M-C14b-group-asks-children-too', 'mapproxy/service/wms.py', """        if self.this:
            # only the sources of the group itself are rendered (see map_layers_for_query)
            return self.this.is_opaque(query)
        return any(x.is_opaque(query) for x in self.layers)""", """        if self.this and self.this.is_opaque(query):
            return True
        return any(x.is_opaque(query) for x in self.layers)""", 'C14.b', 'own sources or children'),
    E('E-C14b-group-else-branch', 'mapproxy/service/wms.py', """        if self.this:
            # only the sources of the group itself are rendered (see map_layers_for_query)
            return self.this.is_opaque(query)
        return any(x.is_opaque(query) for x in self.layers)""", """        if not self.this:
            return any(x.is_opaque(query) for x in self.layers)
        else:
            return self.this.is_opaque(query)""", 'branches swapped'),
    M('M-C20n-revert-D34-single', 'mapproxy/cache/tile.py', """                # timestamp and size of a stale tile that was loaded before belong to the old image
                tile.timestamp = None
                tile.size = None
""", "", 'C20.n', 'revert of fix D34 (single tile path)'),
    M('M-C20n-revert-D34-meta', 'mapproxy/cache/tile.py', """                    tiles[created_tile.coord].cacheable = created_tile.cacheable""",
      """                    tiles[created_tile.coord].cacheable = bool(created_tile.cacheable)""", 'C20.n', 'revert of fix D34 (meta tile paths)'),
    M('M-C20n-reset-after-store', 'mapproxy/cache/tile.py', """                tile.source = source
                # timestamp and size of a stale tile that was loaded before belong to the old image
                tile.timestamp = None
                tile.size = None
                tile.cacheable = source.cacheable
                tile = self.tile_mgr.apply_tile_filter(tile)
                if source.cacheable:
                    self.cache.store_tile(tile)""", """                tile.source = source
                tile.cacheable = source.cacheable
                tile = self.tile_mgr.apply_tile_filter(tile)
                if source.cacheable:
                    self.cache.store_tile(tile)
                tile.timestamp = None
                tile.size = None""", 'C20.n', 'the reset comes after the store: the response has no validators at all / the stored ones are lost'),
    {'id': 'M-C17b-best-srs-form-needs-D28', 'patch': 'selftest/patches/C17b-best-srs-form-with-D28-reverted.diff', 'path': 'mapproxy/source/wms.py, mapproxy/srs.py',
     'find': '', 'replace': '', 'expect': 'report', 'rule': 'C17.b|C17.k', 'props': ['C17'],
     'origin': 'the membership / best_srs spelling of _get_map (seeded/C17-1) together with the revert of fix D28: preferred_src answers with an equal object again'},
    E('E-C15h-swapped-compare', 'mapproxy/util/async_.py', """        if len(args) == 1:
            return self._single_call(func, args[0], use_result_objects)""", """        if 1 == len(args):
            return self._single_call(func, args[0], use_result_objects)""", 'operands swapped'),

    # ---- round 5 repairs: each reverted
    M('M-C01k-revert-D37', 'mapproxy/source/tile.py', """        if not bbox_equals(_bbox, query.bbox,
                           abs((query.bbox[2] - query.bbox[0]) / query.size[0] / 10),
                           abs((query.bbox[3] - query.bbox[1]) / query.size[1] / 10)):
            raise InvalidSourceQuery('BBOX does not align to tile')
""", "", 'C01.k', 'revert of fix D37'),
    E('E-C01k-test-first', 'mapproxy/source/tile.py', """        if grid != (1, 1):
            raise InvalidSourceQuery('BBOX does not align to tile')
""", """        if (1, 1) != grid:
            raise InvalidSourceQuery('BBOX does not align to tile')
""", 'operands swapped'),
    M('M-C15j-revert-D38', 'mapproxy/util/async_.py', """        for _ in (self.pool or ()):
            self.task_queue.put(None)
        self.pool = None""", """        for _ in range(self.pool_size):
            self.task_queue.put(None)""", 'C15.j', 'revert of fix D38'),
    E('E-C15j-guarded-count', 'mapproxy/util/async_.py', """        for _ in (self.pool or ()):
            self.task_queue.put(None)
        self.pool = None""", """        if self.pool:
            for _ in range(self.pool_size):
                self.task_queue.put(None)
        self.pool = None""", 'counted by size, but only for a started pool'),
    M('M-C19g-revert-D39', 'mapproxy/script/defrag.py', """        for ext in ('.bundle', '.bundlx', '.lck'):
            if os.path.exists(tmp_bundle + ext):
                os.remove(tmp_bundle + ext)
""", "", 'C19.g', 'revert of fix D39'),
    M('M-C19g-index-forgotten', 'mapproxy/script/defrag.py', """        for ext in ('.bundle', '.bundlx', '.lck'):""", """        for ext in ('.bundle', '.lck'):""", 'C19.g', 'the V1 index of the left-over bundle stays'),
    M('M-C13j-revert-D40', 'mapproxy/cache/tile.py', """        if self._expire_timestamp is not None:
            return self._expire_timestamp
        if self._refresh_before:
            from mapproxy.seed.config import before_timestamp_from_options
            return before_timestamp_from_options(self._refresh_before)
        return None""", """        if self._refresh_before:
            from mapproxy.seed.config import before_timestamp_from_options
            return before_timestamp_from_options(self._refresh_before)
        return self._expire_timestamp""", 'C13.j|C12.n', 'revert of fix D40'),
    E('E-C13j-else-form', 'mapproxy/cache/tile.py', """        if self._expire_timestamp is not None:
            return self._expire_timestamp
        if self._refresh_before:
            from mapproxy.seed.config import before_timestamp_from_options
            return before_timestamp_from_options(self._refresh_before)
        return None""", """        if self._expire_timestamp is None:
            if self._refresh_before:
                from mapproxy.seed.config import before_timestamp_from_options
                return before_timestamp_from_options(self._refresh_before)
            return None
        return self._expire_timestamp""", 'branches swapped'),
    M('M-C12m-revert-D41', 'mapproxy/seed/cleanup.py', """            if old.isdigit() and current.isdigit():
                old, current = int(old), int(current)
""", "", 'C12.m', 'revert of fix D41'),
    M('M-C20o-revert-D45', 'mapproxy/util/times.py', """    if date[0] < 100:""", """    if date[0] < 1970:""", 'C20.o', 'revert of fix D45'),
    M('M-C16j-revert-D44', 'mapproxy/service/wms.py', """        size = request.params.size
        if size is not None and (size[0] <= 0 or size[1] <= 0):
            # (the product of two negative values is within every limit)
            request.prevent_image_exception = True
            raise RequestError("invalid image size", request=request)

""", "", 'C16.j', 'revert of fix D44'),
    M('M-C16j-only-width', 'mapproxy/service/wms.py', """        if size is not None and (size[0] <= 0 or size[1] <= 0):""",
      """        if size is not None and size[0] <= 0:""", 'C16.j', 'the height is not checked'),
    E('E-C16j-less-than-one', 'mapproxy/service/wms.py', """        if size is not None and (size[0] <= 0 or size[1] <= 0):""",
      """        if size is not None and (size[0] < 1 or size[1] < 1):""", 'other spelling of not positive'),
    M('M-C20p-revert-D46', 'mapproxy/service/wms.py', """        if not result.cacheable:
            resp.cache_headers(no_cache=True)
        elif query.tiled_only and isinstance(result.cacheable, CacheInfo):
            cache_info = result.cacheable
            resp.cache_headers(cache_info.timestamp, etag_data=(cache_info.timestamp, cache_info.size),
                               max_age=self.max_tile_age)
            resp.make_conditional(map_request.http)
""", """        if query.tiled_only and isinstance(result.cacheable, CacheInfo):
            cache_info = result.cacheable
            resp.cache_headers(cache_info.timestamp, etag_data=(cache_info.timestamp, cache_info.size),
                               max_age=self.max_tile_age)
            resp.make_conditional(map_request.http)

        if not result.cacheable:
            resp.cache_headers(no_cache=True)
""", 'C20.p', 'revert of fix D46'),
    M('M-C13k-revert-D42', 'mapproxy/util/times.py', """    if date.tzinfo is not None:
        # a time with a zone (2009-06-09T10:57:00Z in a YAML file) is that moment,
        # not the same wall-clock time in the zone of the server
        return date.timestamp()
""", "", 'C13.k', 'revert of fix D42'),
    M('M-C13l-revert-D43', 'mapproxy/cache/redis.py', """- self.ttl + int(pipe_res[0])""", """- self.ttl - int(pipe_res[0])""", 'C13.l', 'revert of fix D43'),
    M('M-C12k-revert-D35', 'mapproxy/seed/cleanup.py', """            if has_level_location(task.tile_manager.cache, task.levels):""",
      """            if callable(getattr(task.tile_manager.cache, 'level_location', None)):""", 'C12.k', 'revert of fix D35'),
    M('M-C12l-revert-D36-cleanup', 'mapproxy/seed/config.py', """                        remove_all = True
                    else:""", """                        remove_all = self.remove_all = True
                    else:""", 'C12.l', 'revert of fix D36 (clean-up side): the flag is stored on the entry again'),
    M('M-C12l-revert-D36-seed', 'mapproxy/seed/config.py', """                if not tile_manager.cache.supports_timestamp:
                    refresh_all = True
""", """                if not tile_manager.cache.supports_timestamp:
                    refresh_all = self.refresh_all = True
""", 'C12.l|C13.m', 'revert of fix D36 (seed side)'),

    M('M-C10n-revert-D47', 'mapproxy/image/mask.py', """    for p in sorted(parts, key=extent_area, reverse=True):
        draw_polygon(p)""", """    for p in parts:
        draw_polygon(p)""", 'C10.n', 'revert of fix D47'),
    M('M-C10n-smallest-first', 'mapproxy/image/mask.py', """    for p in sorted(parts, key=extent_area, reverse=True):""", """    for p in sorted(parts, key=extent_area):""", 'C10.n', 'sorted the wrong way round'),
    M('M-C13p-revert-D48', 'mapproxy/cache/mbtiles.py', """        elif tile.source and tile.coord is not None:
            # the image was loaded before (load_tile does nothing then): read the
            # time the tile was written again, it might have been refreshed since
            cur = self.db.cursor()
            cur.execute(\'\'\'SELECT last_modified FROM tiles
                WHERE tile_column = ? AND
                      tile_row = ? AND
                      zoom_level = ?\'\'\', tile.coord)
            row = cur.fetchone()
            if row:
                tile.timestamp = sqlite_datetime_to_timestamp(row[0])
        else:""", """        else:""", 'C13.p', 'revert of fix D48 (single database)'),
    M('M-C13p-revert-D48-level', 'mapproxy/cache/mbtiles.py', """        if tile.coord is None:
            return
        self._get_level(tile.coord[2]).load_tile_metadata(tile, dimensions=dimensions)""", """        self.load_tile(tile, dimensions=dimensions)""", 'C13.p', 'revert of fix D48 (per-level cache)'),
    {'id': 'E-C17o-D49-applied', 'patch': 'selftest/patches/C17o-D49-applied.diff', 'path': 'mapproxy/client/wms.py', 'find': '', 'replace': '',
     'expect': 'silent', 'props': ['C17'], 'origin': 'the repair of the known finding K2 (not applicable: five existing tests pin the old URL): with it the rule is satisfied'},

    M('M-C14m-revert-D50-bbox', 'mapproxy/util/coverage.py', """        if self.bbox != other.bbox:
            return False

        # a clipping coverage cuts the image, it is not the same as one that only limits the requests
        if bool(self.clip) != bool(other.clip):
            return False
""", """        if self.bbox != other.bbox:
            return False
""", 'C14.m', 'revert of fix D50 (bbox coverage)'),
    M('M-C14m-revert-D50-geom', 'mapproxy/util/coverage.py', """        if not self.geom.equals(other.geom):
            return False

        # a clipping coverage cuts the image, it is not the same as one that only limits the requests
        if bool(self.clip) != bool(other.clip):
            return False
""", """        if not self.geom.equals(other.geom):
            return False
""", 'C14.m', 'revert of fix D50 (polygon coverage)'),

    M('M-C11n-revert-D51-script', 'mapproxy/seed/script.py', """                                     continue_seed=options.continue_seed,
                                     read_only=options.dry_run)""", """                                     continue_seed=options.continue_seed)""", 'C11.n|C12.r', 'revert of fix D51 (the script builds a writable store in a dry run)'),
    M('M-C11n-revert-D51-write', 'mapproxy/seed/util.py', """    def write(self):
        if self.read_only:
            return
""", """    def write(self):
""", 'C11.n|C12.r', 'revert of fix D51 (write ignores the flag)'),
    M('M-C11n-remove-ignores-flag', 'mapproxy/seed/util.py', """        self.status = {}
        if self.read_only:
            return
""", """        self.status = {}
""", 'C11.n', 'a finished dry run removes the progress of a real run'),
    M('M-C11n-flag-inverted', 'mapproxy/seed/script.py', """read_only=options.dry_run)""", """read_only=not options.dry_run)""", 'C11.n', 'flag inverted: real runs never save progress... and dry runs do'),
    E('E-C11n-no-store-in-dry-run', 'mapproxy/seed/script.py', """        if options.continue_seed or options.progress_file:
            if not options.progress_file:""", """        if (options.continue_seed or options.progress_file) and not options.dry_run:
            if not options.progress_file:""", 'no progress store at all in a dry run: equally sound', ['C11']),

    M('M-C07j-revert-D52', 'mapproxy/seed/cachelock.py', """        for lock in cur.fetchall():""", """        for lock in cur:""", 'C07.j', 'revert of fix D52'),
    M('M-C07j-turn-without-flag', 'mapproxy/seed/cachelock.py', """            if not active_locks and lock['cache_name'] == cache_name and lock['pid'] == pid:""",
      """            if lock['cache_name'] == cache_name and lock['pid'] == pid:""", 'C07.j', 'own entry grants the lock behind a live holder'),
    E('E-C07j-list-snapshot', 'mapproxy/seed/cachelock.py', """        for lock in cur.fetchall():""", """        entries = list(cur)
        for lock in entries:""", 'the queue snapshot taken with list(): equally sound', ['C07']),

    M('M-C05r-revert-D53', 'mapproxy/image/__init__.py', """        if alpha != 255:
            return rgb + (alpha, )
        return rgb""", """        return rgb""", 'C05.r', 'revert of fix D53 (the alpha of the palette entry is computed but not reported)'),
    M('M-C05r-rgb-only-filename', 'mapproxy/cache/file.py', """''.join('%02x' % v for v in color) + '.' + self.file_ext""",
      """''.join('%02x' % v for v in color[:3]) + '.' + self.file_ext""", 'C05.r', 'the shared file is named by RGB only: RGBA tiles of different alpha collide'),
    E('E-C05r-alpha-always', 'mapproxy/image/__init__.py', """        if alpha != 255:
            return rgb + (alpha, )
        return rgb""", """        return rgb if alpha == 255 else rgb + (alpha, )""", 'conditional expression instead of two returns', ['C05']),

]
