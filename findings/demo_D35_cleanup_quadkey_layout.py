"""D35 (C12): "A cleanup task removes every tile of the selected levels that is older than the given time (or all, if so
configured) ...".

A file cache with `directory_layout: quadkey` keeps all tiles in one directory; its level_location() is a dummy that raises
NotImplementedError ("cache does not have any level location").  cleanup() chose the directory based strategy for every cache
that *has* a callable level_location (the reverse_tms layout sets it to None for that reason; quadkey does not): a clean-up over
the complete extent of a quadkey cache died with NotImplementedError before it removed anything -- and with it the rest of the
mapproxy-seed --cleanup run.

The demo stores old tiles in a quadkey and (as control) a tc cache and runs the same clean-up (remove_before: 1 hour, no
coverage) on both.

Run: PYTHONPATH=<tree> /venv/bin/python demo_D35_cleanup_quadkey_layout.py   (exit 0 = holds, 1 = broken)"""
import os
import sys
import tempfile
import time

from PIL import Image

MAPPROXY_YAML = """
globals:
  cache:
    base_dir: './cache'
grids:
  small:
    base: GLOBAL_GEODETIC
    num_levels: 3
caches:
  quad:
    sources: [src]
    grids: [small]
    cache: {type: file, directory_layout: quadkey}
  tc:
    sources: [src]
    grids: [small]
    cache: {type: file, directory_layout: tc}
sources:
  src:
    type: wms
    req: {url: 'http://localhost:1/service?', layers: foo}
"""
SEED_YAML = """
cleanups:
  older_than_an_hour:
    caches: [%s]
    grids: [small]
    levels: [1, 2]
    remove_before:
      hours: 1
"""
OLD = [(0, 0, 1), (1, 0, 1), (3, 1, 2)]
FRESH = [(0, 0, 2)]
OTHER_LEVEL = [(0, 0, 0)]


def main():
    import logging
    logging.disable(logging.CRITICAL)
    from mapproxy.config.loader import load_configuration
    from mapproxy.seed.config import load_seed_tasks_conf
    from mapproxy.seed.cleanup import cleanup
    from mapproxy.cache.tile import Tile
    from mapproxy.image import ImageSource
    from mapproxy.image.opts import ImageOptions
    tmp = tempfile.mkdtemp(prefix='d35')
    with open(os.path.join(tmp, 'mapproxy.yaml'), 'w') as f:
        f.write(MAPPROXY_YAML)
    conf = load_configuration(os.path.join(tmp, 'mapproxy.yaml'), seed=True)
    bad = []
    for cache_name in ('tc', 'quad'):
        with open(os.path.join(tmp, 'seed.yaml'), 'w') as f:
            f.write(SEED_YAML % cache_name)
        mgr = list(conf.caches[cache_name].caches())[0][2]
        old = time.time() - 7 * 24 * 3600
        for coord in OLD + FRESH + OTHER_LEVEL:
            t = Tile(coord, ImageSource(Image.new('RGB', (256, 256), (0, 200, 0)), image_opts=ImageOptions(format='image/png')))
            mgr.cache.store_tile(t)
            if coord not in FRESH:
                os.utime(mgr.cache.tile_location(Tile(coord)), (old, old))
        tasks = load_seed_tasks_conf(os.path.join(tmp, 'seed.yaml'), conf).cleanups(['older_than_an_hour'])
        error = None
        try:
            sys.stdout = open(os.devnull, 'w')
            cleanup(tasks, verbose=False, dry_run=False, concurrency=1)
        except BaseException as ex:       # noqa
            error = '%s: %s' % (type(ex).__name__, ex)
        finally:
            sys.stdout = sys.__stdout__
        left = [c for c in OLD + FRESH + OTHER_LEVEL if mgr.cache.is_cached(Tile(c))]
        want = FRESH + OTHER_LEVEL
        ok = error is None and sorted(left) == sorted(want)
        print('%-5s clean-up of levels 1-2, older than 1 hour: %s; tiles left %s (expected %s)' % (
            cache_name, 'raised ' + error if error else 'ran', sorted(left), sorted(want)))
        if not ok:
            bad.append(cache_name)
    if bad:
        print('C12 BROKEN: the clean-up does not remove the old tiles of the selected levels for layout(s): %s' % bad)
        return 1
    print('C12 holds')
    return 0


if __name__ == '__main__':
    sys.exit(main())
