"""D29 (C08): "When any number of requests that need the same uncached tile ... arrive concurrently, every response contains the
correct image".

TileManager._load_tile_coords first loads all requested tiles in one batch (cache.load_tiles) and then asks the cache tile by tile
whether it is there (is_cached) to find the tiles it has to create.  A tile that another request stores *between* the two steps is
reported as cached -- it is neither created nor loaded: the request is answered with an empty tile (tile.source is None; the tile
services send a blank image, a WMS answer gets a hole).  With the file cache (the default backend) is_cached is a plain
os.path.exists; the sqlite backends only escape because their is_cached happens to load the tile as a side effect.

The demo makes the schedule deterministic: the cache's load_tiles is wrapped so that, right after the (unsuccessful) batch load of
request B, request A -- which holds the tile lock, fetched the tile and now stores it -- completes its store.

Run: PYTHONPATH=<tree> /venv/bin/python demo_D29_tile_stored_between_load_and_check.py   (exit 0 = holds, 1 = broken)"""
import io
import os
import sys
import tempfile
import urllib.parse

from PIL import Image

import mapproxy.client.http as http

CONF = """
services:
  tms:
layers:
  - name: lyr
    title: lyr
    sources: [c]
caches:
  c:
    grids: [GLOBAL_MERCATOR]
    sources: [src]
    meta_size: [1, 1]
    cache: {type: %(backend)s}
sources:
  src:
    type: wms
    req: {url: 'http://upstream.invalid/service', layers: a}
globals:
  cache:
    base_dir: '%(tmp)s/cache'
    lock_dir: '%(tmp)s/locks'
    tile_lock_dir: '%(tmp)s/tile_locks'
"""
GREEN = (0, 200, 0)
UPSTREAM = {'n': 0}


class FakeResponse(io.BytesIO):
    code = 200
    headers = {'Content-type': 'image/png'}


def fake_open(self, url, data=None, method=None):
    q = {k.lower(): v[0] for k, v in urllib.parse.parse_qs(urllib.parse.urlsplit(url).query).items()}
    UPSTREAM['n'] += 1
    buf = io.BytesIO()
    Image.new('RGB', (int(q['width']), int(q['height'])), GREEN).save(buf, 'png')
    return FakeResponse(buf.getvalue())


def call(app, path):
    environ = {
        'REQUEST_METHOD': 'GET', 'SCRIPT_NAME': '', 'PATH_INFO': path, 'QUERY_STRING': '',
        'SERVER_NAME': 'localhost', 'SERVER_PORT': '80', 'HTTP_HOST': 'localhost',
        'wsgi.url_scheme': 'http', 'wsgi.input': io.BytesIO(), 'wsgi.errors': io.StringIO(),
        'wsgi.version': (1, 0), 'wsgi.multithread': False, 'wsgi.multiprocess': False, 'wsgi.run_once': False,
    }
    result = {}

    def start_response(status, headers, exc_info=None):
        result['status'] = status
    body = b''.join(app(environ, start_response))
    return result['status'], body


def main():
    from mapproxy.wsgiapp import make_wsgi_app
    from mapproxy.cache.tile import Tile
    from mapproxy.image import ImageSource
    http.HTTPClient.open = fake_open
    bad = []
    for backend in ('file', 'sqlite'):
        tmp = tempfile.mkdtemp(prefix='d29')
        conf = os.path.join(tmp, 'mapproxy.yaml')
        with open(conf, 'w') as f:
            f.write(CONF % {'tmp': tmp, 'backend': backend})
        app = make_wsgi_app(conf)
        mgr = list(app.handlers['tms'].layers.values())[0].tile_manager
        cache = mgr.cache
        real_load_tiles = cache.load_tiles
        state = {'armed': True}

        def load_tiles(tiles, with_metadata=False, dimensions=None, cache=cache, real=real_load_tiles, state=state, mgr=mgr):
            r = real(tiles, with_metadata, dimensions=dimensions)
            if state['armed']:
                state['armed'] = False
                # request A (the lock holder) finishes its store exactly now
                for t in tiles:
                    if t.coord is not None and t.source is None:
                        cache.store_tile(Tile(t.coord, ImageSource(Image.new('RGB', (256, 256), GREEN), image_opts=mgr.image_opts)))
            return r
        cache.load_tiles = load_tiles
        status, body = call(app, '/tms/1.0.0/lyr/1/0/0.png')
        img = Image.open(io.BytesIO(body)).convert('RGBA') if status.startswith('200') else None
        px = img.getpixel((100, 100)) if img else None
        ok = px is not None and px[:3] == GREEN and px[3] == 255
        print('%-6s request B -> %s, pixel %s (%s); upstream requests by B: %d' % (
            backend, status, px, 'the tile' if ok else 'NOT the tile that is in the cache', UPSTREAM['n']))
        if not ok:
            bad.append(backend)
    if bad:
        print('C08 BROKEN: a tile stored by a concurrent request between the batch load and the existence check is answered with an empty tile (%s)' % ', '.join(bad))
        return 1
    print('C08 holds')
    return 0


if __name__ == '__main__':
    sys.exit(main())
