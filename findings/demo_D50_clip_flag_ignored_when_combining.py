"""D50 (C14): two adjacent WMS sources with the same URL and the same coverage geometry, one with `clip: true` and one without.
Coverage equality ignored the clip flag, so WMSSource._is_compatible called them compatible and combined_layer merged them into one
upstream request with the coverage of the first: requested as (unclipped, clipped) the clipping of the second was lost, requested as
(clipped, unclipped) the unclipped one was clipped too -- combining changed the picture.   usage: demo.py [repo root]"""
import sys
sys.path.insert(0, sys.argv[1] if len(sys.argv) > 1 else '/repo')
import shapely.geometry
from mapproxy.client.wms import WMSClient
from mapproxy.layer import MapQuery
from mapproxy.request.wms import create_request
from mapproxy.source.wms import WMSSource
from mapproxy.srs import SRS
from mapproxy.util.coverage import BBOXCoverage, GeomCoverage

geom = shapely.geometry.Polygon([(0, 0), (10, 0), (10, 10), (0, 10)])
bad = 0
for name, mk in (('polygon', lambda clip: GeomCoverage(geom, SRS(4326), clip=clip)),
                 ('bbox', lambda clip: BBOXCoverage([0, 0, 10, 10], SRS(4326), clip=clip))):
    def src(layers, clip):
        req = create_request({'url': 'http://up/wms', 'layers': layers}, {})
        return WMSSource(WMSClient(req), coverage=mk(clip))
    q = MapQuery((2, 2, 8, 8), (100, 100), SRS(4326), 'png')
    for first, second in ((False, True), (True, False)):
        a, b = src('a', first), src('b', second)
        combined = a.combined_layer(b, q)
        ok = combined is None
        print('%-8s clip=%s next to clip=%s: %s' % (name, first, second, 'kept apart' if ok else 'COMBINED into one request (clip=%s for both)' % combined.coverage.clip))
        bad += not ok
    same = src('a', True).combined_layer(src('b', True), q)
    if same is None:
        print('%-8s two clipped sources of the same coverage are not combined any more' % name)
        bad += 1
print('BROKEN: %d' % bad if bad else 'OK')
sys.exit(1 if bad else 0)
