"""D28 (C17): "Every request MapProxy sends to an upstream WMS uses an SRS ... from the source's configured lists".

When the requested SRS is not supported by a WMS source, WMSSource._get_transformed asks SupportedSRS.best_srs for the SRS to
request instead.  PreferredSrcSRS.preferred_src walks the globally configured `preferred_src_proj` list and returned the entry of
*that* list as soon as it compares equal to a supported SRS.  SRS objects with different codes can be equal (EPSG:3857 /
EPSG:900913 / EPSG:102113): with `supported_srs: [EPSG:3857, EPSG:4326]` and `preferred_src_proj: {EPSG:25832: [EPSG:900913]}` a
request in EPSG:25832 was sent upstream as SRS=EPSG:900913 -- a code the source is not configured for (and many servers reject).
WMSSource._get_map takes care of exactly this for directly supported SRSs ("make sure to use a supported srs_code").

Run: PYTHONPATH=<tree> /venv/bin/python demo_D28_preferred_src_srs_alias.py   (exit 0 = holds, 1 = broken)"""
import io
import os
import sys
import tempfile
import urllib.parse

from PIL import Image

from mapproxy.client import http as http_client

CONF = """
services:
  wms:
    md: {title: demo}
    srs: ['EPSG:25832', 'EPSG:4326', 'EPSG:3857', 'EPSG:31467']
layers:
  - name: lyr
    title: lyr
    sources: [src]
sources:
  src:
    type: wms
    supported_srs: ['EPSG:3857', 'EPSG:4326']
    req: {url: 'http://upstream.invalid/service', layers: a}
globals:
  srs:
    preferred_src_proj:
      'EPSG:25832': ['EPSG:900913', 'EPSG:4326']
"""
SEEN = []


class FakeResponse(io.BytesIO):
    code = 200
    headers = {'Content-type': 'image/png'}


def fake_open(self, url, data=None, method=None):
    q = {k.lower(): v[0] for k, v in urllib.parse.parse_qs(urllib.parse.urlsplit(url).query).items()}
    SEEN.append(q.get('srs') or q.get('crs'))
    buf = io.BytesIO()
    Image.new('RGB', (int(q['width']), int(q['height'])), (0, 200, 0)).save(buf, 'png')
    return FakeResponse(buf.getvalue())


def call(app, query):
    environ = {
        'REQUEST_METHOD': 'GET', 'SCRIPT_NAME': '', 'PATH_INFO': '/service', 'QUERY_STRING': query,
        'SERVER_NAME': 'localhost', 'SERVER_PORT': '80', 'HTTP_HOST': 'localhost',
        'wsgi.url_scheme': 'http', 'wsgi.input': io.BytesIO(), 'wsgi.errors': io.StringIO(),
        'wsgi.version': (1, 0), 'wsgi.multithread': False, 'wsgi.multiprocess': False, 'wsgi.run_once': False,
    }
    result = {}

    def start_response(status, headers, exc_info=None):
        result['status'] = status
    b''.join(app(environ, start_response))
    return result['status']


def main():
    from mapproxy.wsgiapp import make_wsgi_app
    http_client.HTTPClient.open = fake_open
    tmp = tempfile.mkdtemp(prefix='d28')
    conf = os.path.join(tmp, 'mapproxy.yaml')
    with open(conf, 'w') as f:
        f.write(CONF)
    app = make_wsgi_app(conf)
    configured = {'EPSG:3857', 'EPSG:4326'}
    bad = []
    for srs, bbox in (('EPSG:25832', '400000,5400000,500000,5500000'), ('EPSG:31467', '3400000,5400000,3500000,5500000'),
                      ('EPSG:3857', '1000000,6000000,1100000,6100000'), ('EPSG:4326', '8,48,9,49')):
        del SEEN[:]
        status = call(app, 'SERVICE=WMS&VERSION=1.1.1&REQUEST=GetMap&LAYERS=lyr&STYLES=&SRS=%s&BBOX=%s&WIDTH=200&HEIGHT=200&FORMAT=image/png' % (srs, bbox))
        ok = bool(SEEN) and all(s in configured for s in SEEN)
        print('request in %-10s -> %s, upstream asked in %s: %s' % (srs, status, SEEN, 'ok' if ok else 'NOT A CONFIGURED SRS'))
        if not ok:
            bad.append((srs, list(SEEN)))
    if bad:
        print('C17 BROKEN: upstream request with an SRS code that is not in supported_srs %s: %s' % (sorted(configured), bad))
        return 1
    print('C17 holds')
    return 0


if __name__ == '__main__':
    sys.exit(main())
