"""D44 (C16): a GetMap with negative WIDTH and HEIGHT passed the max_output_pixels check (the product of two negative numbers is
positive and small), the layers were rendered -- tiles created and written to the cache -- and only the final image step failed with a
500.   usage: demo.py [repo root]"""
import os
import shutil
import sys
import tempfile
sys.path.insert(0, sys.argv[1] if len(sys.argv) > 1 else '/repo')
from webtest import TestApp
from mapproxy.wsgiapp import make_wsgi_app

CONF = '''
services:
  wms:
    md: {title: demo}
layers:
  - name: a
    title: a
    sources: [a_cache]
caches:
  a_cache:
    grids: [GLOBAL_GEODETIC]
    sources: [dbg]
sources:
  dbg:
    type: wms
    req: {url: 'http://upstream.invalid/wms', layers: x}
globals:
  cache:
    base_dir: %(d)s/cache_data
    lock_dir: %(d)s/locks
    tile_lock_dir: %(d)s/tile_locks
'''
# stand-in for the upstream server: counts the requests and answers with a picture
import mapproxy.client.http as http_mod
from io import BytesIO
from PIL import Image
UPSTREAM = []


class FakeResp(BytesIO):
    headers = {'Content-type': 'image/png'}
    code = 200

    def __init__(self, url):
        q = dict(p.split('=', 1) for p in url.lower().split('?', 1)[1].split('&') if '=' in p)
        buf = BytesIO()
        Image.new('RGB', (abs(int(q.get('width', 256))), abs(int(q.get('height', 256)))), (200, 10, 10)).save(buf, 'png')
        BytesIO.__init__(self, buf.getvalue())


def fake_open(self, url, data=None, **kw):
    UPSTREAM.append(url)
    return FakeResp(url)


http_mod.HTTPClient.open = fake_open
d = tempfile.mkdtemp(prefix='d44_')
bad = 0
try:
    with open(os.path.join(d, 'mapproxy.yaml'), 'w') as f:
        f.write(CONF % {'d': d})
    app = TestApp(make_wsgi_app(os.path.join(d, 'mapproxy.yaml')))
    for w, h in [(-256, -256), (-1, -4000), (0, 100)]:
        url = ('/service?SERVICE=WMS&VERSION=1.1.1&REQUEST=GetMap&LAYERS=a&STYLES=&SRS=EPSG:4326&BBOX=0,0,0.0005,0.0005'
               '&WIDTH=%d&HEIGHT=%d&FORMAT=image/png' % (w, h))
        resp = app.get(url, expect_errors=True)
        files = [os.path.join(dp, f) for dp, dn, fn in os.walk(os.path.join(d, 'cache_data')) for f in fn]
        ok = resp.content_type != 'image/png' and not files and not UPSTREAM
        print('WIDTH=%d HEIGHT=%d -> %s %s, %d upstream request(s), %d file(s) written to the cache: %s' % (
            w, h, resp.status, resp.content_type, len(UPSTREAM), len(files), 'ok' if ok else 'BROKEN'))
        del UPSTREAM[:]
        bad += not ok
        shutil.rmtree(os.path.join(d, 'cache_data'), ignore_errors=True)
finally:
    shutil.rmtree(d)
print('BROKEN: %d' % bad if bad else 'OK')
sys.exit(1 if bad else 0)
