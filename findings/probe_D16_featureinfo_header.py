import io, os, sys, tempfile
from mapproxy.wsgiapp import make_wsgi_app
CONF = """
services:
  wms:
    md: {title: demo}
layers:
  - name: lyr
    title: lyr
    sources: [src]
sources:
  src:
    type: wms
    wms_opts: {featureinfo: true}
    coverage: {bbox: [0, 0, 1, 1], srs: 'EPSG:4326'}
    req: {url: 'http://localhost:1/service', layers: a}
"""
tmp = tempfile.mkdtemp()
open(tmp + '/m.yaml', 'w').write(CONF)
app = make_wsgi_app(tmp + '/m.yaml')
def call(path, query):
    environ = {'REQUEST_METHOD': 'GET', 'SCRIPT_NAME': '', 'PATH_INFO': path, 'QUERY_STRING': query, 'SERVER_NAME': 'localhost', 'SERVER_PORT': '80',
               'HTTP_HOST': 'localhost', 'wsgi.url_scheme': 'http', 'wsgi.input': io.BytesIO(), 'wsgi.errors': io.StringIO(), 'wsgi.version': (1, 0),
               'wsgi.multithread': False, 'wsgi.multiprocess': False, 'wsgi.run_once': False}
    res = {}
    def sr(status, headers, exc_info=None):
        res['status'] = status; res['headers'] = headers
    try:
        body = b''.join(app(environ, sr))
    except Exception as e:
        return 'RAISED %s: %s' % (type(e).__name__, e), [], b''
    return res['status'], res['headers'], body
q = ('SERVICE=WMS&VERSION=1.1.1&REQUEST=GetFeatureInfo&LAYERS=lyr&QUERY_LAYERS=lyr&STYLES=&SRS=EPSG:4326&BBOX=10,10,20,20&WIDTH=100&HEIGHT=100'
     '&FORMAT=image/png&X=50&Y=50&INFO_FORMAT=text/plain%0d%0aSet-Cookie:%20a=b')
st, h, b = call('/service', q)
print(st, h, b[:80])
