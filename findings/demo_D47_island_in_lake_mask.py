"""D47 (C10): a limit geometry with an island inside a lake -- a polygon lying in the hole of another polygon (the usual shape of a
MultiPolygon of land areas).  image_mask_from_geom painted polygon after polygon: exterior visible, holes masked.  When the polygon
with the hole came after the island in the list, painting its hole wiped the island out again: pixels well inside the permitted
area came out fully transparent.   usage: demo.py [repo root]"""
import sys
sys.path.insert(0, sys.argv[1] if len(sys.argv) > 1 else '/repo')
import shapely.geometry
from mapproxy.image.mask import image_mask_from_geom

land = shapely.geometry.Polygon([(0, 0), (100, 0), (100, 100), (0, 100)], holes=[[(20, 20), (80, 20), (80, 80), (20, 80)]])
island = shapely.geometry.Polygon([(40, 40), (60, 40), (60, 60), (40, 60)])
# a thin ring of land around a big lake with a big island: the island is larger in area than the land polygon itself
ring = shapely.geometry.Polygon([(0, 0), (100, 0), (100, 100), (0, 100)], holes=[[(6, 6), (94, 6), (94, 94), (6, 94)]])
big_island = shapely.geometry.Polygon([(12, 12), (88, 12), (88, 88), (12, 88)])
bad = 0
for name, polys, probes in (
        ('island listed first', [island, land], {(50, 50): 'visible', (30, 50): 'masked', (10, 50): 'visible'}),
        ('island listed last', [land, island], {(50, 50): 'visible', (30, 50): 'masked', (10, 50): 'visible'}),
        ('thin ring, big island first', [big_island, ring], {(50, 50): 'visible', (9, 50): 'masked', (3, 50): 'visible'}),
        ('thin ring, big island last', [ring, big_island], {(50, 50): 'visible', (9, 50): 'masked', (3, 50): 'visible'})):
    mask = image_mask_from_geom((100, 100), (0, 0, 100, 100), polys)
    for (x, y), want in sorted(probes.items()):
        got = 'masked' if mask.getpixel((x, 99 - y)) == 255 else 'visible'
        if got != want:
            bad += 1
            print('%-28s pixel at (%d, %d): %s, expected %s' % (name, x, y, got, want))
print('BROKEN: %d pixels of the permitted area are masked out (or the reverse)' % bad if bad else 'OK')
sys.exit(1 if bad else 0)
