"""D53 (C05): a file cache with `link_single_color_images` stores a tile of one colour once and links every address with that colour to
it.  is_single_color_image named the colour of a paletted image by the RGB entry of its palette alone and ignored the transparency of the
entry: an opaque red tile stored at (0, 0, 1) and a fully transparent tile whose (invisible) palette entry is also red stored at (1, 0, 1)
shared one file -- loading (1, 0, 1) returned the bytes of the opaque tile, a visibly different image.
(observed by the round-7 sub-agent for C05)   usage: demo.py [repo root]"""
import os
import shutil
import sys
import tempfile
sys.path.insert(0, sys.argv[1] if len(sys.argv) > 1 else '/repo')
from io import BytesIO
from PIL import Image
from mapproxy.cache.file import FileCache
from mapproxy.cache.tile import Tile
from mapproxy.image import ImageSource


def paletted(transparent, how):
    img = Image.new('P', (256, 256), 0)
    img.putpalette([255, 0, 0] + [0, 0, 0] * 255)
    buf = BytesIO()
    if transparent:
        img.save(buf, 'PNG', transparency=0 if how == 'index' else bytes([0]))
    else:
        img.save(buf, 'PNG')
    return buf.getvalue()


bad = 0
for how in ('index', 'table'):
    d = tempfile.mkdtemp(prefix='d53_')
    try:
        cache = FileCache(d, 'png', link_single_color_images=True)
        opaque, clear = paletted(False, how), paletted(True, how)
        assert Image.open(BytesIO(opaque)).convert('RGBA').getpixel((0, 0)) == (255, 0, 0, 255)
        assert Image.open(BytesIO(clear)).convert('RGBA').getpixel((0, 0))[3] == 0
        cache.store_tile(Tile((0, 0, 1), ImageSource(BytesIO(opaque))))
        cache.store_tile(Tile((1, 0, 1), ImageSource(BytesIO(clear))))
        t = Tile((1, 0, 1))
        cache.load_tile(t)
        px = Image.open(t.source_buffer()).convert('RGBA').getpixel((0, 0))
        print('transparency as %-5s: stored a fully transparent tile at (1, 0, 1), loading it gives a pixel %s' % (how, px))
        if px[3] != 0:
            bad += 1
        t0 = Tile((0, 0, 1))
        cache.load_tile(t0)
        if Image.open(t0.source_buffer()).convert('RGBA').getpixel((0, 0)) != (255, 0, 0, 255):
            print('  and the opaque tile at (0, 0, 1) changed')
            bad += 1
    finally:
        shutil.rmtree(d)
print('BROKEN' if bad else 'OK')
sys.exit(1 if bad else 0)
