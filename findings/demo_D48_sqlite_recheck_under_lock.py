"""D48 (C13, C08): two requests need the same stale tile of a sqlite cache.  The second one loaded the stale tile (image and age)
before the first one refreshed it, then waits for the tile lock.  Under the lock it asks again whether the tile is cached and fresh --
but MBTilesCache.load_tile_metadata was `load_tile`, which returns at once for a tile that already has an image: the age read
*before* the lock was used, the tile counted as stale and was fetched upstream a second time although it had just been written.
(The file cache stats the file again and is right.)   usage: demo.py [repo root]"""
import os
import shutil
import sys
import tempfile
import time
sys.path.insert(0, sys.argv[1] if len(sys.argv) > 1 else '/repo')
from io import BytesIO
from PIL import Image
from mapproxy.cache.base import TileLocker
from mapproxy.cache.mbtiles import MBTilesLevelCache
from mapproxy.cache.tile import Tile, TileManager
from mapproxy.grid import tile_grid
from mapproxy.image import ImageSource
from mapproxy.image.opts import ImageOptions
from mapproxy.layer import MapLayer


class Upstream(MapLayer):
    supports_meta_tiles = False

    def __init__(self):
        MapLayer.__init__(self)
        self.requests = 0
        self.extent = None
        self.res_range = None
        self.coverage = None

    def get_map(self, query):
        self.requests += 1
        buf = BytesIO()
        Image.new('RGB', query.size, (self.requests * 40, 0, 0)).save(buf, 'png')
        return ImageSource(BytesIO(buf.getvalue()), size=query.size, image_opts=ImageOptions(format='image/png'))


d = tempfile.mkdtemp(prefix='d48_')
bad = 0
try:
    grid = tile_grid(4326, num_levels=4)
    up = Upstream()
    cache = MBTilesLevelCache(os.path.join(d, 'c'))
    locker = TileLocker(os.path.join(d, 'locks'), 10, 'x')
    mgr = TileManager(grid, cache, [up], 'png', locker, image_opts=ImageOptions(format='image/png'), meta_size=None, minimize_meta_requests=False)
    coord = (1, 0, 1)
    mgr.load_tile_coord(coord)                       # the tile gets into the cache
    assert up.requests == 1
    time.sleep(1.2)                                  # (whole-second time stamps)
    mgr._expire_timestamp = time.time()              # a refresh rule: everything written up to now is stale
    time.sleep(1.2)
    # request B runs completely at the moment request A asks for the tile lock (A has loaded the stale tile by then)
    orig_lock = locker.lock
    state = {'nested': False}

    def lock_with_b_in_front(tile, *a, **kw):
        if not state['nested']:
            state['nested'] = True
            mgr.load_tile_coord(coord)               # B: sees the stale tile, refreshes it (one upstream request)
        return orig_lock(tile, *a, **kw)
    locker.lock = lock_with_b_in_front
    before = up.requests
    mgr.load_tile_coord(coord)                       # A
    extra = up.requests - before
    print('upstream requests for the two overlapping requests for one stale tile: %d (expected 1)' % extra)
    bad += extra != 1
finally:
    shutil.rmtree(d)
print('BROKEN' if bad else 'OK')
sys.exit(1 if bad else 0)
