"""D22 (C14): "Skipping layers that lie under a layer declared opaque ... never change[s] the result compared with doing the full
composition."

LayerMerger.merge fades a layer for every opacity below 1.0 (`opacity is not None and opacity < 1.0`); with `image.opacity: 0` the
layer is invisible.  WMSSource.is_opaque, which decides whether the layers *below* may be skipped, only treated opacities strictly
between 0 and 0.99 as "not opaque" (`0.0 < self.opacity < 0.99`): a non-transparent source with opacity 0 counted as opaque, the layers
below it were pruned (never requested), and the answer was the background colour instead of the lower layer.

The upstream stub answers LAYERS=base with red and LAYERS=top with blue.  The demo requests LAYERS=base,top for a set of opacities
of `top` and compares the centre pixel with the 'over' composition of the two colours.

Run: PYTHONPATH=<tree> /venv/bin/python demo_D22_opacity_zero_counts_as_opaque.py   (exit 0 = holds, 1 = broken)"""
import io
import os
import sys
import tempfile
import urllib.parse

from PIL import Image

from mapproxy.client import http as http_client

CONF = """
services:
  wms:
    md: {title: demo}
layers:
  - name: base
    title: base
    sources: [base_src]
  - name: top
    title: top
    sources: [top_src]
sources:
  base_src:
    type: wms
    req: {url: 'http://upstream-a.invalid/service', layers: base, transparent: false}
  top_src:
    type: wms
    req: {url: 'http://upstream-b.invalid/service', layers: top, transparent: false}
    image:
      opacity: %(opacity)s
"""
RED, BLUE = (255, 0, 0), (0, 0, 255)
SEEN = []


class FakeResponse(io.BytesIO):
    code = 200
    headers = {'Content-type': 'image/png'}


def fake_open(self, url, data=None, method=None):
    q = {k.lower(): v[0] for k, v in urllib.parse.parse_qs(urllib.parse.urlsplit(url).query).items()}
    SEEN.append(q.get('layers'))
    buf = io.BytesIO()
    Image.new('RGB', (int(q['width']), int(q['height'])), RED if q.get('layers') == 'base' else BLUE).save(buf, 'png')
    return FakeResponse(buf.getvalue())


def call(app, query):
    environ = {
        'REQUEST_METHOD': 'GET', 'SCRIPT_NAME': '', 'PATH_INFO': '/service', 'QUERY_STRING': query,
        'SERVER_NAME': 'localhost', 'SERVER_PORT': '80', 'HTTP_HOST': 'localhost',
        'wsgi.url_scheme': 'http', 'wsgi.input': io.BytesIO(), 'wsgi.errors': io.StringIO(),
        'wsgi.version': (1, 0), 'wsgi.multithread': False, 'wsgi.multiprocess': False, 'wsgi.run_once': False,
    }
    result = {}

    def start_response(status, headers, exc_info=None):
        result['status'] = status
    body = b''.join(app(environ, start_response))
    return result['status'], body


def main():
    from mapproxy.wsgiapp import make_wsgi_app
    http_client.HTTPClient.open = fake_open
    bad = []
    for opacity in (0, 0.0, 0.25, 0.5, 1.0):
        tmp = tempfile.mkdtemp(prefix='d22')
        conf = os.path.join(tmp, 'mapproxy.yaml')
        with open(conf, 'w') as f:
            f.write(CONF % {'opacity': opacity})
        app = make_wsgi_app(conf)
        del SEEN[:]
        status, body = call(app, 'SERVICE=WMS&VERSION=1.1.1&REQUEST=GetMap&LAYERS=base,top&STYLES=&SRS=EPSG:4326&BBOX=0,0,10,10'
                                 '&WIDTH=100&HEIGHT=100&FORMAT=image/png')
        px = Image.open(io.BytesIO(body)).convert('RGB').getpixel((50, 50)) if status.startswith('200') else None
        o = float(opacity)
        want = tuple(int(round(t * o + b * (1 - o))) for t, b in zip(BLUE, RED))
        ok = px is not None and all(abs(a - b) <= 3 for a, b in zip(px, want))
        print('opacity %-4s -> %s, upstream layers requested %s, centre pixel %s, composition gives %s: %s' % (
            opacity, status, sorted(set(SEEN)), px, want, 'ok' if ok else 'DIFFERENT'))
        if not ok:
            bad.append(opacity)
    if bad:
        print('C14 BROKEN: pruning under an "opaque" layer changed the result for opacity %s' % bad)
        return 1
    print('C14 holds')
    return 0


if __name__ == '__main__':
    sys.exit(main())
