"""D51 (C11): `mapproxy-seed --dry-run --progress-file F` recorded the progress of the dry run in F (and removed F when the dry run
finished).  A dry run creates no tile, so an interrupted dry run followed by `mapproxy-seed --continue --progress-file F` skipped every
subtree the dry run had walked: tiles selected by the task were never created.  The other way round a finished dry run deleted the saved
progress of an interrupted real run.   usage: demo.py [repo root]

The demonstration runs the real command line entry point three times in one directory:
  1. dry run with a progress file, interrupted (KeyboardInterrupt raised from the progress logger at its eighth progress report),
  2. real run with --continue,
  3. a reference: real run without any saved progress in a second directory.
The tiles created by 2 must equal those created by 3."""
import os
import shutil
import sys
import tempfile
sys.path.insert(0, sys.argv[1] if len(sys.argv) > 1 else '/repo')
from io import BytesIO
from PIL import Image
import mapproxy.seed.script as script
import mapproxy.seed.util as sutil
import mapproxy.client.http as http

CONF = """
services:
  wms:
layers:
  - name: l
    title: l
    sources: [c]
caches:
  c:
    grids: [GLOBAL_GEODETIC]
    sources: [s]
    meta_size: [1, 1]
sources:
  s:
    type: wms
    req:
      url: http://localhost:1/service?
      layers: x
globals:
  cache:
    base_dir: %(d)s/cache
    lock_dir: %(d)s/locks
    tile_lock_dir: %(d)s/tile_locks
"""
SEED = """
seeds:
  t:
    caches: [c]
    levels: [0, 1, 2, 3, 4]
"""

buf = BytesIO()
Image.new('RGB', (256, 256), (10, 20, 30)).save(buf, 'PNG')
PNG = buf.getvalue()


class _Resp(object):
    def __init__(self):
        self.headers = {'Content-type': 'image/png'}
        self.code = 200
        self._b = BytesIO(PNG)

    def read(self, *a):
        return self._b.read(*a)

    def close(self):
        pass


def _open(self, url, data=None, method=None):
    return _Resp()


http.HTTPClient.open = _open          # the upstream WMS: every map request is answered with one grey tile


def tiles(d):
    out = set()
    for root, _, files in os.walk(os.path.join(d, 'cache')):
        for f in files:
            if f.endswith('.png'):
                out.add(os.path.relpath(os.path.join(root, f), os.path.join(d, 'cache')))
    return out


def run(d, *extra, **kw):
    open(os.path.join(d, 'mapproxy.yaml'), 'w').write(CONF % {'d': d})
    open(os.path.join(d, 'seed.yaml'), 'w').write(SEED)
    argv = ['mapproxy-seed', '-f', os.path.join(d, 'mapproxy.yaml'), '-s', os.path.join(d, 'seed.yaml'), '-c', '1', '-q', '-q'] + list(extra)
    old_argv, sys.argv = sys.argv, argv
    old_out, sys.stdout = sys.stdout, open(os.devnull, 'w')
    try:
        return script.SeedScript()()
    except SystemExit as ex:
        return ex.code
    finally:
        sys.argv = old_argv
        sys.stdout = old_out


a = tempfile.mkdtemp(prefix='d51a_')
b = tempfile.mkdtemp(prefix='d51b_')
bad = 0
try:
    pf = os.path.join(a, 'progress')
    # 1. interrupted dry run: the logger is asked to report after each subtree; stop after some reports
    orig = sutil.ProgressLog.log_progress
    n = [0]

    def interrupting(self, progress, level, bbox, tiles):
        self._lastprogress = 0            # report every time (a long run reports once per second)
        orig(self, progress, level, bbox, tiles)
        n[0] += 1
        if n[0] == 8:
            raise KeyboardInterrupt()
    sutil.ProgressLog.log_progress = interrupting
    rc = run(a, '--dry-run', '--progress-file', pf)
    sutil.ProgressLog.log_progress = orig
    print('dry run ended with', rc, '- tiles created:', len(tiles(a)), '- progress file exists:', os.path.exists(pf))
    if os.path.exists(pf):
        print('  a dry run that created nothing left a progress file behind')
    # 2. the real run that continues
    rc = run(a, '--continue', '--progress-file', pf)
    # 3. reference
    run(b)
    ta, tb = tiles(a), tiles(b)
    print('continued real run (rc %s) created %d tiles, an uninterrupted run creates %d' % (rc, len(ta), len(tb)))
    if ta != tb:
        print('  never created:', sorted(tb - ta)[:6], '...')
        bad += 1

    # the other direction: a finished dry run must not throw away the saved progress of a real run
    store = sutil.ProgressStore(pf, continue_seed=False)
    store.add('some task', [(0, 4)])
    store.write()
    before = open(pf, 'rb').read()
    run(a, '--dry-run', '--progress-file', pf)
    after = open(pf, 'rb').read() if os.path.exists(pf) else None
    if after != before:
        print('a finished dry run', 'removed' if after is None else 'rewrote', 'the saved progress of the real run')
        bad += 1
finally:
    shutil.rmtree(a)
    shutil.rmtree(b)
print('BROKEN' if bad else 'OK')
sys.exit(1 if bad else 0)
