"""D45 (C20): parse_httpdate added 2000 to every year below 1970, so `If-Modified-Since: Thu, 01 Jan 1960 00:00:00 GMT` was read as the
year 3960 and every tile was answered 304 Not Modified although the client's date matches nothing that is stored.
usage: demo.py [repo root]"""
import sys
import time
sys.path.insert(0, sys.argv[1] if len(sys.argv) > 1 else '/repo')
from mapproxy.response import Response


class Req:
    def __init__(self, environ):
        self.environ = environ


bad = 0
stored = time.time() - 3600
for ims, want in [('Thu, 01 Jan 1960 00:00:00 GMT', '200'), ('Wed, 01 Jan 1969 00:00:00 GMT', '200'),
                  ('Fri, 13 Feb 2009 23:31:30 GMT', '200'), ('Friday, 13-Feb-09 23:31:30 GMT', '200'),
                  ('Fri, 01 Jan 2100 00:00:00 GMT', '304')]:
    resp = Response(b'tile', content_type='image/png')
    resp.cache_headers(timestamp=stored, etag_data=(stored, 4), max_age=600)
    resp.make_conditional(Req({'HTTP_IF_MODIFIED_SINCE': ims}))
    got = resp.status.split()[0]
    print('If-Modified-Since: %-34s -> %s (expected %s)' % (ims, got, want))
    bad += got != want
print('BROKEN: %d' % bad if bad else 'OK')
sys.exit(1 if bad else 0)
