"""D21 (C02): "the tile returned for an advertised address covers exactly the ground rectangle that a standards-following client
computes for that address from the service's own capabilities document."

A cache with two grids is advertised by WMTS as two tile matrix sets.  The file and compact backends give every grid its own
directory (or refuse a cache with several grids on one explicitly configured directory: "using single directory for cache with
multiple grids").  The mbtiles backend (one SQLite file per cache, rows keyed by z/x/y only) and the sqlite backend with an explicit
`directory` had no such guard: both tile matrix sets were stored in the same file / directory, so after
geodetic_nw/01/0/0 was requested once, GLOBAL_WEBMERCATOR/01/0/0 answered with the *geodetic* tile.

The upstream stub answers with a colour that encodes the SRS of the request (red: EPSG:4326, blue: EPSG:900913/3857).

Run: PYTHONPATH=<tree> /venv/bin/python demo_D21_single_file_backends_share_grids.py
exit 0 = holds (every answer shows its own matrix set, or the configuration is refused), 1 = broken"""
import io
import os
import sys
import tempfile
import urllib.parse

from PIL import Image

from mapproxy.client import http as http_client

CONF = """
services:
  wmts:
    restful: true
layers:
  - name: lyr
    title: lyr
    sources: [c]
caches:
  c:
    grids: [geodetic_nw, GLOBAL_WEBMERCATOR]
    sources: [src]
    cache:
      %(backend)s
grids:
  geodetic_nw:
    base: GLOBAL_GEODETIC
    origin: nw
sources:
  src:
    type: wms
    req: {url: 'http://upstream.invalid/service', layers: a}
"""
BACKENDS = {
    'mbtiles': 'type: mbtiles\n      filename: %(d)s/c.mbtiles',
    'sqlite (explicit directory)': 'type: sqlite\n      directory: %(d)s/sqlite',
}


class FakeResponse(io.BytesIO):
    code = 200
    headers = {'Content-type': 'image/png'}


def fake_open(self, url, data=None, method=None):
    q = {k.lower(): v[0] for k, v in urllib.parse.parse_qs(urllib.parse.urlsplit(url).query).items()}
    w, h = int(q.get('width', 256)), int(q.get('height', 256))
    color = (255, 0, 0) if q.get('srs', '').endswith('4326') else (0, 0, 255)
    buf = io.BytesIO()
    Image.new('RGB', (w, h), color).save(buf, 'png')
    return FakeResponse(buf.getvalue())


def call(app, path):
    environ = {
        'REQUEST_METHOD': 'GET', 'SCRIPT_NAME': '', 'PATH_INFO': path, 'QUERY_STRING': '',
        'SERVER_NAME': 'localhost', 'SERVER_PORT': '80', 'HTTP_HOST': 'localhost',
        'wsgi.url_scheme': 'http', 'wsgi.input': io.BytesIO(), 'wsgi.errors': io.StringIO(),
        'wsgi.version': (1, 0), 'wsgi.multithread': False, 'wsgi.multiprocess': False, 'wsgi.run_once': False,
    }
    result = {}

    def start_response(status, headers, exc_info=None):
        result['status'] = status
    body = b''.join(app(environ, start_response))
    return result['status'], body


def main():
    from mapproxy.wsgiapp import make_wsgi_app
    from mapproxy.config.loader import ConfigurationError
    http_client.HTTPClient.open = fake_open
    bad = []
    for name, backend in BACKENDS.items():
        tmp = tempfile.mkdtemp(prefix='d21')
        conf = os.path.join(tmp, 'mapproxy.yaml')
        with open(conf, 'w') as f:
            f.write(CONF % {'backend': backend % {'d': tmp}})
        try:
            app = make_wsgi_app(conf)
        except ConfigurationError as ex:
            print('%-28s configuration refused: %s' % (name, ex))
            continue
        seen = {}
        for ms, want in (('geodetic_nw', (255, 0, 0)), ('GLOBAL_WEBMERCATOR', (0, 0, 255))):
            status, body = call(app, '/wmts/lyr/%s/01/0/0.png' % ms)
            px = Image.open(io.BytesIO(body)).convert('RGB').getpixel((10, 10)) if status.startswith('200') else None
            seen[ms] = px
            ok = px == want
            print('%-28s %s/01/0/0 -> %s pixel %s (%s)' % (name, ms, status, px, 'its own matrix set' if ok else 'ANOTHER matrix set'))
            if not ok:
                bad.append((name, ms))
    if bad:
        print('C02 BROKEN: %s' % bad)
        return 1
    print('C02 holds')
    return 0


if __name__ == '__main__':
    sys.exit(main())
