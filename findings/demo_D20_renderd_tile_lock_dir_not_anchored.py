"""D20 (C09): "No request ... causes MapProxy to create ... tile data outside the directories configured for that cache and its
locks."

globals.cache.tile_lock_dir is a path option: like every relative path of the configuration it is meant relative to the directory
of mapproxy.yaml (GlobalConfiguration.get_path).  CacheConfiguration.lock_dir() resolves it that way for the normal tile creator,
but the branch that builds the tile creator for a cache served through renderd read the raw value with get_value(): a relative
tile_lock_dir was used as it is, i.e. relative to the working directory of the server process.  A tile request for a layer that
goes through renderd then creates its lock file under <cwd>/<tile_lock_dir> instead of <config dir>/<tile_lock_dir>.
(With `tile_lock_dir: locks` -- no directory part at all -- the request even dies with a RecursionError in ensure_directory.)

The demo starts a stub renderd (answers every job with "ok") on 127.0.0.1, loads a configuration with `tile_lock_dir: locks` from
<tmp>/conf, changes the working directory to <tmp>/elsewhere, requests one tile and lists where lock files were created (the lock
file creation is observed through os.open / open audit events).

Run: PYTHONPATH=<tree> /venv/bin/python demo_D20_renderd_tile_lock_dir_not_anchored.py   (exit 0 = holds, 1 = broken)"""
import io
import json
import os
import sys
import tempfile
import threading
from http.server import BaseHTTPRequestHandler, HTTPServer

CONF = """
services:
  tms:
layers:
  - name: lyr
    title: lyr
    sources: [c]
caches:
  c:
    grids: [GLOBAL_MERCATOR]
    sources: [src]
sources:
  src:
    type: wms
    req: {url: 'http://127.0.0.1:9/service', layers: a}
globals:
  cache:
    base_dir: cache_data
    tile_lock_dir: ./locks
  renderd:
    address: 'http://127.0.0.1:%d'
"""


class Renderd(BaseHTTPRequestHandler):
    def do_POST(self):
        n = int(self.headers.get('Content-Length', 0))
        self.rfile.read(n)
        body = json.dumps({'status': 'ok'}).encode()
        self.send_response(200)
        self.send_header('Content-type', 'application/json')
        self.send_header('Content-Length', str(len(body)))
        self.end_headers()
        self.wfile.write(body)

    def log_message(self, *a):
        pass


def main():
    srv = HTTPServer(('127.0.0.1', 0), Renderd)
    threading.Thread(target=srv.serve_forever, daemon=True).start()
    tmp = os.path.realpath(tempfile.mkdtemp(prefix='d20'))
    confdir, elsewhere = os.path.join(tmp, 'conf'), os.path.join(tmp, 'elsewhere')
    os.makedirs(confdir)
    os.makedirs(elsewhere)
    with open(os.path.join(confdir, 'mapproxy.yaml'), 'w') as f:
        f.write(CONF % srv.server_port)
    from mapproxy.wsgiapp import make_wsgi_app
    app = make_wsgi_app(os.path.join(confdir, 'mapproxy.yaml'))
    os.chdir(elsewhere)
    created = []

    def audit(event, args):
        if event == 'open' and isinstance(args[0], (str, bytes)) and args[1] is not None or event == 'os.mkdir':
            p = os.fsdecode(args[0])
            if p.endswith('.lck') or os.path.basename(p.rstrip('/')) == 'locks':
                created.append(os.path.realpath(p))
    sys.addaudithook(audit)
    environ = {
        'REQUEST_METHOD': 'GET', 'SCRIPT_NAME': '', 'PATH_INFO': '/tms/1.0.0/lyr/0/0/0.png', 'QUERY_STRING': '',
        'SERVER_NAME': 'localhost', 'SERVER_PORT': '80', 'HTTP_HOST': 'localhost',
        'wsgi.url_scheme': 'http', 'wsgi.input': io.BytesIO(), 'wsgi.errors': io.StringIO(),
        'wsgi.version': (1, 0), 'wsgi.multithread': False, 'wsgi.multiprocess': False, 'wsgi.run_once': False,
    }
    status = {}
    b''.join(app(environ, lambda s, h, e=None: status.setdefault('s', s)))
    srv.shutdown()
    want = os.path.join(confdir, 'locks')
    print('request status: %s' % status.get('s'))
    print('configured lock directory: %s' % want)
    dirs = sorted({os.path.dirname(p) if not os.path.isdir(p) else p for p in created})
    for d in dirs:
        print('lock files / directories touched: %s' % d)
    outside = [d for d in dirs if not (d + os.sep).startswith(want + os.sep) and d != want]
    if not created:
        print('no lock file creation observed: the demo did not reach the locked section')
        return 2
    if outside:
        print('C09 BROKEN: tile lock files created outside the configured lock directory: %s' % outside)
        return 1
    print('C09 holds: lock files only under the configured lock directory')
    return 0


if __name__ == '__main__':
    sys.exit(main())
