"""D46 (C20): a WMS-C request (tiled=true) for a tile that could only be answered with the uncached fill image of an `on_error` rule
(cache: false) got `Cache-control: public, max-age=..`, an ETag and Last-Modified *and* `Cache-Control: no-cache, no-store`: both
branches of WMSServer.map ran.  A client or proxy honouring the first keeps the fill image.   usage: demo.py [repo root]"""
import os
import shutil
import sys
import tempfile
sys.path.insert(0, sys.argv[1] if len(sys.argv) > 1 else '/repo')
from webtest import TestApp
import mapproxy.client.http as http_mod
from mapproxy.wsgiapp import make_wsgi_app

CONF = '''
services:
  wms:
    md: {title: demo}
layers:
  - name: a
    title: a
    sources: [a_cache]
caches:
  a_cache:
    grids: [GLOBAL_GEODETIC]
    sources: [up]
    meta_size: [1, 1]
sources:
  up:
    type: wms
    req: {url: 'http://upstream.invalid/wms', layers: x}
    on_error:
      500:
        response: '#ff0000'
        cache: false
globals:
  cache:
    base_dir: %(d)s/cache_data
    lock_dir: %(d)s/locks
    tile_lock_dir: %(d)s/tile_locks
'''


def fake_open(self, url, data=None, **kw):
    raise http_mod.HTTPClientError('HTTP Error "%s": 500' % url, response_code=500)


http_mod.HTTPClient.open = fake_open
d = tempfile.mkdtemp(prefix='d46_')
bad = 0
try:
    with open(os.path.join(d, 'mapproxy.yaml'), 'w') as f:
        f.write(CONF % {'d': d})
    app = TestApp(make_wsgi_app(os.path.join(d, 'mapproxy.yaml')))
    url = ('/service?SERVICE=WMS&VERSION=1.1.1&REQUEST=GetMap&LAYERS=a&STYLES=&SRS=EPSG:4326&BBOX=0,0,90,90'
           '&WIDTH=256&HEIGHT=256&FORMAT=image/png&TILED=true')
    resp = app.get(url, expect_errors=True)
    cc = [v for k, v in resp.headerlist if k.lower() == 'cache-control']
    val = [k for k, v in resp.headerlist if k.lower() in ('etag', 'last-modified')]
    print('status %s, Cache-Control headers: %r, validators: %r' % (resp.status, cc, val))
    if not cc or any('no-store' not in v for v in cc) or val:
        bad += 1
        print('the uncached fill image must carry no-store only, and no validators')
    if val and 'ETag' in dict(resp.headerlist):
        r2 = app.get(url, headers={'If-None-Match': resp.headers['ETag']}, expect_errors=True)
        print('revalidation with that ETag ->', r2.status)
finally:
    shutil.rmtree(d)
print('BROKEN' if bad else 'OK')
sys.exit(1 if bad else 0)
