"""D26 (C20): "304 is never sent unless the client's validator matches the tile as currently stored."

The compact cache (ArcGIS bundles, version 1 and 2) set neither `size` nor `timestamp` on the tiles it loads.  The tile services
build the ETag as md5(str(timestamp) + str(size)): every tile of every compact cache carried the same constant ETag
c7485dcc8d256a6f197ed7802687f252 = md5("NoneNone") and no Last-Modified.  A client that revalidates a tile (If-None-Match) is
answered 304 for ever -- also after the tile was rewritten with other content (re-seed, refresh), and with the validator it got
for any other tile.  (The sqlite backends without time stamps record at least the size; the file cache size and mtime.)

The demo requests a tile from a compact cache, rewrites the tile through the cache with another image (as a re-seed does) and
revalidates with the ETag received first.

Run: PYTHONPATH=<tree> /venv/bin/python demo_D26_compact_cache_constant_etag.py   (exit 0 = holds, 1 = broken)"""
import hashlib
import io
import os
import sys
import tempfile
import urllib.parse

from PIL import Image

import mapproxy.client.http as http

CONF = """
services:
  tms:
layers:
  - name: lyr
    title: lyr
    sources: [c]
caches:
  c:
    grids: [GLOBAL_MERCATOR]
    sources: [src]
    meta_size: [1, 1]
    cache: {type: compact, version: %(version)s, directory: '%(tmp)s/cc'}
sources:
  src:
    type: wms
    req: {url: 'http://upstream.invalid/service', layers: a}
globals:
  cache:
    base_dir: '%(tmp)s'
    lock_dir: '%(tmp)s/locks'
    tile_lock_dir: '%(tmp)s/tile_locks'
"""
UPSTREAM = {'n': 0}


class FakeResponse(io.BytesIO):
    code = 200
    headers = {'Content-type': 'image/png'}


def noise(seed, size):
    import random
    rnd = random.Random(seed)
    img = Image.new('RGB', size)
    img.putdata([(rnd.randrange(256), rnd.randrange(256), rnd.randrange(256)) for _ in range(size[0] * size[1])])
    return img


def fake_open(self, url, data=None, method=None):
    q = {k.lower(): v[0] for k, v in urllib.parse.parse_qs(urllib.parse.urlsplit(url).query).items()}
    UPSTREAM['n'] += 1
    buf = io.BytesIO()
    noise(UPSTREAM['n'], (int(q['width']), int(q['height']))).save(buf, 'png')
    return FakeResponse(buf.getvalue())


def call(app, path, extra=None):
    environ = {
        'REQUEST_METHOD': 'GET', 'SCRIPT_NAME': '', 'PATH_INFO': path, 'QUERY_STRING': '',
        'SERVER_NAME': 'localhost', 'SERVER_PORT': '80', 'HTTP_HOST': 'localhost',
        'wsgi.url_scheme': 'http', 'wsgi.input': io.BytesIO(), 'wsgi.errors': io.StringIO(),
        'wsgi.version': (1, 0), 'wsgi.multithread': False, 'wsgi.multiprocess': False, 'wsgi.run_once': False,
    }
    environ.update(extra or {})
    result = {}

    def start_response(status, headers, exc_info=None):
        result['status'], result['headers'] = status, {k.lower(): v for k, v in headers}
    body = b''.join(app(environ, start_response))
    return result['status'], result['headers'], body


def main():
    from mapproxy.wsgiapp import make_wsgi_app
    from mapproxy.cache.tile import Tile
    from mapproxy.image import ImageSource
    from mapproxy.image.opts import ImageOptions
    from mapproxy.cache.compact import CompactCacheV1, CompactCacheV2
    http.HTTPClient.open = fake_open
    bad = []
    for version, cls in ((1, CompactCacheV1), (2, CompactCacheV2)):
        tmp = tempfile.mkdtemp(prefix='d26')
        conf = os.path.join(tmp, 'mapproxy.yaml')
        with open(conf, 'w') as f:
            f.write(CONF % {'tmp': tmp, 'version': version})
        app = make_wsgi_app(conf)
        path = '/tms/1.0.0/lyr/1/0/0.png'
        call(app, path)                                    # creates the tile
        status, headers, body1 = call(app, path)           # served from the cache
        etag = headers.get('etag')
        _, headers_other, _ = call(app, '/tms/1.0.0/lyr/1/1/1.png')
        call(app, '/tms/1.0.0/lyr/1/1/1.png')
        _, headers_other, _ = call(app, '/tms/1.0.0/lyr/1/1/1.png')
        print('compact v%d: tile 1/0/0 ETag %s, tile 1/1/1 ETag %s' % (version, etag, headers_other.get('etag')))
        if etag == hashlib.md5(b'NoneNone').hexdigest():
            bad.append('v%d: the ETag is md5("NoneNone"), the same for every tile' % version)
        # rewrite the tile (TMS 1/0/0 is level 2 of the grid) with another image, as a re-seed / refresh does
        cache = cls(os.path.join(tmp, 'cc'))
        new = Tile((0, 0, 2), ImageSource(noise(99, (256, 256)), image_opts=ImageOptions(format='image/png')))
        cache.store_tile(new)
        status, headers, body2 = call(app, path, {'HTTP_IF_NONE_MATCH': etag})
        fresh = call(app, path)[2]
        print('compact v%d: after the tile was rewritten (body changed: %s) a request with the old ETag is answered %s' % (
            version, fresh != body1, status))
        if fresh != body1 and status.startswith('304'):
            bad.append('v%d: 304 for a validator that does not match the tile as currently stored' % version)
    if bad:
        print('C20 BROKEN:\n  ' + '\n  '.join(bad))
        return 1
    print('C20 holds')
    return 0


if __name__ == '__main__':
    sys.exit(main())
