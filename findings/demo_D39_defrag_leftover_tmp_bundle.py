"""D39 (C19/C06): an interrupted defragmentation leaves tmp_defrag.bundle in the cache directory; the next run stored into that
file instead of a fresh one, so tiles of the interrupted bundle appeared at addresses of another bundle.
usage: demo.py [repo root]"""
import os
import shutil
import sys
import tempfile
sys.path.insert(0, sys.argv[1] if len(sys.argv) > 1 else '/repo')
from io import BytesIO
from mapproxy.cache.compact import CompactCacheV1, CompactCacheV2
from mapproxy.cache.tile import Tile
from mapproxy.image import ImageSource
from mapproxy.script.defrag import defrag_compact_cache

bad = 0
for cls in (CompactCacheV1, CompactCacheV2):
    d = tempfile.mkdtemp(prefix='d39_')
    try:
        cache = cls(d)
        # bundle with fragmentation: every tile stored twice
        for rnd in (b'old', b'new'):
            for x in range(4):
                t = Tile((x, 0, 4), ImageSource(BytesIO(rnd + b'-tile-%d' % x + b'.' * 2000)))
                cache.store_tile(t)
        # what an interrupted earlier run left behind: the temporary bundle with a tile of some other bundle at (9, 9)
        left = cache.bundle_class(os.path.join(d, 'tmp_defrag'), (0, 0))
        left.store_tile(Tile((9, 9, 0), ImageSource(BytesIO(b'foreign' + b'.' * 500))))

        def content(coord):
            t = Tile(coord)
            cache.load_tile(t)
            return t.source.as_buffer().read() if t.source else None
        before = {c: content(c) for c in [(x, 0, 4) for x in range(4)] + [(9, 9, 4)]}
        defrag_compact_cache(cache, min_percent=0.0, min_bytes=0)
        cache = cls(d)
        after = {c: content(c) for c in before}
        for c in sorted(before):
            if before[c] != after[c]:
                bad += 1
                print('%s: defragmentation changed address %r: %r -> %r' % (
                    cls.__name__, c, before[c] and before[c][:12], after[c] and after[c][:12]))
    finally:
        shutil.rmtree(d)
print('BROKEN: %d addresses changed' % bad if bad else 'OK')
sys.exit(1 if bad else 0)
