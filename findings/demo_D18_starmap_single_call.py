"""D18 (C15): "the caller receives one result per input".  ThreadPool.starmap/starcall took the no-threads shortcut when the first
*argument tuple* had one element (len(args[0]) == 1) instead of when there was one *input*: several unary (or zero-argument) calls
returned a single result.   exit 0 = holds, 1 = broken"""
import sys
from mapproxy.util.async_ import ThreadPool, starmap, starcall

ok = True
for size in (1, 2, 4):
    p = ThreadPool(size)
    r1 = list(p.starmap(lambda x: x * 10, [(1,), (2,), (3,)]))
    r2 = list(p.starcall([(lambda: 'a',), (lambda: 'b',)]))
    r3 = list(p.starmap(lambda x, y: x + y, [(1, 2)]))
    print('pool %d: unary starmap -> %r, zero-argument starcall -> %r, single binary -> %r' % (size, r1, r2, r3))
    ok = ok and r1 == [10, 20, 30] and r2 == ['a', 'b'] and r3 == [3]
print(list(starmap(lambda x: -x, [(1,), (2,)])), list(starcall([(len, 'a'), (len, 'bb')])))
ok = ok and list(starmap(lambda x: -x, [(1,), (2,)])) == [-1, -2]
print('PASS' if ok else 'FAIL: fewer results than inputs')
sys.exit(0 if ok else 1)
