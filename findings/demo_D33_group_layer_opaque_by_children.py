"""D33 (C14): "Skipping layers that lie under a layer declared opaque ... never change[s] the result compared with doing the full
composition."

A WMS group layer that has sources of its own renders only those when the group itself is requested
(WMSGroupLayer.map_layers_for_query: `if self.this: return self.this.map_layers_for_query(query)`).  Whether the layers *below* the
group may be skipped was decided by WMSGroupLayer.is_opaque = "any child layer is opaque" -- children that are not drawn at all in
that request.  With a transparent source on the group and an opaque child, LAYERS=base,group pruned `base`: the answer showed the
transparent group source over the background colour instead of over `base`.

The upstream stub answers LAYERS=base with red, LAYERS=labels with a transparent image that has one opaque blue square, and
LAYERS=ortho with opaque green.

Run: PYTHONPATH=<tree> /venv/bin/python demo_D33_group_layer_opaque_by_children.py   (exit 0 = holds, 1 = broken)"""
import io
import os
import sys
import tempfile
import urllib.parse

from PIL import Image

from mapproxy.client import http as http_client

CONF = """
services:
  wms:
    md: {title: demo}
layers:
  - name: base
    title: base
    sources: [base_src]
  - name: group
    title: group with own sources and a child
    sources: [labels_src]
    layers:
      - name: ortho
        title: opaque child
        sources: [ortho_src]
sources:
  base_src:
    type: wms
    req: {url: 'http://upstream-a.invalid/service', layers: base, transparent: false}
  labels_src:
    type: wms
    req: {url: 'http://upstream-b.invalid/service', layers: labels, transparent: true}
  ortho_src:
    type: wms
    req: {url: 'http://upstream-c.invalid/service', layers: ortho, transparent: false}
"""
RED, GREEN, BLUE = (255, 0, 0), (0, 200, 0), (0, 0, 255)
SEEN = []


class FakeResponse(io.BytesIO):
    code = 200
    headers = {'Content-type': 'image/png'}


def fake_open(self, url, data=None, method=None):
    q = {k.lower(): v[0] for k, v in urllib.parse.parse_qs(urllib.parse.urlsplit(url).query).items()}
    SEEN.append(q.get('layers'))
    size = (int(q['width']), int(q['height']))
    if q.get('layers') == 'labels':
        img = Image.new('RGBA', size, (0, 0, 0, 0))
        img.paste(BLUE + (255,), (0, 0, 20, 20))
    else:
        img = Image.new('RGB', size, RED if q.get('layers') == 'base' else GREEN)
    buf = io.BytesIO()
    img.save(buf, 'png')
    return FakeResponse(buf.getvalue())


def call(app, query):
    environ = {
        'REQUEST_METHOD': 'GET', 'SCRIPT_NAME': '', 'PATH_INFO': '/service', 'QUERY_STRING': query,
        'SERVER_NAME': 'localhost', 'SERVER_PORT': '80', 'HTTP_HOST': 'localhost',
        'wsgi.url_scheme': 'http', 'wsgi.input': io.BytesIO(), 'wsgi.errors': io.StringIO(),
        'wsgi.version': (1, 0), 'wsgi.multithread': False, 'wsgi.multiprocess': False, 'wsgi.run_once': False,
    }
    result = {}

    def start_response(status, headers, exc_info=None):
        result['status'] = status
    body = b''.join(app(environ, start_response))
    return result['status'], body


def main():
    from mapproxy.wsgiapp import make_wsgi_app
    http_client.HTTPClient.open = fake_open
    tmp = tempfile.mkdtemp(prefix='d33')
    conf = os.path.join(tmp, 'mapproxy.yaml')
    with open(conf, 'w') as f:
        f.write(CONF)
    app = make_wsgi_app(conf)
    bad = []
    for layers, want_mid, want_corner in (('base,group', RED, BLUE), ('base,ortho', GREEN, GREEN), ('base', RED, RED)):
        del SEEN[:]
        status, body = call(app, 'SERVICE=WMS&VERSION=1.1.1&REQUEST=GetMap&LAYERS=%s&STYLES=&SRS=EPSG:4326&BBOX=0,0,10,10'
                                 '&WIDTH=100&HEIGHT=100&FORMAT=image/png' % layers)
        img = Image.open(io.BytesIO(body)).convert('RGB') if status.startswith('200') else None
        mid, corner = (img.getpixel((60, 60)), img.getpixel((5, 5))) if img else (None, None)
        ok = mid == want_mid and corner == want_corner
        print('LAYERS=%-11s -> %s, upstream layers requested %s, pixel (60,60) %s, pixel (5,5) %s: %s' % (
            layers, status, sorted(set(SEEN)), mid, corner, 'ok' if ok else 'DIFFERENT from the composition %s / %s' % (want_mid, want_corner)))
        if not ok:
            bad.append(layers)
    if bad:
        print('C14 BROKEN: pruning under a group that is "opaque" because of a child it does not draw changed the result for LAYERS=%s' % bad)
        return 1
    print('C14 holds')
    return 0


if __name__ == '__main__':
    sys.exit(main())
