"""D25 (C18): "XML and HTML error documents ... never contain a stack trace or file-system path of the server."

A cached tile that cannot be decoded (truncated by a crash, disk error) makes PIL raise an IOError whose text names the file:
"cannot identify image file <_io.BufferedReader name='/srv/.../cache_data/.../000.png'>".  CacheMapLayer._image wrapped that text
into the SourceError it raises ("unable to transform image: %s" % ex), WMSServer.map did the same for errors of the final
encoding step ("error while processing image file: %s" % ex); both messages are sent to the client in the service exception
report: any client can read the absolute path of the cache directory.

The demo fills a file cache through TMS, overwrites the stored tiles with garbage and sends GetMap requests that have to decode a
tile (another format / size / SRS).  Every answer is searched for the cache directory.

Run: PYTHONPATH=<tree> /venv/bin/python demo_D25_file_path_in_exception_report.py   (exit 0 = holds, 1 = broken)"""
import io
import os
import sys
import tempfile
import urllib.parse

from PIL import Image

import mapproxy.client.http as http

CONF = """
services:
  wms:
    md: {title: demo}
  tms:
layers:
  - name: lyr
    title: lyr
    sources: [c]
caches:
  c:
    grids: [GLOBAL_MERCATOR]
    sources: [src]
    cache: {type: file, directory: '%(tmp)s/secret_cache_dir'}
sources:
  src:
    type: wms
    req: {url: 'http://upstream.invalid/service', layers: a}
globals:
  cache:
    base_dir: '%(tmp)s'
    lock_dir: '%(tmp)s/locks'
    tile_lock_dir: '%(tmp)s/tile_locks'
"""


class FakeResponse(io.BytesIO):
    code = 200
    headers = {'Content-type': 'image/png'}


def fake_open(self, url, data=None, method=None):
    q = {k.lower(): v[0] for k, v in urllib.parse.parse_qs(urllib.parse.urlsplit(url).query).items()}
    buf = io.BytesIO()
    Image.new('RGB', (int(q['width']), int(q['height'])), (0, 200, 0)).save(buf, 'png')
    return FakeResponse(buf.getvalue())


def call(app, path, qs=''):
    environ = {
        'REQUEST_METHOD': 'GET', 'SCRIPT_NAME': '', 'PATH_INFO': path, 'QUERY_STRING': qs,
        'SERVER_NAME': 'localhost', 'SERVER_PORT': '80', 'HTTP_HOST': 'localhost',
        'wsgi.url_scheme': 'http', 'wsgi.input': io.BytesIO(), 'wsgi.errors': io.StringIO(),
        'wsgi.version': (1, 0), 'wsgi.multithread': False, 'wsgi.multiprocess': False, 'wsgi.run_once': False,
    }
    result = {}

    def start_response(status, headers, exc_info=None):
        result['status'] = status
    body = b''.join(app(environ, start_response))
    return result['status'], body


def corrupt(directory):
    n = 0
    for root, _, files in os.walk(directory):
        for f in files:
            with open(os.path.join(root, f), 'wb') as fh:
                fh.write(b'this is not an image')
            n += 1
    return n


def main():
    import logging
    logging.disable(logging.CRITICAL)
    from mapproxy.wsgiapp import make_wsgi_app
    http.HTTPClient.open = fake_open
    tmp = tempfile.mkdtemp(prefix='d25')
    conf = os.path.join(tmp, 'mapproxy.yaml')
    with open(conf, 'w') as f:
        f.write(CONF % {'tmp': tmp})
    app = make_wsgi_app(conf)
    cache_dir = os.path.join(tmp, 'secret_cache_dir')
    base = 'SERVICE=WMS&VERSION=1.1.1&REQUEST=GetMap&LAYERS=lyr&STYLES=&'
    tile = 'SRS=EPSG:3857&BBOX=-20037508.342789244,-20037508.342789244,0,0'
    requests = [
        ('one tile, other format', base + tile + '&WIDTH=256&HEIGHT=256&FORMAT=image/jpeg'),
        ('one tile, transparent', base + tile + '&WIDTH=256&HEIGHT=256&FORMAT=image/png&TRANSPARENT=true'),
        ('one tile, in-image errors', base + tile + '&WIDTH=256&HEIGHT=256&FORMAT=image/jpeg&EXCEPTIONS=application/vnd.ogc.se_inimage'),
        ('one tile, scaled', base + tile + '&WIDTH=100&HEIGHT=100&FORMAT=image/png'),
        ('other SRS', base + 'SRS=EPSG:4326&BBOX=-180,-80,0,0&WIDTH=200&HEIGHT=100&FORMAT=image/png'),
        ('1.3.0, one tile, other format', base.replace('1.1.1', '1.3.0') + tile.replace('SRS', 'CRS') + '&WIDTH=256&HEIGHT=256&FORMAT=image/jpeg'),
    ]
    bad = []
    for label, qs in requests:
        call(app, '/tms/1.0.0/lyr/1/0/0.png')          # (re)fill the cache
        call(app, '/tms/1.0.0/lyr/0/0/0.png')
        n = corrupt(cache_dir)
        status, body = call(app, '/service', qs)
        leaked = tmp.encode() in body or b'secret_cache_dir' in body
        text = body[:200].decode('latin1').replace('\n', ' ') if not body[:4] in (b'\x89PNG', b'\xff\xd8\xff\xe0') else '<image>'
        print('%-30s (%d corrupt tiles) -> %s %s%s' % (label, n, status, 'LEAKS THE CACHE PATH: ' if leaked else '', text if leaked else ''))
        if leaked:
            bad.append(label)
    if bad:
        print('C18 BROKEN: the exception report names the cache directory of the server for: %s' % ', '.join(bad))
        return 1
    print('C18 holds: no answer contains the cache directory')
    return 0


if __name__ == '__main__':
    sys.exit(main())
