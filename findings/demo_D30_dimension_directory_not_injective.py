"""D30 (C05): "operations on one address never change what another address returns, including ... tiles that differ only in a
dimension value."

The directory of a dimension value is built by _dimension_dirname, which makes the value safe for use as one path segment.  It
replaced the separators '/' and '\\' by '_' -- a mapping that is not injective: TIME=a/b and TIME=a_b (both can reach the cache of a
layer through WMS, which forwards any TIME / ELEVATION / DIM_* value) were stored in the same directory.  After a tile was stored
for one of them, the other one loaded it.

Run: PYTHONPATH=<tree> /venv/bin/python demo_D30_dimension_directory_not_injective.py   (exit 0 = holds, 1 = broken)"""
import itertools
import sys
import tempfile

from PIL import Image


def main():
    from mapproxy.cache.file import FileCache
    from mapproxy.cache.tile import Tile
    from mapproxy.image import ImageSource
    from mapproxy.image.opts import ImageOptions
    from mapproxy.cache.path import dimensions_part
    values = ['a/b', 'a_b', 'a\\b', 'a%2Fb', 'a%b', 'a%25b', '..', '../x', '.._x', '2020-01-01T00:00:00Z']
    bad = []
    dirs = {}
    for v in values:
        d = dimensions_part({'time': v})
        if '/' in d.replace('\\', '/').strip('/') or d in ('..', '.'):
            bad.append('value %r becomes more than one path segment: %r' % (v, d))
        dirs.setdefault(d, []).append(v)
    for d, vs in dirs.items():
        if len(vs) > 1:
            bad.append('values %s share the directory %r' % (vs, d))
    print('directories: %s' % {v: dimensions_part({'time': v}) for v in values})
    cache = FileCache(tempfile.mkdtemp(prefix='d30'), 'png')
    opts = ImageOptions(format='image/png')
    for (i, a), (j, b) in itertools.combinations(enumerate(values), 2):
        ta = Tile((0, 0, 0), ImageSource(Image.new('RGB', (8, 8), (i * 20, 0, 0)), image_opts=opts))
        cache.store_tile(ta, dimensions={'time': a})
        tb = Tile((0, 0, 0))
        if cache.is_cached(tb, dimensions={'time': b}) and i != j:
            msg = 'a tile stored for time=%r is found for time=%r' % (a, b)
            if msg not in bad:
                bad.append(msg)
        cache.remove_tile(Tile((0, 0, 0)), dimensions={'time': a})
    if bad:
        print('C05 BROKEN:\n  ' + '\n  '.join(bad))
        return 1
    print('C05 holds: every dimension value has a directory of its own')
    return 0


if __name__ == '__main__':
    sys.exit(main())
