"""D40 (C12/C13): a cache with its own `refresh_before` ignored the time of the running clean-up / seed task: TileManager.expire_timestamp
preferred the cache-level rule.  A clean-up limited to a coverage (tile walk) with remove_before = 30 days removed tiles that were two
days old; a seed task's refresh_before was ignored likewise.   usage: demo.py [repo root]"""
import os
import shutil
import sys
import tempfile
import time
sys.path.insert(0, sys.argv[1] if len(sys.argv) > 1 else '/repo')
from io import BytesIO
from mapproxy.cache.file import FileCache
from mapproxy.cache.tile import Tile, TileManager
from mapproxy.grid import tile_grid
from mapproxy.image import ImageSource
from mapproxy.image.opts import ImageOptions
from mapproxy.seed.cleanup import cleanup
from mapproxy.seed.seeder import CleanupTask
from mapproxy.util.coverage import BBOXCoverage
from mapproxy.srs import SRS

d = tempfile.mkdtemp(prefix='d40_')
bad = 0
try:
    grid = tile_grid(4326, num_levels=3)
    cache = FileCache(d, 'png')
    from mapproxy.cache.base import TileLocker
    mgr = TileManager(grid, cache, [], 'png', TileLocker(os.path.join(d, 'locks'), 10, 'x'), image_opts=ImageOptions(format='image/png'))
    mgr._refresh_before = {'hours': 1}                 # the cache's own rule in mapproxy.yaml
    now = time.time()
    ages = {(0, 0, 1): 2 * 86400, (1, 0, 1): 40 * 86400}     # two days / forty days old
    for coord, age in ages.items():
        t = Tile(coord, ImageSource(BytesIO(b'x' * 100)))
        cache.store_tile(t)
        os.utime(cache.tile_location(Tile(coord)), (now - age, now - age))
    task = CleanupTask({'name': 'c', 'cache_name': 'c', 'grid_name': 'g'}, mgr, [1], remove_timestamp=now - 30 * 86400, remove_all=False,
                       coverage=BBOXCoverage([-180, -90, 180, 90], SRS(4326)), complete_extent=False)
    cleanup([task], concurrency=1, verbose=False)
    left = {c: os.path.exists(cache.tile_location(Tile(c))) for c in ages}
    print('after a clean-up with remove_before = 30 days:', left)
    if left != {(0, 0, 1): True, (1, 0, 1): False}:
        bad += 1
        print('  expected the 2 day old tile to stay and the 40 day old tile to go')
    # seed side: the age a seed task with refresh_before = 30 days goes by
    mgr._expire_timestamp = now - 30 * 86400
    got = mgr.expire_timestamp()
    if abs(got - (now - 30 * 86400)) > 5:
        bad += 1
        print('seed task threshold 30 days, tile manager uses %.1f days' % ((now - got) / 86400.0))
finally:
    shutil.rmtree(d)
print('BROKEN: %d' % bad if bad else 'OK')
sys.exit(1 if bad else 0)
