"""D19 (C17): "A source ... whose configured resolution range excludes the resolution of the request it is asked to answer,
is not contacted at all."

A WMS layer with two WMS sources on the same upstream URL: `detail` (max_res: 10, i.e. only for resolutions finer than 10 m/px) and
`overview` (no limit).  For an uncached GetMap, adjacent sources with the same URL are combined into one upstream request
(LayerRenderer.render -> combined_layers -> WMSSource.combined_layer).  WMSSource._is_compatible did not compare the resolution
ranges and the combined source was built with res_range=None ("layer outside res_range should already be filtered out" -- but the
layer-level filter uses the *merged* range of all sources of the layer, which is unlimited here).  So at 1000 m/px the request
LAYERS=detail,overview is sent: the `detail` source is contacted far outside its range.  Requested alone, `detail` is not contacted.

Run: PYTHONPATH=<tree> /venv/bin/python demo_D19_combined_sources_ignore_res_range.py   (exit 0 = holds, 1 = broken)"""
import io
import os
import sys
import tempfile

from PIL import Image

from mapproxy.wsgiapp import make_wsgi_app
from mapproxy.client import http as http_client

CONF = """
services:
  wms:
    md: {title: demo}
layers:
  - name: both
    title: both
    sources: [detail, overview]
  - name: only_detail
    title: only detail
    sources: [detail]
sources:
  detail:
    type: wms
    min_res: 10
    req: {url: 'http://upstream.invalid/service', layers: detail, transparent: true}
  overview:
    type: wms
    req: {url: 'http://upstream.invalid/service', layers: overview, transparent: true}
"""
SEEN = []


class FakeResponse(io.BytesIO):
    code = 200
    headers = {'Content-type': 'image/png'}


def fake_open(self, url, data=None, method=None):
    SEEN.append(url)
    buf = io.BytesIO()
    Image.new('RGBA', (200, 200), (0, 0, 0, 0)).save(buf, 'png')
    return FakeResponse(buf.getvalue())


def call(app, query):
    environ = {
        'REQUEST_METHOD': 'GET', 'SCRIPT_NAME': '', 'PATH_INFO': '/service', 'QUERY_STRING': query,
        'SERVER_NAME': 'localhost', 'SERVER_PORT': '80', 'HTTP_HOST': 'localhost',
        'wsgi.url_scheme': 'http', 'wsgi.input': io.BytesIO(), 'wsgi.errors': io.StringIO(),
        'wsgi.version': (1, 0), 'wsgi.multithread': False, 'wsgi.multiprocess': False, 'wsgi.run_once': False,
    }
    result = {}

    def start_response(status, headers, exc_info=None):
        result['status'] = status
    b''.join(app(environ, start_response))
    return result['status']


def layers_of(url):
    import urllib.parse
    q = urllib.parse.parse_qs(urllib.parse.urlsplit(url).query)
    q = {k.lower(): v for k, v in q.items()}
    return q.get('layers', [''])[0].split(',')


def main():
    http_client.HTTPClient.open = fake_open
    tmp = tempfile.mkdtemp(prefix='d19')
    conf = os.path.join(tmp, 'mapproxy.yaml')
    with open(conf, 'w') as f:
        f.write(CONF)
    app = make_wsgi_app(conf)
    bad = []
    # 200 px over 200 km / 2 km: 1000 m/px and 10 m/px (coarser than / equal to the limit of `detail`: outside), 5 m/px: inside
    for label, width, expect_detail in (('1000 m/px', 200000, False), ('5 m/px', 1000, True)):
        for lyr in ('both', 'only_detail'):
            del SEEN[:]
            bbox = '500000,5000000,%d,%d' % (500000 + width, 5000000 + width)
            status = call(app, 'SERVICE=WMS&VERSION=1.1.1&REQUEST=GetMap&LAYERS=%s&STYLES=&SRS=EPSG:3857&BBOX=%s'
                               '&WIDTH=200&HEIGHT=200&FORMAT=image/png' % (lyr, bbox))
            asked = sorted({l for u in SEEN for l in layers_of(u)})
            print('%-11s at %-9s -> %s, upstream layers requested: %s' % (lyr, label, status, asked))
            if ('detail' in asked) != expect_detail:
                bad.append((lyr, label, asked))
    if bad:
        print('C17 BROKEN: source `detail` (min_res: 10) %s' % '; '.join(
            '%s at %s: requested %s' % b for b in bad))
        return 1
    print('C17 holds: `detail` is contacted only inside its resolution range')
    return 0


if __name__ == '__main__':
    sys.exit(main())
