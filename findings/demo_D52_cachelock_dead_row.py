"""D52 (C07): CacheLocker._poll (the lock mapproxy-seed --use-cache-lock takes per cache, a queue in the sqlite lock file
.mapproxy_seed.lck) removed the row of a dead process with the cursor it was iterating over, which ends the iteration: with the rows
[dead holder D (crashed inside the lock), live waiter W1, we] the loop stopped after D, no live row had been seen, and we got the lock
although W1 is in front of us -- W1 is then the first live row and gets it too on its next poll: two processes inside.
(found by the round-7 sub-agent for C07; script taken from its notes)   usage: demo.py [repo root]"""
import os, sqlite3, subprocess, sys, tempfile, time
sys.path.insert(0, sys.argv[1] if len(sys.argv) > 1 else '/repo')
from mapproxy.seed import cachelock
from mapproxy.seed.cachelock import CacheLocker, CacheLockedError

tmp = tempfile.mkdtemp()
path = os.path.join(tmp, 'l.lck')
locker = CacheLocker(path)

# a pid that is certainly dead
p = subprocess.Popen([sys.executable, '-c', 'pass']); p.wait(); dead = p.pid
# a live other process that is waiting in the queue (its row is there, it is running)
live = subprocess.Popen([sys.executable, '-c', 'import time; time.sleep(30)'])

db = sqlite3.connect(path)
db.execute("INSERT INTO cache_locks (cache_name, pid, created) VALUES ('foo', ?, ?)", (dead, time.time() - 10))
db.execute("INSERT INTO cache_locks (cache_name, pid, created) VALUES ('foo', ?, ?)", (live.pid, time.time() - 5))
db.commit(); db.close()

# W2 (we) arrive: W1 is alive and in front of us, so we must not get the lock
try:
    with locker.lock('foo', no_block=True):
        got = True
except CacheLockedError:
    got = False
# and W1 (first live row) will also get it on its next poll
cur = sqlite3.connect(path); cur.row_factory = sqlite3.Row; c = cur.cursor()
print('we (behind a live waiter) got the lock:', got)
live.kill()
sys.exit(1 if got else 0)
