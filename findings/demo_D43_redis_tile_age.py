"""D43 (C13/C20): RedisCache.load_tile_metadata derives the time a tile was written from the remaining time-to-live of its key:
written = now - ttl + remaining.  The code subtracted the remaining time, so a tile looked older than it is by twice the remaining
TTL: with ttl 1 h a tile written a minute ago looked almost two hours old and every refresh rule up to that age fetched it again.
(A stand-in for the redis client is used: set / pexpire / ttl / memory_usage / pipeline as the cache calls them.)
usage: demo.py [repo root]"""
import sys
import time
import types
sys.path.insert(0, sys.argv[1] if len(sys.argv) > 1 else '/repo')

CLOCK = [time.time()]
fake = types.ModuleType('redis')


class Pipe:
    def __init__(self, r):
        self.r, self.ops = r, []

    def ttl(self, k):
        self.ops.append(('ttl', k))

    def memory_usage(self, k):
        self.ops.append(('mem', k))

    def execute(self):
        return [self.r.ttl(k) if op == 'ttl' else len(self.r.data[k][0]) for op, k in self.ops]


class StrictRedis:
    def __init__(self, **kw):
        self.data = {}

    def set(self, k, v):
        self.data[k] = [v, None]
        return True

    def pexpire(self, k, ms):
        self.data[k][1] = CLOCK[0] + ms / 1000.0

    def ttl(self, k):
        exp = self.data[k][1]
        return -1 if exp is None else int(round(exp - CLOCK[0]))

    def pipeline(self):
        return Pipe(self)


fake.StrictRedis = StrictRedis
fake.exceptions = types.SimpleNamespace(ConnectionError=ConnectionError)
sys.modules['redis'] = fake
from io import BytesIO
from mapproxy.cache.redis import RedisCache
from mapproxy.cache.tile import Tile
from mapproxy.image import ImageSource

bad = 0
for age in (60, 1800, 3000):
    cache = RedisCache('h', 1, 'p', ttl=3600)
    CLOCK[0] = time.time() - age            # the moment the tile is written
    cache.store_tile(Tile((1, 2, 3), ImageSource(BytesIO(b'x' * 50))))
    CLOCK[0] = time.time()
    t = Tile((1, 2, 3))
    cache.load_tile_metadata(t)
    seen = time.time() - t.timestamp
    ok = abs(seen - age) < 5
    print('tile written %4d s ago: the cache reports an age of %6.0f s %s' % (age, seen, '' if ok else 'BROKEN'))
    bad += not ok
print('BROKEN: %d' % bad if bad else 'OK')
sys.exit(1 if bad else 0)
