"""D38 (C15): a pool of size >= 2 that handled a single item started no workers; shutdown(True) (what the consumers do when an item
failed) then left `None` sentinels in the task queue, which killed the workers of the next call at once: map() never returned.
usage: demo.py [repo root]"""
import sys
import threading
sys.path.insert(0, sys.argv[1] if len(sys.argv) > 1 else '/repo')
from mapproxy.util.async_ import ThreadPool


def work(x):
    if x == 'boom':
        raise ValueError(x)
    return 'done-%s' % x


bad = 0
for size in (2, 3, 4):
    pool = ThreadPool(size)
    for r in pool.imap(work, ['boom'], use_result_objects=True):
        if r.exception is not None:
            pool.shutdown(True)            # as LayerRenderer / the bulk meta tile creator do
    out = []
    t = threading.Thread(target=lambda: out.append(pool.map(work, ['a', 'b', 'c'])), daemon=True)
    t.start()
    t.join(5)
    if t.is_alive():
        print('pool size %d: the call after a stopped single-item call did not terminate' % size)
        bad += 1
    elif out != [['done-a', 'done-b', 'done-c']]:
        print('pool size %d: wrong results %r' % (size, out))
        bad += 1
    else:
        print('pool size %d: ok' % size)
print('BROKEN: %d' % bad if bad else 'OK')
sys.exit(1 if bad else 0)
