"""D32 (C10): "... every output pixel lying more than one pixel outside that geometry is fully transparent ..., pixels well inside
keep their content".

When an authorization callback limits a tile layer to a geometry, a tile that is only partly inside is clipped with
mask_image_source_from_coverage: the pixels outside are overwritten with transparent white (mask_image), then the image is put on a
fresh canvas with `result.paste(img, (0, 0), img)`.  On a transparent (RGBA) canvas, paste-with-itself-as-mask blends every pixel
with the canvas weighted by its own alpha: a semi-transparent pixel (10, 20, 30, 128) well inside the permitted area comes out as
(132, 137, 142, 64) -- the alpha is applied twice and the colour is mixed with the white of the canvas.  Opaque and fully
transparent pixels are unaffected, which is why it goes unnoticed with opaque maps.  (LayerMerger composes such images with
Image.alpha_composite.)

The demo serves a tile whose upstream image is half transparent (RGBA, alpha 128) through TMS, once unrestricted and once
limited to the western half of the tile (TMS 0/0/0 is the south-west quarter of the world), and compares a pixel well inside the permitted area.

Run: PYTHONPATH=<tree> /venv/bin/python demo_D32_clip_damages_semi_transparent_pixels.py   (exit 0 = holds, 1 = broken)"""
import io
import os
import sys
import tempfile
import urllib.parse

from PIL import Image

import mapproxy.client.http as http

CONF = """
services:
  tms:
layers:
  - name: lyr
    title: lyr
    sources: [c]
caches:
  c:
    grids: [GLOBAL_MERCATOR]
    sources: [src]
    meta_size: [1, 1]
    image: {transparent: true}
    cache: {type: file, directory: '%(tmp)s/c'}
sources:
  src:
    type: wms
    req: {url: 'http://upstream.invalid/service', layers: a, transparent: true}
globals:
  image:
    paletted: false
  cache:
    base_dir: '%(tmp)s'
    lock_dir: '%(tmp)s/locks'
    tile_lock_dir: '%(tmp)s/tile_locks'
"""
PIXEL = (10, 20, 30, 128)


class FakeResponse(io.BytesIO):
    code = 200
    headers = {'Content-type': 'image/png'}


def fake_open(self, url, data=None, method=None):
    q = {k.lower(): v[0] for k, v in urllib.parse.parse_qs(urllib.parse.urlsplit(url).query).items()}
    buf = io.BytesIO()
    Image.new('RGBA', (int(q['width']), int(q['height'])), PIXEL).save(buf, 'png')
    return FakeResponse(buf.getvalue())


def call(app, path, authorize=None):
    environ = {
        'REQUEST_METHOD': 'GET', 'SCRIPT_NAME': '', 'PATH_INFO': path, 'QUERY_STRING': '',
        'SERVER_NAME': 'localhost', 'SERVER_PORT': '80', 'HTTP_HOST': 'localhost',
        'wsgi.url_scheme': 'http', 'wsgi.input': io.BytesIO(), 'wsgi.errors': io.StringIO(),
        'wsgi.version': (1, 0), 'wsgi.multithread': False, 'wsgi.multiprocess': False, 'wsgi.run_once': False,
    }
    if authorize:
        environ['mapproxy.authorize'] = authorize
    result = {}

    def start_response(status, headers, exc_info=None):
        result['status'] = status
    body = b''.join(app(environ, start_response))
    return result['status'], body


def main():
    from mapproxy.wsgiapp import make_wsgi_app
    http.HTTPClient.open = fake_open
    tmp = tempfile.mkdtemp(prefix='d32')
    conf = os.path.join(tmp, 'mapproxy.yaml')
    with open(conf, 'w') as f:
        f.write(CONF % {'tmp': tmp})
    app = make_wsgi_app(conf)
    path = '/tms/1.0.0/lyr/0/0/0.png'

    def west_half(service, layers, environ, query_extent=None, **kw):
        return {'authorized': 'partial', 'layers': {'lyr': {'tile': True, 'limited_to': {
            'geometry': [-20037600, -20037600, -10018754.17, 100], 'srs': 'EPSG:3857'}}}}
    status, body = call(app, path)
    free = Image.open(io.BytesIO(body)).convert('RGBA')
    status2, body2 = call(app, path, authorize=west_half)
    limited = Image.open(io.BytesIO(body2)).convert('RGBA')
    inside, outside = (40, 128), (220, 128)
    print('unrestricted: %s, pixel well inside the area %s, in the other half %s' % (status, free.getpixel(inside), free.getpixel(outside)))
    print('limited to the western half: %s, pixel well inside the area %s, well outside %s' % (status2, limited.getpixel(inside), limited.getpixel(outside)))
    bad = []
    if limited.getpixel(outside)[3] != 0:
        bad.append('a pixel outside the permitted area is not fully transparent')
    if any(abs(a - b) > 2 for a, b in zip(limited.getpixel(inside), free.getpixel(inside))):
        bad.append('a pixel well inside the permitted area changed from %s to %s' % (free.getpixel(inside), limited.getpixel(inside)))
    if bad:
        print('C10 BROKEN: ' + '; '.join(bad))
        return 1
    print('C10 holds: outside transparent, inside unchanged')
    return 0


if __name__ == '__main__':
    sys.exit(main())
