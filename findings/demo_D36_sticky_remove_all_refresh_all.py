"""D36 (C12 / C13): "A cleanup task ... never removes ... a newer tile"; "a tile written after the threshold is served from the
cache without any upstream request".

One seed / clean-up entry can name several caches.  For a cache without tile time stamps (mbtiles, compact, geopackage) the task
has to fall back to "everything": CleanupConfiguration.cleanup_tasks sets `self.remove_all = True`, SeedConfiguration.seed_tasks
sets `self.refresh_all = True` -- on the configuration object, where it sticks.  Every cache that comes *after* such a cache in
the same entry inherits the flag although it has time stamps: the clean-up removes its fresh tiles, the seed re-fetches them.

The demo uses one clean-up entry for [mbtiles cache, file cache] (no remove_before: "older than the start of this run") and one seed
entry for the same pair with refresh_before: 1 hour, stores a fresh tile in the file cache and looks at the tasks that are built.

Run: PYTHONPATH=<tree> /venv/bin/python demo_D36_sticky_remove_all_refresh_all.py   (exit 0 = holds, 1 = broken)"""
import os
import sys
import tempfile

from PIL import Image

MAPPROXY_YAML = """
globals:
  cache:
    base_dir: './cache'
grids:
  small:
    base: GLOBAL_GEODETIC
    num_levels: 2
caches:
  a_mbtiles:
    sources: [src]
    grids: [small]
    cache: {type: mbtiles}
  b_files:
    sources: [src]
    grids: [small]
    cache: {type: file}
sources:
  src:
    type: wms
    req: {url: 'http://localhost:1/service?', layers: foo}
"""
SEED_YAML = """
seeds:
  both:
    caches: [a_mbtiles, b_files]
    grids: [small]
    levels: [0, 1]
    refresh_before:
      hours: 1
cleanups:
  both:
    caches: [a_mbtiles, b_files]
    grids: [small]
    levels: [0, 1]
"""


def main():
    import logging
    logging.disable(logging.CRITICAL)
    from mapproxy.config.loader import load_configuration
    from mapproxy.seed.config import load_seed_tasks_conf
    from mapproxy.seed.cleanup import cleanup
    from mapproxy.cache.tile import Tile
    from mapproxy.image import ImageSource
    from mapproxy.image.opts import ImageOptions
    tmp = tempfile.mkdtemp(prefix='d36')
    for name, text in (('mapproxy.yaml', MAPPROXY_YAML), ('seed.yaml', SEED_YAML)):
        with open(os.path.join(tmp, name), 'w') as f:
            f.write(text)
    conf = load_configuration(os.path.join(tmp, 'mapproxy.yaml'), seed=True)
    seed_conf = load_seed_tasks_conf(os.path.join(tmp, 'seed.yaml'), conf)
    bad = []
    seeds = seed_conf.seeds(['both'])
    for t in seeds:
        name = t.md['cache_name']
        print('seed task    %-10s refresh_all=%s' % (name, t.refresh_all))
        if name == 'b_files' and t.refresh_all:
            bad.append('seed: the file cache (with time stamps) is seeded with refresh_all: tiles newer than the threshold are fetched again')
    cleanups = seed_conf.cleanups(['both'])
    files = [t for t in cleanups if t.md['cache_name'] == 'b_files'][0].tile_manager
    # a tile written *after* the clean-up entry was set up (e.g. seeded in the same run)
    for coord in ((0, 0, 0), (1, 0, 1)):
        files.cache.store_tile(Tile(coord, ImageSource(Image.new('RGB', (256, 256), (0, 200, 0)), image_opts=ImageOptions(format='image/png'))))
    for t in cleanups:
        print('cleanup task %-10s remove_all=%s' % (t.md['cache_name'], t.remove_all))
    sys.stdout = open(os.devnull, 'w')
    try:
        cleanup(cleanups, verbose=False, dry_run=False, concurrency=1)
    finally:
        sys.stdout = sys.__stdout__
    left = [c for c in ((0, 0, 0), (1, 0, 1)) if files.cache.is_cached(Tile(c))]
    print('file cache after the clean-up ("older than the start of this run"): fresh tiles left %s of 2' % len(left))
    if len(left) != 2:
        bad.append('cleanup: tiles of the file cache written after the start of the run were removed')
    if bad:
        print('BROKEN:\n  ' + '\n  '.join(bad))
        return 1
    print('C12 / C13 hold')
    return 0


if __name__ == '__main__':
    sys.exit(main())
