"""D13 (C20): an upstream error mapped to an *uncached* fill image (on_error ... cache: false) must be sent with no-store.
On the meta-tile creation paths the created tiles are new Tile objects and TileManager._load_tile_coords copied only their
.source back into the collection it returns: the not-cacheable flag was lost, TileServer.map saw tile.cacheable == True and
answered with `Cache-control: public, max-age=...` and an ETag built from (None, None).

Run: PYTHONPATH=<tree> /venv/bin/python demo_D13_uncacheable_meta_tile.py   (exit 0 = flag kept, 1 = flag lost)"""
import shutil
import sys
import tempfile

from mapproxy.cache.file import FileCache
from mapproxy.cache.tile import TileManager
from mapproxy.grid import TileGrid
from mapproxy.image import ImageSource
from mapproxy.image.opts import ImageOptions
from mapproxy.layer import MapLayer
from mapproxy.srs import SRS
from mapproxy.cache.base import TileLocker
from PIL import Image


class ErrorFillSource(MapLayer):
    """what WMSSource.get_map returns when the error handler maps an upstream error to a fill image with cache: false"""
    supports_meta_tiles = True

    def __init__(self):
        MapLayer.__init__(self)
        self.extent = None
        self.requested = 0

    def get_map(self, query):
        self.requested += 1
        img = ImageSource(Image.new('RGB', query.size, (255, 0, 0)), image_opts=ImageOptions(format='image/png'), cacheable=False)
        return img


def run(meta_size, bulk):
    d = tempfile.mkdtemp()
    try:
        grid = TileGrid(SRS(4326), bbox=[-180, -90, 180, 90])
        cache = FileCache(d, 'png')
        src = ErrorFillSource()
        mgr = TileManager(grid, cache, [src], 'png', meta_size=meta_size, meta_buffer=0, locker=TileLocker(d + '/locks', 10, 'demo'),
                          image_opts=ImageOptions(format='image/png'), bulk_meta_tiles=bulk)
        tile = mgr.load_tile_coord((1, 1, 2), with_metadata=True)
        flag = bool(tile.cacheable)
        import os
        stored = any(f.endswith('.png') for dp, dn, fn in os.walk(d) for f in fn)
        print('meta_size=%s bulk=%s: upstream requests=%d  tile.cacheable=%s  stored in cache=%s' % (meta_size, bulk, src.requested, flag, stored))
        return (not flag) and (not stored)
    finally:
        shutil.rmtree(d, ignore_errors=True)


ok = True
ok = run([1, 1], False) and ok        # single tile path: flag was always kept
ok = run([2, 2], False) and ok        # meta tile path
ok = run([2, 2], True) and ok         # (bulk_meta_tiles only changes the path for tiled sources; same meta path here)
print('PASS' if ok else 'FAIL: an uncached fill image is handed to the tile service as cacheable (it is sent with public cache headers)')
sys.exit(0 if ok else 1)
