"""D41 (C12): `mapproxy-seed --cleanup --continue` on a cache with the tms directory layout: the saved progress is the level directory
and DirectoryCleanupProgress.can_skip compared directory names as strings, so after an interruption in level 9 (or 2..8) the levels
10..19 counted as already done and were never cleaned.   usage: demo.py [repo root]"""
import os
import shutil
import sys
import tempfile
import time
sys.path.insert(0, sys.argv[1] if len(sys.argv) > 1 else '/repo')
from io import BytesIO
from mapproxy.cache.base import TileLocker
from mapproxy.cache.file import FileCache
from mapproxy.cache.tile import Tile, TileManager
from mapproxy.grid import tile_grid
from mapproxy.image import ImageSource
from mapproxy.image.opts import ImageOptions
from mapproxy.seed.cleanup import cleanup
from mapproxy.seed.seeder import CleanupTask
from mapproxy.seed.util import ProgressLog, ProgressStore
from mapproxy.util.coverage import BBOXCoverage
from mapproxy.srs import SRS

d = tempfile.mkdtemp(prefix='d41_')
bad = 0
try:
    grid = tile_grid(4326, num_levels=13)
    cache = FileCache(os.path.join(d, 'cache'), 'png', directory_layout='tms')
    mgr = TileManager(grid, cache, [], 'png', TileLocker(os.path.join(d, 'locks'), 10, 'x'), image_opts=ImageOptions(format='image/png'))
    levels = [8, 9, 10, 11, 12]
    old = time.time() - 40 * 86400
    for z in levels:
        cache.store_tile(Tile((0, 0, z), ImageSource(BytesIO(b'x' * 100))))
        os.utime(cache.tile_location(Tile((0, 0, z))), (old, old))
    task = CleanupTask({'name': 'c', 'cache_name': 'c', 'grid_name': 'g'}, mgr, levels, remove_timestamp=time.time() - 86400, remove_all=False,
                       coverage=BBOXCoverage(grid.bbox, SRS(4326)), complete_extent=True)
    # the progress file of a run that was interrupted while it worked on level 9
    store = ProgressStore(os.path.join(d, 'progress'), continue_seed=True)
    store.status[task.id] = cache.level_location(9)
    store.write()
    store = ProgressStore(os.path.join(d, 'progress'), continue_seed=True)
    log = ProgressLog(out=open(os.devnull, 'w'), silent=True, verbose=False, progress_store=store)
    cleanup([task], concurrency=1, verbose=False, progress_logger=log)
    left = [z for z in levels if os.path.exists(cache.tile_location(Tile((0, 0, z))))]
    print('levels that still hold their 40 day old tile after the continued clean-up:', left)
    if left != [8]:          # level 8 was finished before the interruption; 9 and everything after it is still to do
        bad += 1
finally:
    shutil.rmtree(d)
print('BROKEN' if bad else 'OK')
sys.exit(1 if bad else 0)
