"""D34 (C20): "304 is never sent unless the client's validator matches the tile as currently stored."

A tile that is stale under a `refresh_before` rule is fetched again when it is requested.  TileManager has loaded the stale tile with
its metadata before (time stamp and size of the *old* file); the creator attaches the new image to the same Tile object and stores
it, and tile_buffer only sets the time stamp `if not tile.timestamp`.  The response of that very request is therefore built from the
new image and the *old* time stamp: Last-Modified is the old date, and a client that revalidates its old copy with
If-Modified-Since (or with the old ETag, when the new encoding has the same size) is answered 304 -- for a tile that was rewritten a
moment ago with other content.

The demo creates a tile, makes it old (mtime - 2 h), lets the upstream answer with another image of the same size and sends the
conditional request a browser would send.

Run: PYTHONPATH=<tree> /venv/bin/python demo_D34_refresh_answers_304.py   (exit 0 = holds, 1 = broken)"""
import io
import os
import sys
import tempfile
import urllib.parse

from PIL import Image

import mapproxy.client.http as http

CONF = """
services:
  tms:
layers:
  - name: lyr
    title: lyr
    sources: [c]
caches:
  c:
    grids: [GLOBAL_MERCATOR]
    sources: [src]
    meta_size: [%(meta)d, %(meta)d]
    meta_buffer: 0
    refresh_before: {hours: 1}
    cache: {type: file, directory: '%(tmp)s/c'}
sources:
  src:
    type: wms
    req: {url: 'http://upstream.invalid/service', layers: a}
globals:
  cache:
    base_dir: '%(tmp)s'
    lock_dir: '%(tmp)s/locks'
    tile_lock_dir: '%(tmp)s/tile_locks'
"""
COLOR = [(0, 200, 0)]


class FakeResponse(io.BytesIO):
    code = 200
    headers = {'Content-type': 'image/png'}


def fake_open(self, url, data=None, method=None):
    q = {k.lower(): v[0] for k, v in urllib.parse.parse_qs(urllib.parse.urlsplit(url).query).items()}
    buf = io.BytesIO()
    Image.new('RGB', (int(q['width']), int(q['height'])), COLOR[0]).save(buf, 'png')
    return FakeResponse(buf.getvalue())


def call(app, path, extra=None):
    environ = {
        'REQUEST_METHOD': 'GET', 'SCRIPT_NAME': '', 'PATH_INFO': path, 'QUERY_STRING': '',
        'SERVER_NAME': 'localhost', 'SERVER_PORT': '80', 'HTTP_HOST': 'localhost',
        'wsgi.url_scheme': 'http', 'wsgi.input': io.BytesIO(), 'wsgi.errors': io.StringIO(),
        'wsgi.version': (1, 0), 'wsgi.multithread': False, 'wsgi.multiprocess': False, 'wsgi.run_once': False,
    }
    environ.update(extra or {})
    result = {}

    def start_response(status, headers, exc_info=None):
        result['status'], result['headers'] = status, {k.lower(): v for k, v in headers}
    body = b''.join(app(environ, start_response))
    return result['status'], result['headers'], body


def main():
    import time
    from mapproxy.wsgiapp import make_wsgi_app
    http.HTTPClient.open = fake_open
    bad = []
    for meta in (1, 2):
        tmp = tempfile.mkdtemp(prefix='d34')
        conf = os.path.join(tmp, 'mapproxy.yaml')
        with open(conf, 'w') as f:
            f.write(CONF % {'tmp': tmp, 'meta': meta})
        app = make_wsgi_app(conf)
        path = '/tms/1.0.0/lyr/1/0/0.png'
        COLOR[0] = (0, 200, 0)
        call(app, path)
        status, h1, body1 = call(app, path)               # what a client has in its cache
        old = int(time.time()) - 2 * 3600       # (file systems / backends with whole-second time stamps)
        for root, _, files in os.walk(os.path.join(tmp, 'c')):
            for fn in files:
                os.utime(os.path.join(root, fn), (old, old))
        status, h1, body1 = call(app, path, None) if False else (status, h1, body1)
        # the client's validators are those of the old file: ask again to get them as the server states them for the aged file
        COLOR[0] = (0, 200, 0)
        # (a request now would refresh: take Last-Modified of the aged file from its mtime instead)
        from mapproxy.util.times import format_httpdate
        ims = format_httpdate(old)
        COLOR[0] = (200, 0, 0)                              # the upstream has new content (same encoded size)
        status2, h2, body2 = call(app, path, {'HTTP_IF_MODIFIED_SINCE': ims})
        status3, h3, body3 = call(app, path)
        changed = body3 != body1
        print('meta_size %dx%d: stale tile requested with If-Modified-Since %s -> %s (Last-modified %s); the tile now served differs from '
              'the client copy: %s' % (meta, meta, ims, status2, h2.get('last-modified'), changed))
        if status2.startswith('304') and changed:
            bad.append('meta_size %dx%d: 304 although the tile was rewritten with other content by this very request' % (meta, meta))
    if bad:
        print('C20 BROKEN:\n  ' + '\n  '.join(bad))
        return 1
    print('C20 holds')
    return 0


if __name__ == '__main__':
    sys.exit(main())
