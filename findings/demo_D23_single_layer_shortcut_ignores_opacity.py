"""D23 (C14): "answering a single-layer request without recomposition ... never change[s] the result compared with doing the full
composition."

LayerMerger.merge returns the image of a single layer as it is when that layer is not transparent, has the requested size and no
clipping coverage.  The shortcut did not look at the layer's opacity: a source with `image.opacity: 0.5` requested alone came back
with full intensity, while the same layer in the full composition (and in every request with a second layer) is blended with the
background at 50 %.

The upstream stub answers with blue.  LAYERS=top is requested for several opacities; the centre pixel is compared with the 'over'
composition of blue at that opacity over the white background.

Run: PYTHONPATH=<tree> /venv/bin/python demo_D23_single_layer_shortcut_ignores_opacity.py   (exit 0 = holds, 1 = broken)"""
import io
import os
import sys
import tempfile
import urllib.parse

from PIL import Image

from mapproxy.client import http as http_client

CONF = """
services:
  wms:
    md: {title: demo}
layers:
  - name: top
    title: top
    sources: [top_src]
sources:
  top_src:
    type: wms
    req: {url: 'http://upstream.invalid/service', layers: top, transparent: false}
    image:
      opacity: %(opacity)s
"""
BLUE, WHITE = (0, 0, 255), (255, 255, 255)


class FakeResponse(io.BytesIO):
    code = 200
    headers = {'Content-type': 'image/png'}


def fake_open(self, url, data=None, method=None):
    q = {k.lower(): v[0] for k, v in urllib.parse.parse_qs(urllib.parse.urlsplit(url).query).items()}
    buf = io.BytesIO()
    Image.new('RGB', (int(q['width']), int(q['height'])), BLUE).save(buf, 'png')
    return FakeResponse(buf.getvalue())


def call(app, query):
    environ = {
        'REQUEST_METHOD': 'GET', 'SCRIPT_NAME': '', 'PATH_INFO': '/service', 'QUERY_STRING': query,
        'SERVER_NAME': 'localhost', 'SERVER_PORT': '80', 'HTTP_HOST': 'localhost',
        'wsgi.url_scheme': 'http', 'wsgi.input': io.BytesIO(), 'wsgi.errors': io.StringIO(),
        'wsgi.version': (1, 0), 'wsgi.multithread': False, 'wsgi.multiprocess': False, 'wsgi.run_once': False,
    }
    result = {}

    def start_response(status, headers, exc_info=None):
        result['status'] = status
    body = b''.join(app(environ, start_response))
    return result['status'], body


def main():
    from mapproxy.wsgiapp import make_wsgi_app
    http_client.HTTPClient.open = fake_open
    bad = []
    for opacity in (0.25, 0.5, 0.75, 1.0):
        tmp = tempfile.mkdtemp(prefix='d23')
        conf = os.path.join(tmp, 'mapproxy.yaml')
        with open(conf, 'w') as f:
            f.write(CONF % {'opacity': opacity})
        app = make_wsgi_app(conf)
        status, body = call(app, 'SERVICE=WMS&VERSION=1.1.1&REQUEST=GetMap&LAYERS=top&STYLES=&SRS=EPSG:4326&BBOX=0,0,10,10'
                                 '&WIDTH=100&HEIGHT=100&FORMAT=image/png')
        px = Image.open(io.BytesIO(body)).convert('RGB').getpixel((50, 50)) if status.startswith('200') else None
        want = tuple(int(round(t * opacity + b * (1 - opacity))) for t, b in zip(BLUE, WHITE))
        ok = px is not None and all(abs(a - b) <= 3 for a, b in zip(px, want))
        print('opacity %-4s -> %s, centre pixel %s, composition over the white background gives %s: %s' % (
            opacity, status, px, want, 'ok' if ok else 'DIFFERENT'))
        if not ok:
            bad.append(opacity)
    if bad:
        print('C14 BROKEN: the single-layer answer differs from the composition for opacity %s' % bad)
        return 1
    print('C14 holds')
    return 0


if __name__ == '__main__':
    sys.exit(main())
