"""D42 (C13): `refresh_before: {time: 2009-06-09T10:57:00Z}` -- YAML hands such a value over as a datetime with a time zone;
timestamp_from_isodate took its wall-clock fields for local time, so on a server east or west of UTC the threshold was off by the
UTC offset: tiles written after the threshold were fetched again, or stale ones kept.   usage: demo.py [repo root]"""
import os
import sys
import time
sys.path.insert(0, sys.argv[1] if len(sys.argv) > 1 else '/repo')
import yaml
from mapproxy.seed.config import before_timestamp_from_options

want = 1244545020           # 2009-06-09T10:57:00Z
bad = 0
for tz in ('UTC', 'JST-9', 'EST5'):
    os.environ['TZ'] = tz
    time.tzset()
    for text in ('{time: 2009-06-09T10:57:00Z}', '{time: 2009-06-09T12:57:00+02:00}'):
        conf = yaml.safe_load(text)
        got = before_timestamp_from_options(conf)
        ok = abs(got - want) < 1
        print('TZ=%-6s refresh_before: %-36s -> off by %+.1f h %s' % (tz, text, (got - want) / 3600.0, '' if ok else 'BROKEN'))
        bad += not ok
print('BROKEN: %d' % bad if bad else 'OK')
sys.exit(1 if bad else 0)
