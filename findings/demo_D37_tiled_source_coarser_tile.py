"""D37 (C01): a tile source whose grid has fewer levels than the cache grid answers a deeper cache tile with the coarser source tile
that merely contains it -- unresampled, as if it were the requested rectangle.  usage: demo.py [repo root]"""
import sys
sys.path.insert(0, sys.argv[1] if len(sys.argv) > 1 else '/repo')
from mapproxy.grid import tile_grid
from mapproxy.layer import MapQuery
from mapproxy.source import InvalidSourceQuery
from mapproxy.source.tile import TiledSource
from mapproxy.srs import SRS


class Client:
    def __init__(self):
        self.asked = []

    def get_tile(self, coord, format=None):
        self.asked.append(coord)
        return 'image of %r' % (coord,)


src_grid = tile_grid(3857, num_levels=3)
cache_grid = tile_grid(3857, num_levels=6)
client = Client()
source = TiledSource(src_grid, client)
bad = 0
for coord in [(5, 9, 4), (1, 2, 2), (0, 0, 0), (17, 3, 5)]:
    bbox = cache_grid.tile_bbox(coord)
    q = MapQuery(bbox, (256, 256), SRS(3857), 'png')
    try:
        img = source.get_map(q)
    except InvalidSourceQuery as e:
        print('cache tile %r: refused (%s)' % (coord, e))
        continue
    got = client.asked[-1]
    same = all(abs(a - b) < 1e-6 * max(1, abs(a)) for a, b in zip(src_grid.tile_bbox(got), bbox))
    print('cache tile %r: answered with source tile %r, same rectangle: %s' % (coord, got, same))
    if not same:
        bad += 1
print('BROKEN: %d answers show another rectangle than the one asked for' % bad if bad else 'OK')
sys.exit(1 if bad else 0)
