"""D31 (C05): "For every history of store, bulk store, load, bulk load ... on any storage backend ... a load returns exactly the bytes
of the latest store to that address".

The per-level sqlite backends (`type: sqlite`, geopackage with `levels: true`) keep one database file per level.  Their bulk store
groups the tiles by level; their bulk *load* took the level of the first tile that still had to be loaded and handed the whole
list to that level's database: tiles of every other level were looked up in the wrong file and reported as missing (load_tiles
returned False, their source stayed None) although they are stored.

Run: PYTHONPATH=<tree> /venv/bin/python demo_D31_level_cache_bulk_load_mixed_levels.py   (exit 0 = holds, 1 = broken)"""
import sys
import tempfile

from PIL import Image


def main():
    from mapproxy.cache.mbtiles import MBTilesLevelCache
    from mapproxy.cache.geopackage import GeopackageLevelCache
    from mapproxy.cache.tile import Tile
    from mapproxy.grid import tile_grid
    from mapproxy.image import ImageSource
    from mapproxy.image.opts import ImageOptions
    opts = ImageOptions(format='image/png')
    coords = [(0, 0, 1), (1, 0, 1), (0, 0, 2), (3, 1, 2), (0, 0, 0)]
    bad = []
    caches = [('sqlite (MBTilesLevelCache)', MBTilesLevelCache(tempfile.mkdtemp(prefix='d31'))),
              ('geopackage levels (GeopackageLevelCache)', GeopackageLevelCache(tempfile.mkdtemp(prefix='d31'), tile_grid(4326), 'tiles'))]
    for label, cache in caches:
        want = {}
        for k, c in enumerate(coords):
            t = Tile(c, ImageSource(Image.new('RGB', (256, 256), (k * 40, 0, 0)), image_opts=opts))
            cache.store_tile(t)
            single = Tile(c)
            cache.load_tile(single)
            want[c] = single.source.as_buffer().read()
        tiles = [Tile(c) for c in coords]
        ok = cache.load_tiles(tiles)
        got = {t.coord: (t.source.as_buffer().read() if t.source is not None else None) for t in tiles}
        missing = [c for c in coords if got[c] is None]
        wrong = [c for c in coords if got[c] is not None and got[c] != want[c]]
        print('%-42s bulk load of %s -> %s, not loaded: %s, other bytes: %s' % (label, coords, ok, missing or 'none', wrong or 'none'))
        if missing or wrong or not ok:
            bad.append(label)
    if bad:
        print('C05 BROKEN: a bulk load over several levels does not return stored tiles (%s)' % ', '.join(bad))
        return 1
    print('C05 holds')
    return 0


if __name__ == '__main__':
    sys.exit(main())
