"""D27 (C12): "A cleanup task ... never removes ... a newer tile".

GeoPackage files have no time stamp per tile.  GeopackageCache says so (`supports_timestamp = False`); for such caches the seed
configuration refuses `remove_before` ("cleanup does not support remove_before") and forces `remove_all` otherwise.  The
per-level variant GeopackageLevelCache (cache option `levels: true`) builds its level files with `with_timestamps=False` but
inherited `supports_timestamp = True` from the base class: a cleanup with `remove_before: 1 hour` and a coverage is accepted,
walks the tiles, reads the placeholder time stamp -1 for each of them and removes every tile of the coverage -- also tiles that
were written a second ago.  (MBTilesLevelCache, its sibling, passes with_timestamps=True and rightly claims time stamps.)

The demo stores fresh tiles in both geopackage variants and runs the same cleanup (remove_before: 1 hour, coverage west).

Run: PYTHONPATH=<tree> /venv/bin/python demo_D27_geopackage_level_cache_claims_timestamps.py   (exit 0 = holds, 1 = broken)"""
import os
import sys
import tempfile

from PIL import Image

MAPPROXY_YAML = """
globals:
  cache:
    base_dir: './cache'
grids:
  small:
    base: GLOBAL_GEODETIC
    num_levels: 3
caches:
  gpkg_levels:
    sources: [src]
    grids: [small]
    cache: {type: geopackage, levels: true}
  gpkg_single:
    sources: [src]
    grids: [small]
    cache: {type: geopackage}
sources:
  src:
    type: wms
    req: {url: 'http://localhost:1/service?', layers: foo}
"""
SEED_YAML = """
coverages:
  west:
    bbox: [-180, -90, 0, 90]
    bbox_srs: 'EPSG:4326'
cleanups:
  older_than_an_hour:
    caches: [%s]
    grids: [small]
    coverages: [west]
    levels: [1, 2]
    remove_before:
      hours: 1
"""
TILES = [(0, 0, 1), (1, 0, 1), (0, 0, 2), (1, 1, 2), (3, 1, 2)]


def main():
    from mapproxy.config.loader import load_configuration
    from mapproxy.seed.config import load_seed_tasks_conf, SeedConfigurationError
    from mapproxy.seed.cleanup import cleanup
    from mapproxy.cache.tile import Tile
    from mapproxy.image import ImageSource
    from mapproxy.image.opts import ImageOptions
    tmp = tempfile.mkdtemp(prefix='d27')
    with open(os.path.join(tmp, 'mapproxy.yaml'), 'w') as f:
        f.write(MAPPROXY_YAML)
    conf = load_configuration(os.path.join(tmp, 'mapproxy.yaml'), seed=True)
    bad = []
    for cache_name in ('gpkg_single', 'gpkg_levels'):
        with open(os.path.join(tmp, 'seed.yaml'), 'w') as f:
            f.write(SEED_YAML % cache_name)
        mgr = list(conf.caches[cache_name].caches())[0][2]
        for coord in TILES:
            mgr.cache.store_tile(Tile(coord, ImageSource(Image.new('RGB', (256, 256), (0, 200, 0)), image_opts=ImageOptions(format='image/png'))))
        before = [c for c in TILES if mgr.cache.is_cached(Tile(c))]
        try:
            tasks = load_seed_tasks_conf(os.path.join(tmp, 'seed.yaml'), conf).cleanups(['older_than_an_hour'])
        except SeedConfigurationError as ex:
            print('%-12s %d fresh tiles stored; the cleanup is refused: %s' % (cache_name, len(before), ex))
            continue
        cleanup(tasks, verbose=False, dry_run=False, concurrency=1)
        after = [c for c in TILES if mgr.cache.is_cached(Tile(c))]
        removed = sorted(set(before) - set(after))
        print('%-12s %d fresh tiles stored; cleanup remove_before 1 hour removed %s' % (cache_name, len(before), removed or 'nothing'))
        if removed:
            bad.append('%s: tiles written a moment ago were removed by a cleanup for tiles older than one hour: %s' % (cache_name, removed))
    if bad:
        print('C12 BROKEN:\n  ' + '\n  '.join(bad))
        return 1
    print('C12 holds: no fresh tile was removed')
    return 0


if __name__ == '__main__':
    sys.exit(main())
