import io, os, sys, tempfile
from mapproxy.wsgiapp import make_wsgi_app
CONF = """
services:
  wms:
    md: {title: demo}
  tms:
  wmts:
  kml:
  demo:
layers:
  - name: lyr
    title: lyr
    sources: [cache]
caches:
  cache:
    grids: [GLOBAL_MERCATOR]
    sources: []
    cache: {type: file, directory: %(d)s/c}
"""
tmp = tempfile.mkdtemp()
open(tmp + '/m.yaml', 'w').write(CONF % {'d': tmp})
app = make_wsgi_app(tmp + '/m.yaml')
def call(path, query):
    environ = {'REQUEST_METHOD': 'GET', 'SCRIPT_NAME': '', 'PATH_INFO': path, 'QUERY_STRING': query, 'SERVER_NAME': 'localhost', 'SERVER_PORT': '80',
               'HTTP_HOST': 'localhost', 'wsgi.url_scheme': 'http', 'wsgi.input': io.BytesIO(), 'wsgi.errors': io.StringIO(), 'wsgi.version': (1, 0),
               'wsgi.multithread': False, 'wsgi.multiprocess': False, 'wsgi.run_once': False}
    res = {}
    def sr(status, headers, exc_info=None):
        res['status'] = status; res['headers'] = headers
    try:
        body = b''.join(app(environ, sr))
    except Exception as e:
        return 'RAISED %s: %s' % (type(e).__name__, e), [], b''
    return res['status'], res['headers'], body
base = 'SERVICE=WMS&VERSION=1.1.1&REQUEST=GetMap&STYLES=&SRS=EPSG:900913&BBOX=0,0,10,10&WIDTH=100&HEIGHT=100'
tests = {
 'fmt-crlf-inimage': base + '&LAYERS=nolayer&EXCEPTIONS=application/vnd.ogc.se_inimage&FORMAT=image/png%0d%0aX-Foo:%20bar',
 'fmt-nonlatin-inimage': base + '&LAYERS=nolayer&EXCEPTIONS=application/vnd.ogc.se_inimage&FORMAT=image/p%C4%80ng',
 'wms100-inimage': 'WMTVER=1.0.0&REQUEST=map&STYLES=&SRS=EPSG:900913&BBOX=0,0,10,10&WIDTH=100&HEIGHT=100&LAYERS=nolayer&EXCEPTIONS=INIMAGE&FORMAT=PNG',
 'ctrl-char-xml': base + '&FORMAT=image/png&LAYERS=no%08layer',
 'ctrl-char-xml-130': base.replace('1.1.1', '1.3.0').replace('SRS', 'CRS') + '&FORMAT=image/png&LAYERS=no%0Blayer',
}
import xml.dom.minidom
for k, q in tests.items():
    st, h, b = call('/service', q)
    ct = [v for n, v in h if n.lower() == 'content-type']
    info = ''
    if ct and 'xml' in ct[0]:
        try:
            xml.dom.minidom.parseString(b); info = 'xml ok'
        except Exception as e:
            info = 'XML NOT WELL-FORMED: %s' % e
    print(k, '|', st, '|', ct, '|', info, '|', b[:60])
