"""D14 (C18): "image responses ... have ... the declared content type".
A cache in JPEG format on a backend other than `file` already holds the requested tile.  A GetMap that is exactly this tile
(same bbox, 256x256, same SRS) in another FORMAT with TRANSPARENT=true lets MapProxy hand out the cached tile without
resampling or merging.  Only the file backend labelled loaded tiles with the cache's image options; mbtiles / sqlite / geopackage /
compact / ... created ImageSource(BytesIO(data)) without options, so ImageSource.as_buffer() did not know the stored format and
returned the JPEG bytes under `Content-type: image/png`.

Run: PYTHONPATH=<tree> /venv/bin/python demo_D14_declared_type_nonfile_backend.py   (exit 0 = holds, 1 = broken)"""
import io
import os
import sys
import tempfile

from PIL import Image

from mapproxy.wsgiapp import make_wsgi_app

CONF = """
services:
  wms:
    md: {title: demo}
    image_formats: ['image/png', 'image/jpeg', 'image/gif']
  tms:
layers:
  - name: lyr
    title: lyr
    sources: [cache]
caches:
  cache:
    format: image/jpeg
    grids: [GLOBAL_MERCATOR]
    sources: []
    cache:
      %(backend)s
"""
BACKENDS = {
    'file': 'type: file\n      directory: %(d)s/file\n      directory_layout: tms',
    'mbtiles': 'type: mbtiles\n      filename: %(d)s/c.mbtiles',
    'sqlite': 'type: sqlite\n      directory: %(d)s/sqlite',
    'geopackage': 'type: geopackage\n      filename: %(d)s/c.gpkg\n      table_name: tiles',
    'compact-v2': 'type: compact\n      version: 2\n      directory: %(d)s/compact',
}
TILE_BBOX = '0,0,20037508.342789244,20037508.342789244'   # tile x=1 y=1 z=1 of GLOBAL_MERCATOR
GETMAP = ('SERVICE=WMS&VERSION=1.1.1&REQUEST=GetMap&LAYERS=lyr&STYLES=&SRS=EPSG:900913'
          '&BBOX=%s&WIDTH=256&HEIGHT=256' % TILE_BBOX)
PIL_FORMAT = {'image/png': 'PNG', 'image/jpeg': 'JPEG', 'image/gif': 'GIF'}


def call(app, path, query):
    environ = {
        'REQUEST_METHOD': 'GET', 'SCRIPT_NAME': '', 'PATH_INFO': path, 'QUERY_STRING': query,
        'SERVER_NAME': 'localhost', 'SERVER_PORT': '80', 'HTTP_HOST': 'localhost',
        'wsgi.url_scheme': 'http', 'wsgi.input': io.BytesIO(), 'wsgi.errors': io.StringIO(),
        'wsgi.version': (1, 0), 'wsgi.multithread': False, 'wsgi.multiprocess': False, 'wsgi.run_once': False,
    }
    result = {}

    def start_response(status, headers, exc_info=None):
        result['status'] = status
        result['headers'] = dict((k.lower(), v) for k, v in headers)
    body = b''.join(app(environ, start_response))
    return result['status'], result['headers'], body


def run(backend):
    tmp = tempfile.mkdtemp(prefix='d14')
    conf = os.path.join(tmp, 'mapproxy.yaml')
    with open(conf, 'w') as f:
        f.write(CONF % {'backend': BACKENDS[backend] % {'d': tmp}})
    app = make_wsgi_app(conf)
    # history: the tile was stored earlier (through the cache's own store path)
    from mapproxy.cache.tile import Tile
    from mapproxy.image import ImageSource
    from mapproxy.image.opts import ImageOptions
    mgr = app.handlers['service'].services['wms'].layers['lyr'].map_layers[0].tile_manager
    buf = io.BytesIO()
    Image.new('RGB', (256, 256), (200, 10, 10)).save(buf, 'jpeg')
    t = Tile((1, 1, 1))
    t.source = ImageSource(io.BytesIO(buf.getvalue()), image_opts=ImageOptions(format='image/jpeg'))
    mgr.cache.store_tile(t)
    ok = True
    for fmt, extra in (('image/jpeg', ''), ('image/png', ''), ('image/png', '&TRANSPARENT=true'), ('image/gif', '&TRANSPARENT=TRUE')):
        status, headers, body = call(app, '/service', GETMAP + '&FORMAT=' + fmt + extra)
        ctype = headers.get('content-type', '').split(';')[0].strip()
        try:
            img = Image.open(io.BytesIO(body))
            img.load()
            got = img.format
        except Exception as ex:
            got = 'undecodable (%s)' % ex
        good = status.startswith('200') and PIL_FORMAT.get(ctype) == got
        print('%-11s FORMAT=%-10s%-18s -> %s, body is %s  %s' % (backend, fmt, extra, ctype, got, 'ok' if good else 'MISMATCH'))
        ok = ok and good
    return ok


def main():
    ok = True
    for b in sorted(BACKENDS):
        try:
            ok = run(b) and ok
        except Exception as ex:       # a backend that is not available in this environment
            print('%-11s skipped: %s: %s' % (b, type(ex).__name__, ex))
    print('PASS' if ok else 'FAIL: an image response does not have the declared content type')
    return 0 if ok else 1


if __name__ == '__main__':
    sys.exit(main())
