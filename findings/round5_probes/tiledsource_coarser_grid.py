# pre-existing? TiledSource with coarser grid than the cache grid
from mapproxy.grid import tile_grid
from mapproxy.source.tile import TiledSource
from mapproxy.layer import MapQuery
from mapproxy.srs import SRS

class Client:
    def get_tile(self, coord, format=None):
        print("upstream tile", coord)
        return coord

src_grid = tile_grid(3857, num_levels=3, origin='nw')
cache_grid = tile_grid(3857, origin='nw')
src = TiledSource(src_grid, Client())
for coord in [(5, 9, 4), (3,3,3), (0,0,2)]:
    bbox = cache_grid.tile_bbox(coord)
    try:
        r = src.get_map(MapQuery(bbox, (256, 256), SRS(3857), 'png'))
        print(coord, '->', r, 'src tile bbox', src_grid.tile_bbox(r), 'query bbox', bbox)
    except Exception as e:
        print(coord, 'ERR', type(e), e)
