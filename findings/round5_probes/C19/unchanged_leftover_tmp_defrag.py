"""Unchanged tree: a tmp_defrag.bundle left behind by an interrupted defrag run leaks its tiles into the next run."""
import os, shutil, tempfile
from io import BytesIO
from mapproxy.cache.compact import CompactCacheV2
from mapproxy.cache.tile import Tile
from mapproxy.image import ImageSource
from mapproxy.script import defrag as defrag_mod
from mapproxy.script.defrag import defrag_compact_cache

d = tempfile.mkdtemp()
try:
    cache = CompactCacheV2(d)
    for _ in range(2):
        cache.store_tile(Tile((1, 1, 3), ImageSource(BytesIO(b'a' * 5000))))
    for _ in range(2):
        cache.store_tile(Tile((2, 2, 4), ImageSource(BytesIO(b'b' * 5000))))
    # first run is interrupted after the temporary bundle was written (os.remove fails)
    orig = os.remove
    calls = []
    def boom(path, *a, **k):
        if path.endswith('.bundle'):
            calls.append(path)
            if len(calls) == 2:
                raise KeyboardInterrupt()
        return orig(path, *a, **k)
    os.remove = boom
    try:
        try:
            defrag_compact_cache(cache, min_percent=0, min_bytes=0)
        except KeyboardInterrupt:
            pass
    finally:
        os.remove = orig
    print('after interrupted run:', sorted(os.listdir(d)))
    before = {}
    for c in [(1, 1, 3), (2, 2, 4), (1, 1, 4), (2, 2, 3)]:
        t = Tile(c); before[c] = cache.load_tile(t) and t.source.as_buffer().read()[:3]
    defrag_compact_cache(cache, min_percent=0, min_bytes=0)
    for c in before:
        t = Tile(c); after = cache.load_tile(t) and t.source.as_buffer().read()[:3]
        print(c, before[c], '->', after)
finally:
    shutil.rmtree(d)
