"""Unchanged tree: a v1 *reader* creates the missing .bundle file outside the bundle lock."""
import os, shutil, struct, sys, tempfile
from io import BytesIO
from mapproxy.cache import compact
from mapproxy.cache.compact import CompactCacheV1
from mapproxy.cache.tile import Tile
from mapproxy.image import ImageSource

d = tempfile.mkdtemp()
try:
    cache = CompactCacheV1(d)
    cache.remove_tile(Tile((0, 0, 0)))          # leaves R0000C0000.bundlx without .bundle
    print(sorted(os.listdir(os.path.join(d, 'L00'))))
    orig = compact.write_atomic
    state = []
    def hooked(filename, data):
        if filename.endswith('.bundle') and not state:
            state.append(1)
            # the reader has decided to create the data file; now a writer stores a tile
            cache.store_tile(Tile((5, 5, 0), ImageSource(BytesIO(b'x' * 1000))))
        return orig(filename, data)
    compact.write_atomic = hooked
    print('reader is_cached ->', cache.is_cached(Tile((1, 1, 0))))
    compact.write_atomic = orig
    t = Tile((5, 5, 0))
    try:
        print('load stored tile ->', cache.load_tile(t))
    except Exception as ex:
        print('load stored tile raised', type(ex).__name__, ex)
    idx = open(os.path.join(d, 'L00', 'R0000C0000.bundlx'), 'rb').read()
    i = 5 * 128 + 5
    off = struct.unpack('<Q', idx[16 + i*5:16 + i*5 + 5] + b'\0\0\0')[0]
    print('index offset', off, 'data file size', os.path.getsize(os.path.join(d, 'L00', 'R0000C0000.bundle')))
finally:
    shutil.rmtree(d)
