import os, tempfile
from io import BytesIO
from webtest import TestApp
from mapproxy.client.wms import WMSClient
from mapproxy.compat.image import Image
from mapproxy.wsgiapp import make_wsgi_app
CONFIG = """
services:
  wms:
    srs: ['EPSG:4326']
layers:
  - name: g
    title: group
    layers:
      - title: first
        sources: [a]
      - title: second
        sources: [b]
sources:
  a:
    type: wms
    req: {url: 'http://up.invalid/a', layers: a, transparent: true}
  b:
    type: wms
    req: {url: 'http://up.invalid/b', layers: b, transparent: true}
"""
def fake(self, query, format):
    l = self.request_template.params.layers[0]
    img = Image.new('RGBA', query.size, (0,0,0,0))
    if l == 'a': img.paste((255,0,0,255), (0,0,50,100))
    else: img.paste((0,0,255,255), (50,0,100,100))
    b = BytesIO(); img.save(b,'png'); b.seek(0); return b
WMSClient.retrieve = fake
tmp = tempfile.mkdtemp()
f = os.path.join(tmp,'m.yaml'); open(f,'w').write(CONFIG)
app = TestApp(make_wsgi_app(f))
r = app.get('/service?SERVICE=WMS&VERSION=1.1.1&REQUEST=GetMap&LAYERS=g&STYLES=&SRS=EPSG:4326&BBOX=0,0,10,10&WIDTH=100&HEIGHT=100&FORMAT=image/png&TRANSPARENT=true')
img = Image.open(BytesIO(r.body)).convert('RGBA')
print('left', img.getpixel((20,50)), 'right', img.getpixel((80,50)))
