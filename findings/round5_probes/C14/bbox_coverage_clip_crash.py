from mapproxy.config.coverage import load_coverage
from mapproxy.image.merge import LayerMerger
from mapproxy.image import ImageSource
from mapproxy.image.opts import ImageOptions
from mapproxy.compat.image import Image
import mapproxy; print(mapproxy.__file__)
cov = load_coverage({'bbox':[0,0,5,10],'srs':'EPSG:4326','clip':True})
print(cov, cov.clip)
m = LayerMerger()
m.add(ImageSource(Image.new('RGB',(10,10),(255,0,0)), image_opts=ImageOptions(transparent=False)), cov)
r = m.merge(ImageOptions(transparent=True), size=(10,10), bbox=(0,0,10,10), bbox_srs='EPSG:4326')
print(r.as_image().getcolors())
