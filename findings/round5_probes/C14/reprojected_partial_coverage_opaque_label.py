from io import BytesIO
from PIL import Image
from mapproxy.source.wms import WMSSource
from mapproxy.image.opts import ImageOptions
from mapproxy.image.merge import LayerMerger
from mapproxy.layer import MapQuery
from mapproxy.srs import SRS, SupportedSRS
from mapproxy.util.coverage import coverage

class Client:
    def retrieve(self, query, format):
        b = BytesIO(); Image.new('RGB', query.size, (0,0,255)).save(b, 'png'); b.seek(0); return b

def run(optimised):
    src = WMSSource(Client(), image_opts=ImageOptions(transparent=False, resampling='nearest', format='image/png'),
                    coverage=coverage([0,0,10,10], SRS(4326)), supported_srs=SupportedSRS([SRS(4326)]))
    q = MapQuery(SRS(4326).transform_bbox_to(SRS(3857), (5,0,15,10)), (100,100), SRS(3857), 'image/png')
    img = src.get_map(q)
    m = LayerMerger()
    m.add(img, src.coverage)
    if not optimised:
        m.add(ImageSource(Image.new('RGBA',(100,100),(0,0,0,0)), image_opts=ImageOptions(transparent=True)))
    out = m.merge(ImageOptions(transparent=False, bgcolor='#ff0000', format='image/png'), size=(100,100), bbox=q.bbox, bbox_srs=q.srs)
    return Image.open(out.as_buffer(ImageOptions(transparent=False, bgcolor='#ff0000', format='image/png'))).convert('RGBA')
from mapproxy.image import ImageSource
a = run(True); b = run(False)
print(a.getpixel((90,50)), b.getpixel((90,50)))
print(a.getpixel((10,50)), b.getpixel((10,50)))
