import threading, time
from mapproxy.util.async_ import ThreadPool

# (a) reuse after forced shutdown with an item still in flight (raise mode)
pool = ThreadPool(3)
release = threading.Event()
def f(i):
    if i == 0:
        raise ValueError('x')
    release.wait(2)
    return 'old-%d' % i
try:
    pool.map(f, [0, 1, 2])
except ValueError:
    pass
release.set()
time.sleep(0.2)
print('a) second call on same pool:', pool.map(lambda i: 'new-%d' % i, [0, 1, 2]))

# (b) single-item shortcut + consumer shutdown(True) leaves sentinels, next call hangs
pool = ThreadPool(2)
def g(i):
    raise ValueError('y')
for r in pool.imap(g, [0], use_result_objects=True):
    if r.exception:
        pool.shutdown(True)
out = []
t = threading.Thread(target=lambda: out.append(pool.map(lambda i: i, [0, 1, 2])), daemon=True)
t.start(); t.join(3)
print('b) second call terminated:', bool(out), out)

# (c) BaseException in a worker: call never terminates
class Stop(BaseException): pass
pool = ThreadPool(2)
def h(i):
    if i == 1: raise Stop()
    return i
out = []
t = threading.Thread(target=lambda: out.append(pool.map(h, [0, 1, 2])), daemon=True)
t.start(); t.join(3)
print('c) call with BaseException item terminated:', bool(out), out)
