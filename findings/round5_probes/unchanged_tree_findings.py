"""
Checks of C12 on the UNCHANGED tree (observations made while exploring, not part of the two seeded changes).
Each check prints VIOLATED / ok.
"""
import os
import shutil
import sqlite3
import tempfile
import time
from io import BytesIO

from PIL import Image

from mapproxy.cache.tile import Tile
from mapproxy.config.loader import load_configuration
from mapproxy.image import ImageSource
from mapproxy.seed.cleanup import cleanup, DirectoryCleanupProgress
from mapproxy.seed.config import load_seed_tasks_conf

OLD = time.mktime((2010, 1, 1, 0, 0, 0, 0, 0, -1))


def env(mapproxy_yaml, seed_yaml):
    tmp = tempfile.mkdtemp(prefix='c12_find_')
    with open(os.path.join(tmp, 'mapproxy.yaml'), 'w') as f:
        f.write(mapproxy_yaml)
    with open(os.path.join(tmp, 'seed.yaml'), 'w') as f:
        f.write(seed_yaml)
    conf = load_configuration(os.path.join(tmp, 'mapproxy.yaml'), seed=True)
    return tmp, conf


def make_file_tile(mgr, coord, ts):
    loc = mgr.cache.tile_location(Tile(coord), create_dir=True)
    with open(loc, 'wb') as f:
        f.write(b'x')
    os.utime(loc, (ts, ts))
    return loc


BASE = """
globals:
  cache:
    base_dir: ./cache_data
caches:
  c:
    sources: []
    grids: [GLOBAL_GEODETIC]
%s
layers:
  - name: l
    title: l
    sources: [c]
services:
  tms:
"""


def f1_refresh_before_overrides_remove_before():
    tmp, conf = env(BASE % "    refresh_before:\n      minutes: 1\n", """
coverages:
  west:
    bbox: [-180, -90, 0, 90]
    srs: 'EPSG:4326'
cleanups:
  x:
    caches: [c]
    coverages: [west]
    levels: [1]
    remove_before:
      time: '2020-01-01T00:00:00'
""")
    try:
        with conf:
            sc = load_seed_tasks_conf(os.path.join(tmp, 'seed.yaml'), conf)
            tasks = sc.cleanups(['x'])
            mgr = tasks[0].tile_manager
            loc = make_file_tile(mgr, (0, 0, 1), time.time() - 3600)  # 1h old, much newer than 2020-01-01
            cleanup(tasks, concurrency=1, verbose=False)
            print('F1 cache.refresh_before replaces remove_before in tile-walk cleanup:',
                  'ok' if os.path.exists(loc) else 'VIOLATED (tile newer than remove_before removed)')
    finally:
        shutil.rmtree(tmp, ignore_errors=True)


def f2_tms_continue():
    skipped = DirectoryCleanupProgress.can_skip('/cache/9', '/cache/10')
    print('F2 --continue with tms layout, interrupted in level dir "9", level dir "10":',
          'VIOLATED (level 10 is skipped although never processed)' if skipped else 'ok')


def f3_sqlite_ttl():
    tmp, conf = env(BASE % "    cache:\n      type: sqlite\n      ttl: 3600\n", """
coverages:
  west:
    bbox: [-180, -90, 0, 90]
    srs: 'EPSG:4326'
cleanups:
  x:
    caches: [c]
    coverages: [west]
    levels: [1]
    remove_before:
      time: '2020-01-01T00:00:00'
""")
    try:
        with conf:
            sc = load_seed_tasks_conf(os.path.join(tmp, 'seed.yaml'), conf)
            tasks = sc.cleanups(['x'])
            mgr = tasks[0].tile_manager
            buf = BytesIO()
            Image.new('RGB', (256, 256)).save(buf, 'png')
            mgr.cache.store_tile(Tile((0, 0, 1), ImageSource(BytesIO(buf.getvalue()))))
            mgr.cleanup()
            db_file = mgr.cache._get_level(1).mbtile_file
            db = sqlite3.connect(db_file)
            db.execute("UPDATE tiles SET last_modified = datetime(?, 'unixepoch', 'localtime')", (OLD, ))
            db.commit()
            db.close()
            cleanup(tasks, concurrency=1, verbose=False)
            mgr.cleanup()
            db = sqlite3.connect(db_file)
            n = db.execute("SELECT count(*) FROM tiles").fetchone()[0]
            db.close()
            print('F3 sqlite cache with ttl, tile-walk cleanup of a 2010 tile with remove_before 2020:',
                  'ok' if n == 0 else 'VIOLATED (expired tile still in the level file: ttl hides it from is_stale)')
    finally:
        shutil.rmtree(tmp, ignore_errors=True)


def f5_empty_levels():
    tmp, conf = env(BASE % "", """
cleanups:
  x:
    caches: [c]
    levels: []
    remove_all: true
""")
    try:
        with conf:
            sc = load_seed_tasks_conf(os.path.join(tmp, 'seed.yaml'), conf)
            tasks = sc.cleanups(['x'])
            print('F5 `levels: []` selects levels', tasks[0].levels[:3], '...',
                  'VIOLATED (empty selection means all levels)' if tasks[0].levels else 'ok')
    finally:
        shutil.rmtree(tmp, ignore_errors=True)


def f6_fraction():
    tmp, conf = env(BASE % "", """
coverages:
  west:
    bbox: [-180, -90, 0, 90]
    srs: 'EPSG:4326'
cleanups:
  walk:
    caches: [c]
    coverages: [west]
    levels: [1]
    remove_before:
      time: '2020-01-01T00:00:00'
  dirs:
    caches: [c]
    levels: [2]
    remove_before:
      time: '2020-01-01T00:00:00'
""")
    try:
        with conf:
            sc = load_seed_tasks_conf(os.path.join(tmp, 'seed.yaml'), conf)
            tasks = sc.cleanups(['walk', 'dirs'])
            mgr = tasks[0].tile_manager
            t = tasks[0].remove_timestamp
            a = make_file_tile(mgr, (0, 0, 1), t + 0.5)
            b = make_file_tile(mgr, (0, 0, 2), t + 0.5)
            cleanup(tasks, concurrency=1, verbose=False)
            print('F6 tile 0.5s NEWER than remove_before: tile walk %s, directory walk %s' % (
                'keeps it (ok)' if os.path.exists(a) else 'removes it (VIOLATED, int() truncation and <=)',
                'keeps it (ok)' if os.path.exists(b) else 'removes it (VIOLATED)'))
    finally:
        shutil.rmtree(tmp, ignore_errors=True)


def f7_same_srs_grids_share_directory():
    tmp, conf = env("""
globals:
  cache:
    base_dir: ./cache_data
grids:
  coarse:
    srs: 'EPSG:4326'
    bbox: [-180, -90, 180, 90]
    res: [1.0, 0.5, 0.25]
  fine:
    srs: 'EPSG:4326'
    bbox: [0, 0, 10, 10]
    res: [0.01, 0.005, 0.0025]
caches:
  c:
    sources: []
    grids: [coarse, fine]
layers:
  - name: l
    title: l
    sources: [c]
services:
  tms:
""", """
cleanups:
  x:
    caches: [c]
    grids: [coarse]
    levels: [1]
    remove_all: true
""")
    try:
        with conf:
            sc = load_seed_tasks_conf(os.path.join(tmp, 'seed.yaml'), conf)
            managers = sc.cache('c')
            loc = make_file_tile(managers['fine'], (2, 2, 1), OLD)
            cleanup(sc.cleanups(['x']), concurrency=1, verbose=False)
            print('F7 file cache with two grids in the same SRS (no use_grid_names), cleanup of grid `coarse`:',
                  'ok' if os.path.exists(loc) else 'VIOLATED (tile of grid `fine` removed, both grids share c_EPSG4326)')
    finally:
        shutil.rmtree(tmp, ignore_errors=True)


if __name__ == '__main__':
    import contextlib
    import io
    for check in (f1_refresh_before_overrides_remove_before, f2_tms_continue, f3_sqlite_ttl, f5_empty_levels,
                  f6_fraction, f7_same_srs_grids_share_directory):
        out = io.StringIO()
        with contextlib.redirect_stdout(out):
            try:
                check()
            except Exception as ex:
                print('%s raised %r' % (check.__name__, ex))
        print('\n'.join(line for line in out.getvalue().splitlines() if line.startswith('F') or 'raised' in line))
