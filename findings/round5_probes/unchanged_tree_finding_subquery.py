# unchanged-tree probe: WMS source with a coverage whose border is not pixel aligned,
# meta tile (with buffer) crosses the coverage border, tile itself is inside the coverage
import sys
import os; sys.path.insert(0, os.path.join(os.path.dirname(os.path.abspath(__file__)), '2'))
from demo import *
from mapproxy.source.wms import WMSSource
from mapproxy.util.coverage import BBOXCoverage
from mapproxy.srs import SRS
from mapproxy.layer import MapQuery
import numpy as np

class Client(object):
    def __init__(self): self.requests=[]
    def retrieve(self, query, format):
        self.requests.append((query.bbox, query.size))
        buf = BytesIO(); ground_picture_any(query.bbox, query.size).save(buf, 'png'); buf.seek(0)
        return buf
    def combined_client(self, other, query): return None

def ground_picture_any(bbox, size):
    # nearest-neighbour sampling of a fine ground raster: pure function of ground position
    resx = (bbox[2]-bbox[0])/size[0]; resy=(bbox[3]-bbox[1])/size[1]
    xs = bbox[0] + (np.arange(size[0])+0.5)*resx
    ys = bbox[3] - (np.arange(size[1])+0.5)*resy
    base = 4891.96981025128/1  # level 5 res of 3857 grid
    gx = np.floor((xs+WORLD)/base).astype(np.int64)[None,:]
    gy = np.floor((WORLD-ys)/base).astype(np.int64)[:,None]
    r=(gx*37+gy*101)%256; g=(gx*17+gy*0)%256; b=(gx*0+gy*29)%256
    return Image.fromarray(np.stack([r,g,b],axis=-1).astype(np.uint8),'RGB')

grid = tile_grid(3857)
z=5; res = grid.resolution(z)
coord=(17,17,z)
tb = grid.tile_bbox(coord)
# coverage: starts 30.4 px left of the tile, far to the other sides
cov = BBOXCoverage((tb[0]-30.4*res, tb[1]-3000*res, tb[2]+3000*res, tb[3]+3000*res), SRS(3857))
def mk(meta_size, meta_buffer):
    c = Client()
    src = WMSSource(c, image_opts=PNG, coverage=cov)
    return TileManager(grid, MemCache(), [src], 'png', locker=DummyLocker(), image_opts=PNG,
                      meta_size=meta_size, meta_buffer=meta_buffer, concurrent_tile_creators=1), c
alone, c1 = mk([1,1],0)
meta, c2 = mk([1,1],80)
a = np.asarray(alone.load_tile_coord(coord).source.as_image().convert('RGB')).astype(int)
m = np.asarray(meta.load_tile_coord(coord).source.as_image().convert('RGB')).astype(int)
print('requests alone', c1.requests); print('requests meta', c2.requests)
print('differing pixels', (a!=m).any(axis=2).sum(), 'of', 256*256)
