# pre-existing? narrow output image with reprojection: single quad
from mapproxy.image.transform import transform_meshes
from mapproxy.srs import SRS, make_lin_transf
src_srs, dst_srs = SRS(4326), SRS(3857)
dst_bbox = (1000000, 0, 1000000+40*10000, 1000*10000)
dst_size = (40, 1000)
src_bbox = dst_srs.transform_bbox_to(src_srs, dst_bbox)
src_size = (40, 1000)
m = transform_meshes(src_size, src_bbox, src_srs, dst_size, dst_bbox, dst_srs)
print(len(m), src_bbox)
# error at centre
quad, sq = m[0]
to_dst_w = make_lin_transf((0,0)+dst_size, dst_bbox)
to_src_px = make_lin_transf(src_bbox, (0,0)+src_size)
yc = 500
true_src = to_src_px(dst_srs.transform_to(src_srs, to_dst_w((20, yc))))
# affine approx: linear in y between top and bottom
approx_y = sq[1] + (sq[3]-sq[1]) * yc/1000.
print('true src px', true_src, 'approx y', approx_y)
