# existing tree: CacheLocker._poll deletes a dead row with the cursor it iterates
import os, subprocess, sys, tempfile, sqlite3, time
import mapproxy.seed.cachelock as cl
d = tempfile.mkdtemp(); f = os.path.join(d, 'lck')
locker = cl.CacheLocker(f)
# a dead pid
p = subprocess.Popen([sys.executable, '-c', 'pass']); p.wait(); dead = p.pid
live = os.getppid()   # some other live process: plays the waiter P1
me = os.getpid()      # P2
db = sqlite3.connect(f)
db.execute("INSERT INTO cache_locks (cache_name, pid, created) VALUES ('foo', ?, 1.0)", (dead,))
db.execute("INSERT INTO cache_locks (cache_name, pid, created) VALUES ('foo', ?, 2.0)", (live,))
db.commit(); db.close()
# P2 arrives (row created=now) and polls
with locker._exclusive_db_cursor() as cur:
    locker._add_lock(cur, 'foo', me)
    p2 = locker._poll(cur, 'foo', me)
# P1 (earlier waiter) polls
with locker._exclusive_db_cursor() as cur:
    p1 = locker._poll(cur, 'foo', live)
print('P2 acquired:', p2, ' P1 acquired:', p1)
