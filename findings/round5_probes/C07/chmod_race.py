# existing tree: file_permissions + remove_on_unlock: chmod(path) after open() can hit ENOENT
import fcntl, os, tempfile
from mapproxy.util.lock import FileLock, LockTimeout
d = tempfile.mkdtemp(); path = os.path.join(d, 'x.lck')
b = FileLock(path, timeout=0.2, step=0.005, remove_on_unlock=True, file_permissions='664')
real_chmod = os.chmod
armed = [True]
def chmod(p, mode, *a, **k):
    if armed[0] and p == path:
        armed[0] = False
        # C takes the lock on the file B just created, works, and releases (unlink)
        c = FileLock(path, timeout=0.2, step=0.005, remove_on_unlock=True, file_permissions='664')
        c.lock(); c.unlock(); del c
    return real_chmod(p, mode, *a, **k)
os.chmod = chmod
try:
    b.lock(); print('B locked')
except LockTimeout:
    print('B timeout')
except Exception as ex:
    print('B failed with', type(ex).__name__, ex)
finally:
    os.chmod = real_chmod
