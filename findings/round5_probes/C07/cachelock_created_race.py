# existing tree: `created` is taken before BEGIN EXCLUSIVE
import os, tempfile
import mapproxy.seed.cachelock as cl
d = tempfile.mkdtemp(); f = os.path.join(d, 'lck')
locker = cl.CacheLocker(f)
P1 = os.getppid(); P2 = os.getpid()
# P2 evaluated time.time() = 100.0 and was descheduled before cur.execute(INSERT)
# P1 evaluates 100.5, inserts, polls -> wins
real = cl.time.time
cl.time.time = lambda: 100.5
with locker._exclusive_db_cursor() as cur:
    locker._add_lock(cur, 'foo', P1); w1 = locker._poll(cur, 'foo', P1)
cl.time.time = lambda: 100.0
with locker._exclusive_db_cursor() as cur:
    locker._add_lock(cur, 'foo', P2); w2 = locker._poll(cur, 'foo', P2)
cl.time.time = real
print('P1 acquired:', w1, ' P2 acquired:', w2)
