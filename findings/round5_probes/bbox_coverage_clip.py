from PIL import Image
from mapproxy.image import ImageSource
from mapproxy.image.mask import mask_image_source_from_coverage
from mapproxy.util.coverage import coverage
from mapproxy.srs import SRS
img = ImageSource(Image.new('RGB', (100, 100), 'red'))
try:
    r = mask_image_source_from_coverage(img, (0, 0, 10, 10), SRS(4326), coverage([2, 2, 8, 8], SRS(4326), clip=True))
    print(sorted(r.as_image().getcolors()))
except Exception as e:
    print('ERR', type(e), e)
