"""D24 (C20, C13): "tiles that must not be cached (upstream errors mapped to uncached fill images) are sent with no-store
directives" / "a refresh that fails does not destroy the old tile".

An upstream error that `on_error` maps to a fill image with `cache: false` is marked `cacheable=False` on the ImageSource.  The mark
has to survive every image that is *derived* from that one (LayerMerger.merge, TileMerger.merge, ImageTransformer.transform and
CacheMapLayer's SubImageSource all pass it on).  Three derivations built their result with the default `cacheable=True`:

 A. BandMerger.merge (cache with band sources): the merged fill image is stored in the cache and served with validators,
 B. TileSplitter.get_tile (tiles cut from a meta tile): the Tile object is marked, its image is not; a second cache with another
    grid that uses the meta-tiled cache as its source reads the mark of the *images* (TileMerger) and stores the fill image,

so after the upstream recovered both caches keep answering with the red error image.

Sequence per scenario: upstream answers 404 -> request a tile (fill image expected, no-store, nothing stored); upstream healthy ->
same request must show the real (green) image.

Run: PYTHONPATH=<tree> /venv/bin/python demo_D24_derived_images_lose_uncacheable_mark.py   (exit 0 = holds, 1 = broken)"""
import io
import os
import shutil
import sys
import tempfile

from PIL import Image

import mapproxy.client.http as http

CONF = """
services:
  tms:
layers:
  - name: bands
    title: band merge
    sources: [band_cache]
  - name: outer
    title: cache on a meta tiled cache
    sources: [outer_cache]
caches:
  band_cache:
    grids: [GLOBAL_MERCATOR]
    meta_size: [1, 1]
    sources:
      r: [{source: src, band: 0}]
      g: [{source: src, band: 1}]
      b: [{source: src, band: 2}]
    cache: {type: file, directory: '%(tmp)s/band'}
  outer_cache:
    grids: [GLOBAL_GEODETIC]
    meta_size: [1, 1]
    sources: [inner_cache]
    cache: {type: file, directory: '%(tmp)s/outer'}
  inner_cache:
    grids: [GLOBAL_MERCATOR]
    meta_size: [2, 2]
    meta_buffer: 0
    sources: [src]
    cache: {type: file, directory: '%(tmp)s/inner'}
sources:
  src:
    type: wms
    req: {url: 'http://upstream.invalid/service', layers: a}
    on_error:
      404:
        response: '#ff0000'
        cache: false
globals:
  cache:
    base_dir: '%(tmp)s'
    lock_dir: '%(tmp)s/locks'
    tile_lock_dir: '%(tmp)s/tile_locks'
"""
upstream = {'healthy': False}
GREEN, RED = (0, 200, 0), (255, 0, 0)


class FakeResponse(io.BytesIO):
    code = 200
    headers = {'Content-type': 'image/png'}


def fake_open(self, url, data=None, method=None):
    import urllib.parse
    if not upstream['healthy']:
        raise http.HTTPClientError('HTTP Error "%s": 404' % url, response_code=404)
    q = {k.lower(): v[0] for k, v in urllib.parse.parse_qs(urllib.parse.urlsplit(url).query).items()}
    buf = io.BytesIO()
    Image.new('RGB', (int(q['width']), int(q['height'])), GREEN).save(buf, 'png')
    return FakeResponse(buf.getvalue())


def call(app, path):
    environ = {
        'REQUEST_METHOD': 'GET', 'SCRIPT_NAME': '', 'PATH_INFO': path, 'QUERY_STRING': '',
        'SERVER_NAME': 'localhost', 'SERVER_PORT': '80', 'HTTP_HOST': 'localhost',
        'wsgi.url_scheme': 'http', 'wsgi.input': io.BytesIO(), 'wsgi.errors': io.StringIO(),
        'wsgi.version': (1, 0), 'wsgi.multithread': False, 'wsgi.multiprocess': False, 'wsgi.run_once': False,
    }
    result = {}

    def start_response(status, headers, exc_info=None):
        result['status'], result['headers'] = status, headers
    body = b''.join(app(environ, start_response))
    return result['status'], result['headers'], body


def files(d):
    return sorted(os.path.join(r, f) for r, _, fs in os.walk(d) for f in fs)


def main():
    from mapproxy.wsgiapp import make_wsgi_app
    http.HTTPClient.open = fake_open
    tmp = tempfile.mkdtemp(prefix='d24')
    bad = []
    try:
        conf = os.path.join(tmp, 'mapproxy.yaml')
        with open(conf, 'w') as f:
            f.write(CONF % {'tmp': tmp})
        app = make_wsgi_app(conf)
        for label, layer, dirs in (('A band merge', 'bands', ['band']), ('B cache on meta tiled cache', 'outer', ['outer', 'inner'])):
            path = '/tms/1.0.0/%s/1/0/0.png' % (layer if layer == 'bands' else layer + '/EPSG4326')
            upstream['healthy'] = False
            status, headers, body = call(app, path)
            px = Image.open(io.BytesIO(body)).convert('RGB').getpixel((100, 100))
            cc = ', '.join(v for k, v in headers if k.lower() == 'cache-control')
            stored = [f for d in dirs for f in files(os.path.join(tmp, d))]
            print('%s: upstream down  -> %s pixel %s, Cache-control: %r, files stored: %d' % (label, status, px, cc, len(stored)))
            if 'no-store' not in cc:
                bad.append('%s: the error fill image is sent without no-store' % label)
            if stored:
                bad.append('%s: the error fill image was stored (%s)' % (label, os.path.relpath(stored[0], tmp)))
            upstream['healthy'] = True
            status, headers, body = call(app, path)
            px = Image.open(io.BytesIO(body)).convert('RGB').getpixel((100, 100))
            print('%s: upstream healthy -> %s pixel %s' % (label, status, px))
            if px != GREEN:
                bad.append('%s: after the upstream recovered the tile still shows %s' % (label, px))
    finally:
        shutil.rmtree(tmp, ignore_errors=True)
    if bad:
        print('C20/C13 BROKEN:\n  ' + '\n  '.join(bad))
        return 1
    print('C20/C13 hold: uncacheable fill images are neither stored nor sent with cache headers')
    return 0


if __name__ == '__main__':
    sys.exit(main())
