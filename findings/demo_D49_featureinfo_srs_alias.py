"""D49 (C17): a WMS source configured with `supported_srs: [EPSG:3857]` gets a GetFeatureInfo request in EPSG:900913 (the same
system under its old name; the two compare equal).  The client took the request's SRS for supported and wrote *its* code into the
upstream URL: the server was asked in an SRS that is not in the configured list.  (GetMap was repaired as D28.)
usage: demo.py [repo root]"""
import sys
sys.path.insert(0, sys.argv[1] if len(sys.argv) > 1 else '/repo')
from mapproxy.client.wms import WMSInfoClient
from mapproxy.layer import InfoQuery
from mapproxy.request.wms import create_request
from mapproxy.srs import SRS, SupportedSRS


class Http:
    def __init__(self):
        self.urls = []

    def open(self, url, data=None):
        self.urls.append(url)
        raise StopIteration          # the answer does not matter


bad = 0
for configured, asked in (('EPSG:3857', 'EPSG:900913'), ('EPSG:900913', 'EPSG:3857'), ('EPSG:3857', 'EPSG:3857'), ('EPSG:4326', 'EPSG:4326')):
    req = create_request({'url': 'http://up/wms', 'layers': 'x'}, {}, 'featureinfo')
    http = Http()
    client = WMSInfoClient(req, supported_srs=SupportedSRS([SRS(configured)]), http_client=http)
    q = InfoQuery((0, 0, 1000, 1000), (100, 100), SRS(asked), (10, 10), 'text/plain')
    try:
        client.get_info(q)
    except StopIteration:
        pass
    url = http.urls[-1].replace('%3A', ':')
    sent = [p.split('=', 1)[1] for p in url.split('?', 1)[1].split('&') if p.lower().startswith('srs=')][0]
    ok = sent == configured
    print('configured %-12s request in %-12s -> upstream asked with SRS=%s %s' % (configured, asked, sent, '' if ok else 'BROKEN'))
    bad += not ok
print('BROKEN: %d' % bad if bad else 'OK')
sys.exit(1 if bad else 0)
