#!/venv/bin/python
"""Driver: /venv/bin/python /verif/sa/check.py <property id> [--tier quick|thorough]
exit 0: all obligations discharged (known findings printed as KNOWN-FINDING)
exit 1: VIOLATION property=<id> replay=<path>
exit 2: ANALYSIS-ERROR (vanished anchor, unrecognised form, internal error)"""
import argparse
import json
import os
import sys
import time

sys.path.insert(0, os.path.dirname(os.path.dirname(os.path.abspath(__file__))))

from sa.engine import run_property, summarize, PROPS  # noqa: E402
from sa.model import Repo, AnchorMissing  # noqa: E402


def main(argv=None):
    ap = argparse.ArgumentParser()
    ap.add_argument('prop')
    ap.add_argument('--tier', default=os.environ.get('VERIF_TIER') or 'quick', choices=['quick', 'thorough'])
    ap.add_argument('--repo', default=os.environ.get('VERIF_REPO', '/repo'))
    ap.add_argument('--rules', default=None, help='comma separated rule ids')
    ap.add_argument('--replay', default=None, help='replay file: re-run the rules named in it')
    ap.add_argument('--no-evidence', action='store_true')
    ap.add_argument('--list', action='store_true', help='print every obligation')
    args = ap.parse_args(argv)
    try:
        seed = int(os.environ.get('VERIF_SEED', '0') or 0)
    except ValueError:
        seed = 0
    t0 = time.time()
    only = set(args.rules.split(',')) if args.rules else None
    write = not args.no_evidence
    if args.replay:
        with open(args.replay) as fh:
            rp = json.load(fh)
        only = set(rp.get('rules', []))
        args.tier = rp.get('tier', args.tier)
        write = False
    props = PROPS if args.prop == 'all' else [args.prop]
    worst = 0
    try:
        repo = Repo(args.repo)
    except (AnchorMissing, SyntaxError, OSError, UnicodeDecodeError) as ex:
        for p in props:
            print('ANALYSIS-ERROR property=%s cannot parse repository: %s: %s' % (p, type(ex).__name__, ex))
        return 2
    for p in props:
        t1 = time.time()
        try:
            ctx = run_property(repo, p, args.tier, only)
            if args.tier == 'thorough' and not only:
                import subprocess
                try:
                    from sa import selftest
                    selftest.report_for(ctx)
                except Exception as ex:   # the self-test never masks or creates a verdict
                    ctx.info.append('selftest failed to run: %s: %s' % (type(ex).__name__, ex))
                # mechanically generated behaviour-preserving variants of every analysed function must stay silent
                try:
                    r = subprocess.run([sys.executable, os.path.join(os.path.dirname(os.path.abspath(__file__)), '..', 'tools', 'equiv_fuzz.py'),
                                        '--props', p, '--repo', args.repo], capture_output=True, text=True)
                    lines = r.stdout.strip().splitlines() or ['?']
                    ctx.info.append('equivalence sweep %s: %s' % (p, lines[-1]))
                    for ln in lines[:-1]:
                        if ln.startswith(('ALARM', 'CRASH')):
                            ctx.info.append('EQUIV-' + ln[:300])
                    print('equivalence sweep %s: %s' % (p, lines[-1]))
                except Exception as ex:
                    ctx.info.append('equivalence sweep failed to run: %s: %s' % (type(ex).__name__, ex))
                # the normaliser (inlining, closed forms) is trusted by every rule: its differential tests run with the thorough tier
                for t in ('test_inline.py', 'test_canon.py'):
                    r = subprocess.run([sys.executable, os.path.join(os.path.dirname(os.path.abspath(__file__)), '..', 'tools', t)],
                                       capture_output=True, text=True)
                    last = (r.stdout.strip().splitlines() or ['?'])[-1]
                    ctx.info.append('engine %s: %s' % (t, last))
                    if r.returncode != 0:
                        ctx.errors.append(('engine', '%s failed: %s' % (t, last)))
            if args.list:
                for o in ctx.obs:
                    print('  [%s] %s %s -- %s' % (o.status, o.key, o.where, o.msg))
            code = summarize(ctx, time.time() - t1 + (t1 - t0 if p == props[0] else 0), seed, write=write)
        except Exception as ex:
            import traceback
            print('ANALYSIS-ERROR property=%s driver: %s: %s' % (p, type(ex).__name__, ex))
            traceback.print_exc(file=sys.stderr)
            code = 2
        worst = max(worst, code) if code != 1 and worst != 1 else 1
    return worst


if __name__ == '__main__':
    sys.exit(main())
