"""Statement-level control flow graph, dominators, guard (edge-dominance)
queries and comparison normal forms."""
import ast

# ------------------------------------------------------------------ helpers


def dotted(node):
    if isinstance(node, ast.Name):
        return node.id
    if isinstance(node, ast.Attribute):
        b = dotted(node.value)
        return (b + '.' if b else '?.') + node.attr
    if isinstance(node, ast.Call):
        b = dotted(node.func)
        return (b or '?') + '()'
    if isinstance(node, ast.Subscript):
        b = dotted(node.value)
        return (b or '?') + '[]'
    return None


def call_name(call):
    return dotted(call.func) if isinstance(call, ast.Call) else None


def is_call(x, *suffixes):
    """x is a call whose dotted callee equals or ends with .<suffix> -- as written, or with a local receiver replaced by the
    definition that reaches the call (`g = self.grid; g.tile(..)` is a call of `self.grid.tile`)"""
    if not isinstance(x, ast.Call):
        return False
    n = call_name(x) or ''
    if any(n == s or n.endswith('.' + s) for s in suffixes):
        return True
    if not any('.' in s for s in suffixes):
        return False            # a bare method name matches whatever the receiver is: already decided above
    f = x.func
    root = f
    while isinstance(root, ast.Attribute):
        root = root.value
    if not (isinstance(f, ast.Attribute) and isinstance(root, ast.Name)) or root.id in ('self', 'cls'):
        return False
    return any(n2 == s or n2.endswith('.' + s) for n2 in _closed_callee(x) for s in suffixes)


def _closed_callee(call):
    """dotted callees of a call with the receiver in (partially) closed form, cached on the node; [] if it is the same as written"""
    c = getattr(call, '_closed_callee', None)
    if c is not None:
        return c
    out = []
    fn = _fn_of(call)
    if fn is not None:
        # resolved one definition at a time: `p = req.params; p.update()` is `req.params.update` before it is
        # `self.request_template.copy().params.update`
        for depth in (1, 2, 3, 12):
            try:
                recv = fn.canon.expr(call.func.value, depth=depth)
                d = dotted(recv)
                if d and d != dotted(call.func.value) and d + '.' + call.func.attr not in out:
                    out.append(d + '.' + call.func.attr)
            except Exception:       # noqa
                break
    try:
        call._closed_callee = out
    except Exception:       # noqa
        pass
    return out


def simple_name(call):
    n = call_name(call) or ''
    return n.split('.')[-1]


def contains(node, pred):
    return any(pred(x) for x in ast.walk(node))


def find_all(node, pred):
    return [x for x in ast.walk(node) if pred(x)]


def unparse(n):
    try:
        return ast.unparse(n)
    except Exception:
        return '<%s>' % type(n).__name__


def _fn_of(n):
    """the model's Fn object of the (innermost) function an expression node belongs to, if it is linked into a tree"""
    k = n
    for _ in range(200):
        if k is None:
            return None
        f = getattr(k, '_fn', None)
        if f is not None and isinstance(k, (ast.FunctionDef, ast.AsyncFunctionDef)):
            return f
        k = getattr(k, '_parent', None)
    return None


def ctext_of(e):
    """closed-form text of an expression that is linked into a function's tree (no blanks); its literal text otherwise"""
    f = _fn_of(e)
    if f is not None:
        try:
            return f.ctext(e)
        except Exception:       # noqa
            pass
    return unparse(e).replace(' ', '')


def cexpr(e):
    """closed form of an expression that is linked into a function's tree, as a tree (locals replaced by the definition that reaches
    the use); the expression itself when it has no closed form"""
    f = _fn_of(e)
    if f is not None:
        try:
            return f.canon.expr(e)
        except Exception:       # noqa
            pass
    return e


def same(e, text):
    """does expression e denote `text`?  Either literally, or in closed form (locals replaced by the definition that reaches the use):
    `size = query.size; f(size)` passes `query.size`.  Blanks are ignored."""
    want = text.replace(' ', '')
    lit = unparse(e).replace(' ', '')
    if lit == want:
        return True
    f = _fn_of(e)
    if f is None:
        return False
    try:
        ce = f.ctext(e)
        if ce == want:
            return True
        # `text` may itself name a local of the function: both sides in closed form, evaluated where e is
        at = f.cfg.node_for(e)
        if at is not None:
            w = ast.parse(text, mode='eval').body
            return f.canon.text(w, at=at) == ce
    except Exception:       # noqa
        return False
    return False


def same_args(args, texts):
    """the argument expressions denote the given texts, one by one (see same())"""
    args = list(args)
    return len(args) == len(texts) and all(same(a, t) for a, t in zip(args, texts))


def const_value(n, default=None):
    if isinstance(n, ast.Constant):
        return n.value
    if isinstance(n, ast.UnaryOp) and isinstance(n.op, ast.USub) and isinstance(n.operand, ast.Constant):
        return -n.operand.value
    return default


def own_exprs(st):
    """expressions evaluated by the statement node itself (not nested bodies)"""
    if isinstance(st, (ast.If, ast.While)):
        return [st.test]
    if isinstance(st, (ast.For, ast.AsyncFor)):
        return [st.iter, st.target]
    if isinstance(st, (ast.With, ast.AsyncWith)):
        out = []
        for it in st.items:
            out.append(it.context_expr)
            if it.optional_vars is not None:
                out.append(it.optional_vars)
        return out
    if isinstance(st, ast.Try):
        return []
    if isinstance(st, ast.ExceptHandler):
        return [st.type] if st.type is not None else []
    if isinstance(st, (ast.FunctionDef, ast.AsyncFunctionDef, ast.ClassDef)):
        return []
    if isinstance(st, ast.Match):
        return [st.subject]
    return [c for c in ast.iter_child_nodes(st) if isinstance(c, ast.expr)]


def walk_own(st):
    """all expression nodes evaluated by the statement itself; does not
    descend into lambda bodies? -> it does (lambdas are part of the value)."""
    for e in own_exprs(st):
        yield from ast.walk(e)


# --------------------------------------------------------------- normal forms

class Atom:
    """canonical test atom.  kind 'cmp' with op in {'<','==','is','in'} or
    kind 'expr' (truthiness of an expression)."""
    __slots__ = ('op', 'left', 'right', 'expr', 'text')

    def __init__(self, op=None, left=None, right=None, expr=None):
        self.op, self.left, self.right, self.expr = op, left, right, expr
        if op:
            l, r = unparse(left), unparse(right)
            if op == '==':
                l, r = sorted([l, r])
            self.text = '%s %s %s' % (l, op, r)
        else:
            self.text = unparse(expr)

    def __repr__(self):
        return 'Atom(%s)' % self.text

    def nodes(self):
        return [self.left, self.right] if self.op else [self.expr]

    def mentions(self, pred):
        return any(contains(n, pred) for n in self.nodes())


def norm_cmp(left, op, right):
    """-> (Atom, polarity)"""
    t = type(op)
    if t in (ast.Gt, ast.GtE):
        left, right = right, left
        t = ast.Lt if t is ast.Gt else ast.LtE
    if t is ast.Lt:
        return Atom('<', left, right), True
    if t is ast.LtE:            # a <= b  ==  not (b < a)
        return Atom('<', right, left), False
    if t is ast.Eq:
        return Atom('==', left, right), True
    if t is ast.NotEq:
        return Atom('==', left, right), False
    if t is ast.Is:
        # `x is None` and `x == None` are the same atom
        if isinstance(right, ast.Constant) and right.value is None:
            return Atom('==', left, right), True
        return Atom('is', left, right), True
    if t is ast.IsNot:
        if isinstance(right, ast.Constant) and right.value is None:
            return Atom('==', left, right), False
        return Atom('is', left, right), False
    if t is ast.In:
        return Atom('in', left, right), True
    if t is ast.NotIn:
        return Atom('in', left, right), False
    raise ValueError(ast.dump(op))


def literals(test):
    """flatten a test into a boolean structure over atoms:
    ('and'|'or', [items]) | ('not', item) | ('atom', Atom, polarity)"""
    if isinstance(test, ast.BoolOp):
        return ('and' if isinstance(test.op, ast.And) else 'or', [literals(v) for v in test.values])
    if isinstance(test, ast.UnaryOp) and isinstance(test.op, ast.Not):
        return ('not', literals(test.operand))
    if isinstance(test, ast.Compare):
        ops = [test.left] + test.comparators
        items = []
        for a, op, b in zip(ops, test.ops, ops[1:]):
            at, pol = norm_cmp(a, op, b)
            items.append(('atom', at, pol))
        return items[0] if len(items) == 1 else ('and', items)
    if isinstance(test, ast.Constant):
        return ('const', bool(test.value))
    if isinstance(test, ast.Call) and isinstance(test.func, ast.Name) and test.func.id == 'bool' and len(test.args) == 1 and not test.keywords:
        return literals(test.args[0])           # bool(x) has the truth value of x
    return ('atom', Atom(expr=test), True)


def implied(test, polarity):
    """atoms whose value is forced when `test` evaluates to `polarity`:
    list of (Atom, pol)"""
    return _implied(literals(test), polarity)


def _implied(s, pol):
    k = s[0]
    if k == 'atom':
        return [(s[1], s[2] == pol)]
    if k == 'const':
        return []
    if k == 'not':
        return _implied(s[1], not pol)
    if k == 'and':
        if pol:
            return [x for it in s[1] for x in _implied(it, True)]
        return _implied(s[1][0], False) if len(s[1]) == 1 else []
    if k == 'or':
        if not pol:
            return [x for it in s[1] for x in _implied(it, False)]
        return _implied(s[1][0], True) if len(s[1]) == 1 else []
    return []


def const_truth(s):
    """truth value of a boolean structure if it is decided by constants alone, else None"""
    k = s[0]
    if k == 'const':
        return s[1]
    if k == 'atom':
        return None
    if k == 'not':
        v = const_truth(s[1])
        return None if v is None else not v
    vals = [const_truth(it) for it in s[1]]
    if k == 'and':
        if any(v is False for v in vals):
            return False
        return True if all(v is True for v in vals) else None
    if any(v is True for v in vals):
        return True
    return False if all(v is False for v in vals) else None


def all_atoms(test):
    out = []

    def rec(s):
        if s[0] == 'atom':
            out.append((s[1], s[2]))
        elif s[0] == 'not':
            rec(s[1])
        elif s[0] in ('and', 'or'):
            for it in s[1]:
                rec(it)
    rec(literals(test))
    return out


def eval_struct(s, asg):
    """evaluate a boolean structure under an assignment atom.text -> bool"""
    k = s[0]
    if k == 'atom':
        return asg[s[1].text] == s[2]
    if k == 'const':
        return s[1]
    if k == 'not':
        return not eval_struct(s[1], asg)
    vals = [eval_struct(it, asg) for it in s[1]]
    return all(vals) if k == 'and' else any(vals)


# ------------------------------------------------------------------------ CFG

# simple names of repository functions that never return normally (set by model.Repo from the parsed tree)
NORETURN = set()


def always_raises(stmts):
    """does every path through this statement list end in a raise (syntactic: raise / if with both branches raising)?"""
    if not stmts:
        return False
    last = stmts[-1]
    if isinstance(last, ast.Raise):
        return True
    if isinstance(last, ast.If):
        return always_raises(last.body) and always_raises(last.orelse)
    if isinstance(last, (ast.With, ast.AsyncWith)):
        return always_raises(last.body)
    return False


class CFG:
    """Nodes are ints; 0 entry, 1 normal exit, 2 raise exit.  stmt[n] is the
    ast statement (or ExceptHandler).  label[(s,d)] = (test_expr, polarity)
    for branch edges; loop edges carry ('loop', True/False)."""
    ENTRY, EXIT, RAISE = 0, 1, 2

    def __init__(self, fn):
        self.fn = fn
        self.succ = {0: [], 1: [], 2: []}
        self.stmt = {0: None, 1: None, 2: None}
        self.label = {}
        self.exc_edges = set()
        self.node_of = {}        # id(ast stmt) -> node
        self._n = 3
        ends = self._block(fn.body, [(0, None)], None, [], [])
        for e in ends:
            self._edge(e, 1)
        self._dom = None
        self._pred = None

    def _new(self, node):
        n = self._n
        self._n += 1
        self.succ[n] = []
        self.stmt[n] = node
        self.node_of[id(node)] = n
        return n

    def _edge(self, src, dst, exc=False):
        s, lab = src
        if dst not in self.succ[s]:
            self.succ[s].append(dst)
        if lab is not None:
            self.label[(s, dst)] = lab
        if exc:
            self.exc_edges.add((s, dst))

    def _block(self, stmts, preds, loop, handlers, finals):
        for st in stmts:
            if not preds:
                break
            preds = self._stmt(st, preds, loop, handlers, finals)
        return preds

    def _stmt(self, st, preds, loop, handlers, finals):
        n = self._new(st)
        for p in preds:
            self._edge(p, n)
        for h in handlers:
            self._edge((n, None), h, exc=True)
        if isinstance(st, ast.If):
            tv = const_truth(literals(st.test))     # `if True:` / `x or True`: the other edge is dead
            t = self._block(st.body, [(n, (st.test, True))], loop, handlers, finals) if tv is not False else []
            if tv is True:
                f = []
            elif st.orelse:
                f = self._block(st.orelse, [(n, (st.test, False))], loop, handlers, finals)
            else:
                f = [(n, (st.test, False))]
            return t + f
        if isinstance(st, (ast.For, ast.AsyncFor, ast.While)):
            brk = []
            ctx = {'head': n, 'breaks': brk}
            tlabel = (st.test, True) if isinstance(st, ast.While) else ('loop', True)
            flabel = (st.test, False) if isinstance(st, ast.While) else ('loop', False)
            body_end = self._block(st.body, [(n, tlabel)], ctx, handlers, finals)
            for e in body_end:
                self._edge(e, n)
            out = []
            infinite = isinstance(st, ast.While) and isinstance(st.test, ast.Constant) and bool(st.test.value)
            if not infinite:
                out = [(n, flabel)]
            if st.orelse and out:
                out = self._block(st.orelse, out, loop, handlers, finals)
            return out + brk
        if isinstance(st, (ast.With, ast.AsyncWith)):
            return self._block(st.body, [(n, None)], loop, handlers, finals)
        if isinstance(st, ast.Try):
            hnodes = [self._new(h) for h in st.handlers]
            inner_finals = finals + ([st] if st.finalbody else [])
            body_end = self._block(st.body, [(n, None)], loop, handlers + hnodes if hnodes else handlers, inner_finals)
            if st.orelse:
                body_end = self._block(st.orelse, body_end, loop, handlers, inner_finals)
            ends = list(body_end)
            for h, hn in zip(st.handlers, hnodes):
                ends += self._block(h.body, [(hn, None)], loop, handlers, inner_finals)
            if st.finalbody:
                ends = self._block(st.finalbody, ends, loop, handlers, finals)
            return ends
        if isinstance(st, ast.Return):
            self._edge((n, None), 1)
            return []
        if isinstance(st, ast.Raise) or (isinstance(st, ast.Expr) and isinstance(st.value, ast.Call) and
                                         (call_name(st.value) or '').split('.')[-1] in NORETURN):
            # a raise statement, or a call of a function of the repository every path of which raises (reraise(..))
            if not handlers:
                self._edge((n, None), 2)
            return []
        if isinstance(st, ast.Break):
            if loop is not None:
                loop['breaks'].append((n, None))
            return []
        if isinstance(st, ast.Continue):
            if loop is not None:
                self._edge((n, None), loop['head'])
            return []
        return [(n, None)]

    # ------------------------------------------------------------ relations
    def nodes(self):
        return list(self.succ)

    def preds(self):
        if self._pred is None:
            p = {n: [] for n in self.succ}
            for s, ds in self.succ.items():
                for d in ds:
                    p[d].append(s)
            self._pred = p
        return self._pred

    def dominators(self):
        if self._dom is not None:
            return self._dom
        nodes = self.nodes()
        preds = self.preds()
        dom = {n: set(nodes) for n in nodes}
        dom[0] = {0}
        changed = True
        while changed:
            changed = False
            for n in nodes:
                if n == 0:
                    continue
                ps = [dom[p] for p in preds[n]]
                new = (set.intersection(*ps) if ps else set()) | {n}
                if new != dom[n]:
                    dom[n] = new
                    changed = True
        self._dom = dom
        return dom

    def dominates(self, a, b):
        return a in self.dominators()[b]

    def reachable(self, src=0, skip_edges=(), avoid=(), no_exc=False):
        """set of nodes reachable from src without using skip_edges and
        without passing *through* nodes in avoid"""
        skip = set(skip_edges)
        seen, stack = set(), [src]
        while stack:
            n = stack.pop()
            if n in seen:
                continue
            seen.add(n)
            if n in avoid and n != src:
                continue
            for d in self.succ[n]:
                if (n, d) in skip:
                    continue
                if no_exc and (n, d) in self.exc_edges:
                    continue
                stack.append(d)
        return seen

    def reaches_avoiding(self, a, b, avoid=(), no_exc=False, skip_edges=()):
        """is there a path a ->+ b that avoids passing through `avoid` (and does not use `skip_edges`)"""
        seen = set()
        skip = set(skip_edges)
        stack = [d for d in self.succ[a] if not (no_exc and (a, d) in self.exc_edges) and (a, d) not in skip]
        av = set(avoid)
        while stack:
            n = stack.pop()
            if n == b:
                return True
            if n in seen or n in av:
                continue
            seen.add(n)
            for d in self.succ[n]:
                if no_exc and (n, d) in self.exc_edges:
                    continue
                if (n, d) in skip:
                    continue
                stack.append(d)
        return False

    def node_for(self, astnode):
        """CFG node of the statement that evaluates `astnode`"""
        n = astnode
        while n is not None:
            if id(n) in self.node_of:
                # make sure astnode is evaluated by this statement itself
                return self.node_of[id(n)]
            n = getattr(n, '_parent', None)
        return None

    def find(self, pred):
        """[(cfg node, ast node)] for expression nodes matching pred, attributed to
        the statement that evaluates them"""
        out = []
        for n, st in self.stmt.items():
            if st is None:
                continue
            for x in walk_own(st):
                if pred(x):
                    out.append((n, x))
        out.sort(key=lambda t: (getattr(t[1], 'lineno', 0), getattr(t[1], 'col_offset', 0)))
        return out

    def find_stmts(self, pred):
        return sorted([n for n, st in self.stmt.items() if st is not None and pred(st)])

    # ------------------------------------------------------------- guards
    def branch_edges(self):
        """[(src, dst, test, polarity)] for If/While edges"""
        return [(s, d, lab[0], lab[1]) for (s, d), lab in self.label.items() if not isinstance(lab[0], str)]

    def guard_edges(self, atom_pred, polarity):
        """edges that imply an atom satisfying atom_pred has `polarity`"""
        out = []
        for s, d, test, pol in self.branch_edges():
            for at, p in implied(test, pol):
                if p == polarity and atom_pred(at):
                    out.append((s, d))
                    break
        return out

    def guarded(self, b, atom_pred, polarity):
        """True iff every entry->b path takes an edge implying an atom matching
        atom_pred with the given polarity (edge dominance)."""
        edges = self.guard_edges(atom_pred, polarity)
        if edges and b not in self.reachable(0, skip_edges=edges):
            return True
        # the test may be held in a named flag / temporary, or be decided by an earlier test on the same path
        return self.guarded_any(b, [(atom_pred, polarity)])

    def guarded_any(self, b, alternatives):
        """True iff every entry->b path takes an edge implying one of the alternatives [(atom_pred, polarity), ...]"""
        edges = [e for pred, pol in alternatives for e in self.guard_edges(pred, pol)]
        if edges and b not in self.reachable(0, skip_edges=edges):
            return True

        def skip(s, d, struct, pol):
            return entails_any(struct, pol, alternatives)
        seen, complete = self.pathsens().run(0, skip=skip)
        return complete and b not in seen

    def pathsens(self):
        if getattr(self, '_ps', None) is None:
            self._ps = PathSens(self)
        return self._ps

    def reachable_ps(self, src=0, skip=None, skip_edges=(), no_exc=False):
        """path-sensitive variant of reachable() (tracked flags and repeated tests are followed, see PathSens)"""
        return self.pathsens().run(src, skip=skip, skip_edges=skip_edges, no_exc=no_exc)[0]

    def guards_of(self, b):
        """all (Atom, polarity) that edge-dominate b (informational)"""
        out = []
        for s, d, test, pol in self.branch_edges():
            if b not in self.reachable(0, skip_edges=[(s, d)]):
                out.extend(implied(test, pol))
        return out

    def lexically_inside(self, astnode, stmt_pred):
        n = getattr(astnode, '_parent', None)
        while n is not None and n is not self.fn:
            if stmt_pred(n):
                return n
            n = getattr(n, '_parent', None)
        return None

    def path(self, a, b, skip_edges=()):
        """one path a -> b as list of line numbers (for reports)"""
        skip = set(skip_edges)
        prev = {a: None}
        queue = [a]
        while queue:
            n = queue.pop(0)
            if n == b:
                break
            for d in self.succ[n]:
                if (n, d) in skip or d in prev:
                    continue
                prev[d] = n
                queue.append(d)
        if b not in prev:
            return None
        out, n = [], b
        while n is not None:
            st = self.stmt[n]
            out.append('L%d' % st.lineno if st is not None else {0: 'entry', 1: 'exit', 2: 'raise'}[n])
            n = prev[n]
        return ' -> '.join(reversed(out))


def enclosing_stmt(node):
    n = node
    while n is not None and not isinstance(n, ast.stmt):
        n = getattr(n, '_parent', None)
    return n


def enclosing(node, types):
    n = getattr(node, '_parent', None)
    while n is not None:
        if isinstance(n, types):
            return n
        n = getattr(n, '_parent', None)
    return None


# ------------------------------------------------------------------------ path-sensitive reachability

def _strip_links(e):
    if isinstance(e, list):
        return [_strip_links(x) for x in e]
    if not isinstance(e, ast.AST):
        return e
    new = e.__class__()
    for k, v in e.__dict__.items():
        if k != '_parent':
            setattr(new, k, _strip_links(v) if isinstance(v, (ast.AST, list)) else v)
    return new


class _SubstNames(ast.NodeTransformer):
    def __init__(self, env):
        self.env = env

    def visit_Name(self, n):
        if isinstance(n.ctx, ast.Load) and n.id in self.env:
            return _strip_links(self.env[n.id])
        return n

    def _scoped(self, n):        # names bound by a comprehension / lambda shadow tracked locals
        bound = set()
        if isinstance(n, ast.Lambda):
            bound = {a.arg for a in ast.walk(n.args) if isinstance(a, ast.arg)}
        else:
            for gen in n.generators:
                bound |= {x.id for x in ast.walk(gen.target) if isinstance(x, ast.Name)}
        if bound & set(self.env):
            return _SubstNames({k: v for k, v in self.env.items() if k not in bound}).generic_visit(n)
        return self.generic_visit(n)

    visit_Lambda = visit_ListComp = visit_SetComp = visit_DictComp = visit_GeneratorExp = _scoped


def _eval3(s, facts):
    """three-valued value of a boolean structure under partial knowledge atom text -> bool"""
    k = s[0]
    if k == 'const':
        return s[1]
    if k == 'atom':
        v = facts.get(s[1].text)
        return None if v is None else (v == s[2])
    if k == 'not':
        v = _eval3(s[1], facts)
        return None if v is None else not v
    vals = [_eval3(it, facts) for it in s[1]]
    if k == 'and':
        if any(v is False for v in vals):
            return False
        return True if all(v is True for v in vals) else None
    if any(v is True for v in vals):
        return True
    return False if all(v is False for v in vals) else None


def _names_in(e):
    return {n.id for n in ast.walk(e) if isinstance(n, ast.Name)}


def struct_atoms(s, out=None):
    out = {} if out is None else out
    if s[0] == 'atom':
        out.setdefault(s[1].text, s[1])
    elif s[0] == 'not':
        struct_atoms(s[1], out)
    elif s[0] in ('and', 'or'):
        for it in s[1]:
            struct_atoms(it, out)
    return out


def entails_any(struct, pol, alternatives):
    """does `struct == pol` force one of the alternatives [(atom_pred, polarity)] (checked over every assignment of the atoms)?"""
    import itertools
    atoms = struct_atoms(struct)
    want = {t: w for t, a in atoms.items() for pred, w in alternatives if pred(a)}
    if not want or len(atoms) > 10:
        return False
    names = sorted(atoms)
    some = False
    for vals in itertools.product([False, True], repeat=len(names)):
        asg = dict(zip(names, vals))
        if eval_struct(struct, asg) != pol:
            continue
        some = True
        if not any(asg[t] == w for t, w in want.items()):
            return False
    return some


class PathSens:
    """Reachability in the product of the CFG with (a) the symbolic values of *tracked locals* (locals every binding of which is a
    plain `name = expr`: flags, named conditions, temporaries) and (b) the truth values of test atoms already decided on the path.
    A branch edge whose test -- after the tracked locals are replaced by their values -- is decided the other way by constants or
    by an earlier test on the same path is infeasible and not followed.  Everything not tracked is left uninterpreted, so the
    result over-approximates the feasible paths (a node reported unreachable is unreachable)."""
    MAX_STATES = 20000
    MAX_EXPR = 80

    def __init__(self, g):
        self.g = g
        fn = g.fn
        params = {a.arg for a in ast.walk(fn.args) if isinstance(a, ast.arg)}
        simple, other = {}, set()
        self.binds = {}
        for n, st in g.stmt.items():
            if st is None:
                continue
            b = set()
            if isinstance(st, ast.Assign):
                for t in st.targets:
                    if isinstance(t, ast.Name) and len(st.targets) == 1:
                        simple.setdefault(t.id, []).append(st)
                        b.add(t.id)
                    else:
                        for x in ast.walk(t):
                            if isinstance(x, ast.Name) and isinstance(x.ctx, ast.Store):
                                other.add(x.id)
                                b.add(x.id)
            elif isinstance(st, (ast.AugAssign, ast.AnnAssign)):
                for x in ast.walk(st.target):
                    if isinstance(x, ast.Name):
                        other.add(x.id)
                        b.add(x.id)
            elif isinstance(st, (ast.For, ast.AsyncFor)):
                for x in ast.walk(st.target):
                    if isinstance(x, ast.Name):
                        other.add(x.id)
                        b.add(x.id)
            elif isinstance(st, (ast.With, ast.AsyncWith)):
                for it in st.items:
                    if it.optional_vars is not None:
                        for x in ast.walk(it.optional_vars):
                            if isinstance(x, ast.Name):
                                other.add(x.id)
                                b.add(x.id)
            elif isinstance(st, ast.ExceptHandler) and st.name:
                other.add(st.name)
                b.add(st.name)
            elif isinstance(st, (ast.FunctionDef, ast.AsyncFunctionDef, ast.ClassDef)):
                other.add(st.name)
                b.add(st.name)
            elif isinstance(st, (ast.Import, ast.ImportFrom)):
                for a in st.names:
                    other.add((a.asname or a.name).split('.')[0])
            for x in walk_own(st):
                if isinstance(x, ast.NamedExpr) and isinstance(x.target, ast.Name):
                    other.add(x.target.id)
                    b.add(x.target.id)
            self.binds[n] = b
        # other kinds of binding (loop targets, `except .. as`, augmented assignments) end what is known about the name at their
        # node (self.binds); only names a nested function can rebind behind the analysis' back are not tracked at all
        shared_scope = set()
        for x in ast.walk(fn):
            if isinstance(x, (ast.Global, ast.Nonlocal)):
                shared_scope.update(x.names)
        self.tracked = {n for n in simple if n not in shared_scope}
        # atoms that are evaluated by more than one test (directly or through the value of a tracked local): only their truth
        # values are remembered along a path
        count = {}

        def occ(e, depth=0):
            for at, _ in all_atoms(e):
                count[at.text] = count.get(at.text, 0) + 1
            if depth < 3:
                for nm in _names_in(e) & self.tracked:
                    for d in simple[nm]:
                        occ(d.value, depth + 1)
        for st in g.stmt.values():
            if isinstance(st, (ast.If, ast.While, ast.Assert)):
                occ(st.test)
        self.shared = {a for a, c in count.items() if c > 1}

    def subst(self, e, env):
        if not env or not (_names_in(e) & set(env)):
            return e
        return _SubstNames(env).visit(_strip_links(e))

    def run(self, src=0, skip=None, skip_edges=(), no_exc=False, env=None, facts=None):
        """-> (set of reachable nodes, complete?)   skip(s, d, structure, polarity) -> True: do not follow this branch edge"""
        g = self.g
        static_skip = set(skip_edges)
        env0 = dict(env or {})
        facts0 = dict(facts or {})

        def key(n, env, facts):
            return (n, tuple(sorted((k, unparse(v)) for k, v in env.items())), tuple(sorted(facts.items())))
        seen_states = set()
        seen_nodes = set()
        stack = [(src, env0, facts0)]
        while stack:
            n, env, facts = stack.pop()
            k = key(n, env, facts)
            if k in seen_states:
                continue
            seen_states.add(k)
            seen_nodes.add(n)
            if len(seen_states) > self.MAX_STATES:
                return g.reachable(src, skip_edges=static_skip, no_exc=no_exc), False
            st = g.stmt[n]
            # state after the statement completed normally
            env_after, facts_after = env, facts
            b = self.binds.get(n, ())
            if b:
                env_after = {k2: v for k2, v in env.items() if k2 not in b and not (_names_in(v) & b)}
                facts_after = {a: v for a, v in facts.items() if not any(_mentions(a, nm) for nm in b)}
                if isinstance(st, ast.Assign) and len(st.targets) == 1 and isinstance(st.targets[0], ast.Name) and st.targets[0].id in self.tracked:
                    val = self.subst(st.value, env)
                    if sum(1 for _ in ast.walk(val)) <= self.MAX_EXPR and st.targets[0].id not in _names_in(val):
                        env_after = dict(env_after)
                        env_after[st.targets[0].id] = val
            elif isinstance(st, (ast.Assign, ast.AugAssign)):
                # attribute / item store: forget what was known about expressions that mention the target
                tg = [unparse(t) for t in (st.targets if isinstance(st, ast.Assign) else [st.target]) if isinstance(t, (ast.Attribute, ast.Subscript))]
                if tg:
                    facts_after = {a: v for a, v in facts.items() if not any(t in a for t in tg)}
                    env_after = {k2: v for k2, v in env.items() if not any(t in unparse(v) for t in tg)}
            for d in g.succ[n]:
                if (n, d) in static_skip:
                    continue
                exc = (n, d) in g.exc_edges
                if exc and no_exc:
                    continue
                lab = g.label.get((n, d))
                if exc:
                    stack.append((d, env, facts))
                    continue
                if lab is None or isinstance(lab[0], str):
                    stack.append((d, env_after, facts_after))
                    continue
                test, pol = lab
                s = literals(self.subst(test, env))
                v = _eval3(s, facts)
                if v is not None and v != pol:
                    continue
                if skip is not None:
                    # the guard may be recognisable in the test as written, with only the named conditions replaced, or with
                    # every tracked local replaced by its value
                    variants = [s]
                    if env and (_names_in(test) & set(env)):
                        variants.append(literals(test))
                        flags = {k2: v for k2, v in env.items() if _is_condition(v)}
                        if flags and len(flags) != len(env):
                            variants.append(literals(self.subst(test, flags)))
                    if any(skip(n, d, v, pol) for v in variants):
                        continue
                nf = facts
                add = [(at.text, p) for at, p in _implied(s, pol) if at.text in self.shared]
                if add:
                    nf = dict(facts)
                    nf.update(add)
                stack.append((d, env, nf))
        return seen_nodes, True


def _is_condition(v):
    return isinstance(v, (ast.Compare, ast.BoolOp)) or (isinstance(v, ast.UnaryOp) and isinstance(v.op, ast.Not)) or \
        (isinstance(v, ast.Constant) and (isinstance(v.value, bool) or v.value is None))


def _mentions(text, name):
    import re
    return re.search(r'(?<![\w.])%s(?!\w)' % re.escape(name), text) is not None
