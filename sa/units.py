"""Dimension discipline (after Kennedy's dimension types): two base dimensions,
ground units `gu` and pixels `px`; counts and factors are dimensionless.  Seeds are
structural (never name based); numeric literals are dimension-polymorphic.

  elements of ...bbox / results of tile_bbox, _tiles_bbox       -> gu
  elements of tile_size, size, buffers; meta_buffer               -> px
  resolution(), resolutions[...], get_resolution()                -> gu/px
  grid_sizes, meta_size, tile coordinates, factors                -> 1
`*`, `/`, `//` add/subtract exponents; `+`, `-`, ordering comparisons, min/max and assignments to a
name that already has a dimension require equal dimensions."""
import ast
import re

from .cfg import unparse, const_value, call_name, simple_name, dotted

WILD = 'WILD'
GU, PX, RES, ONE = (1, 0), (0, 1), (1, -1), (0, 0)

ATTR_UNITS = [
    (re.compile(r'(^|\.)(\w*bbox)\[\]$'), GU),
    (re.compile(r'(^|\.)(tile_size|size|src_size|out_size|dst_size)\[\]$'), PX),
    (re.compile(r'(^|\.)(resolutions)\[\]$'), RES),
    (re.compile(r'(^|\.)(grid_sizes)\[\]\[\]$'), ONE),
    (re.compile(r'(^|\.)(grid_size|tile_grid|meta_size)\[\]$'), ONE),
    (re.compile(r'(^|\.)(tile_coord|coord|main_tile)\[\]$'), ONE),
    (re.compile(r'(^|\.)(buffers)\[\]$'), PX),
    (re.compile(r'(^|\.)(meta_buffer)$'), PX),
    (re.compile(r'(^|\.)(stretch_factor|max_shrink_factor|levels)$'), ONE),
]
CALL_UNITS = {'resolution': RES, 'get_resolution': RES}
SEQ_CALL_UNITS = {'tile_bbox': GU, '_tiles_bbox': GU, 'unbuffered_meta_bbox': GU, '_meta_size': ONE}


def show(u):
    if u in (None, WILD):
        return str(u)
    names = {GU: 'ground units', PX: 'pixels', RES: 'ground units per pixel', ONE: 'a count'}
    return names.get(u, 'gu^%d px^%d' % u)


def mul(a, b, sign=1):
    if a is None or b is None:
        return None
    if a == WILD or b == WILD:
        # a numeric literal may carry any dimension ("a tenth of a pixel in ground units"): the product is undetermined
        return WILD
    return (a[0] + sign * b[0], a[1] + sign * b[1])


class Units(ast.NodeVisitor):
    def __init__(self, fnnode, param_units=None):
        self.env = dict(param_units or {})
        self.seq = {}        # name -> unit of the elements of a sequence bound to that name
        self.out = []
        self.fn = fnnode
        for _ in range(2):
            self.out = []
            for st in fnnode.body:
                self.visit(st)

    def unit(self, e):
        if isinstance(e, ast.Constant):
            return WILD if isinstance(e.value, (int, float)) and not isinstance(e.value, bool) else None
        if isinstance(e, ast.Name):
            return self.env.get(e.id)
        if isinstance(e, ast.Subscript) and isinstance(e.value, ast.Name) and e.value.id in self.seq and not isinstance(e.slice, ast.Slice):
            return self.seq[e.value.id]
        if isinstance(e, ast.Subscript) and isinstance(e.value, ast.Call) and simple_name(e.value) in SEQ_CALL_UNITS:
            return SEQ_CALL_UNITS[simple_name(e.value)]
        d = dotted(e)
        if d and isinstance(e, (ast.Attribute, ast.Subscript)):
            for rx, u in ATTR_UNITS:
                if rx.search(d):
                    return u
            return None
        if isinstance(e, ast.UnaryOp):
            return self.unit(e.operand)
        if isinstance(e, ast.BinOp):
            l, r = self.unit(e.left), self.unit(e.right)
            if isinstance(e.op, ast.Mult):
                return mul(l, r, 1)
            if isinstance(e.op, (ast.Div, ast.FloorDiv)):
                return mul(l, r, -1)
            if isinstance(e.op, (ast.Add, ast.Sub)):
                return l if l not in (None, WILD) else r
            if isinstance(e.op, ast.Mod):
                return l
            if isinstance(e.op, ast.Pow):
                return WILD
            return None
        if isinstance(e, ast.Call):
            n = simple_name(e)
            if n in ('int', 'float', 'round', 'abs', 'floor', 'ceil') and e.args:
                return self.unit(e.args[0])
            if n in ('min', 'max') and e.args:
                known = [u for u in (self.unit(a) for a in e.args) if u not in (None, WILD)]
                return known[0] if known else None
            if n in CALL_UNITS:
                return CALL_UNITS[n]
            return None
        if isinstance(e, ast.IfExp):
            a, b = self.unit(e.body), self.unit(e.orelse)
            return a if a not in (None, WILD) else b
        return None

    def _mismatch(self, node, l, r, what):
        if l not in (None, WILD) and r not in (None, WILD) and l != r:
            self.out.append((node, '%s of %s and %s: %s' % (what, show(l), show(r), unparse(node)[:80])))

    def visit_Assign(self, n):
        self.generic_visit(n)
        u = self.unit(n.value)
        for t in n.targets:
            if isinstance(t, ast.Name):
                if u not in (None, WILD):
                    old = self.env.get(t.id)
                    if old not in (None, WILD) and old != u and not isinstance(n.value, ast.Constant):
                        self.out.append((n, '%r holds %s but is assigned %s: %s' % (t.id, show(old), show(u), unparse(n)[:80])))
                    else:
                        self.env[t.id] = u
                # sequences
                su = self._seq_unit(n.value)
                if su is not None:
                    self.seq[t.id] = su
            elif isinstance(t, (ast.Tuple, ast.List)):
                su = self._seq_unit(n.value)
                if isinstance(n.value, (ast.Tuple, ast.List)) and len(n.value.elts) == len(t.elts):
                    for tt, vv in zip(t.elts, n.value.elts):
                        if isinstance(tt, ast.Name):
                            uu = self.unit(vv)
                            if uu not in (None, WILD):
                                self.env[tt.id] = uu
                elif su is not None:
                    for tt in t.elts:
                        if isinstance(tt, ast.Name):
                            self.env[tt.id] = su

    def _seq_unit(self, v):
        if isinstance(v, ast.Call) and simple_name(v) in SEQ_CALL_UNITS:
            return SEQ_CALL_UNITS[simple_name(v)]
        d = dotted(v)
        if d and isinstance(v, (ast.Attribute, ast.Name)):
            for rx, u in ATTR_UNITS:
                if rx.search(d + '[]'):
                    return u
        if isinstance(v, ast.Name) and v.id in self.seq:
            return self.seq[v.id]
        return None

    def visit_AugAssign(self, n):
        self.generic_visit(n)
        l, r = self.unit(n.target), self.unit(n.value)
        if isinstance(n.op, (ast.Add, ast.Sub)):
            self._mismatch(n, l, r, 'sum')
        elif isinstance(n.op, (ast.Mult, ast.Div, ast.FloorDiv)) and isinstance(n.target, ast.Name):
            u = mul(l, r, 1 if isinstance(n.op, ast.Mult) else -1)
            if u not in (None, WILD):
                self.env[n.target.id] = u

    def visit_BinOp(self, n):
        self.generic_visit(n)
        if isinstance(n.op, (ast.Add, ast.Sub)):
            self._mismatch(n, self.unit(n.left), self.unit(n.right), 'sum')

    def visit_Compare(self, n):
        self.generic_visit(n)
        ops = [n.left] + n.comparators
        for a, b, op in zip(ops, ops[1:], n.ops):
            if isinstance(op, (ast.Lt, ast.LtE, ast.Gt, ast.GtE, ast.Eq, ast.NotEq)):
                self._mismatch(n, self.unit(a), self.unit(b), 'comparison')

    def visit_Call(self, n):
        self.generic_visit(n)
        if simple_name(n) in ('min', 'max') and len(n.args) >= 2:
            known = [self.unit(a) for a in n.args]
            known = [u for u in known if u not in (None, WILD)]
            if len(set(known)) > 1:
                self.out.append((n, '%s() over %s: %s' % (simple_name(n), ' and '.join(show(u) for u in sorted(set(known))), unparse(n)[:80])))

    def visit_Return(self, n):
        self.generic_visit(n)
        self.ret = getattr(self, 'ret', []) + [n]

    def visit_FunctionDef(self, n):
        pass

    def visit_Lambda(self, n):
        pass


def unit_reports(fn, param_units=None, returns=None):
    """[(node, message)]; `returns` = expected unit (or tuple of units) of the returned value"""
    v = Units(fn.node, param_units)
    out, seen = [], set()
    for node, msg in v.out:
        k = (getattr(node, 'lineno', 0), getattr(node, 'col_offset', 0), msg)
        if k not in seen:
            seen.add(k)
            out.append((node, msg))
    if returns is not None:
        for r in getattr(v, 'ret', []):
            if r.value is None:
                continue
            vals = r.value.elts if isinstance(r.value, ast.Tuple) and isinstance(returns, list) else [r.value]
            wants = returns if isinstance(returns, list) else [returns]
            for e, w in zip(vals, wants):
                if w is None:
                    continue
                u = v.unit(e)
                if u not in (None, WILD) and u != w:
                    k = (r.lineno, 'ret', unparse(e))
                    if k not in seen:
                        seen.add(k)
                        out.append((r, 'returns %s where %s is expected: %s' % (show(u), show(w), unparse(e)[:70])))
    return out
