"""Syntactic normal forms that remove *named intermediate results*: boolean flags, named conditions and literal tables.

  flag threading   `f = E` directly followed by `if f:` (f read nowhere else)            ->  `if E:`
                   `f = <const>` ... `if A: ...; f = E` directly followed by `if f: X`   ->  `if A: ...; if E: X`
  table unrolling  `for a, b in ((k1, v1), (k2, v2)): body`  (literal table, body without break/continue)
                                                                                         ->  body[k1,v1]; body[k2,v2]

Each rewrite preserves the order of evaluation of everything that can have an effect (the moved expression stays the first thing
evaluated at its new position and nothing is evaluated between the old and the new position).  With them a condition has one form
whether or not it was given a name, and a dispatch has one form whether it is written as an if-chain or as a loop over a table."""
import ast
import copy



def copy_tree(n):
    from .model import _copy_tree
    return _copy_tree(n)


def _count_names(fn):
    loads, stores = {}, {}
    for n in ast.walk(fn):
        if isinstance(n, ast.Name):
            d = loads if isinstance(n.ctx, ast.Load) else stores
            d[n.id] = d.get(n.id, 0) + 1
        elif isinstance(n, (ast.Global, ast.Nonlocal)):
            for nm in n.names:
                stores[nm] = stores.get(nm, 0) + 10
    return loads, stores


def _leading_name(test, name):
    """is Name `name` the first operand evaluated by `test` (through not / and / or / comparison-left)?  -> the Name node"""
    e = test
    while True:
        if isinstance(e, ast.Name):
            return e if e.id == name else None
        if isinstance(e, ast.UnaryOp) and isinstance(e.op, ast.Not):
            e = e.operand
        elif isinstance(e, ast.BoolOp):
            e = e.values[0]
        elif isinstance(e, ast.Compare):
            e = e.left
        else:
            return None


_PURE_CALLS = {'abs', 'len', 'min', 'max', 'int', 'float', 'isinstance', 'bool', 'str', 'round'}


def _pure_condition(e):
    """a comparison / boolean combination without calls other than side-effect free builtins"""
    if not isinstance(e, (ast.Compare, ast.BoolOp)) and not (isinstance(e, ast.UnaryOp) and isinstance(e.op, ast.Not)):
        return False
    for n in ast.walk(e):
        if isinstance(n, ast.Call) and not (isinstance(n.func, ast.Name) and n.func.id in _PURE_CALLS):
            return False
        if isinstance(n, (ast.Await, ast.Yield, ast.YieldFrom, ast.NamedExpr, ast.Lambda)):
            return False
    return True


def _bool_context(test, ids):
    """are the Name nodes `ids` operands of the not/and/or skeleton of `test` (their truth value is all that is used)?"""
    found = set()

    def rec(e):
        if isinstance(e, ast.Name):
            if id(e) in ids:
                found.add(id(e))
        elif isinstance(e, ast.UnaryOp) and isinstance(e.op, ast.Not):
            rec(e.operand)
        elif isinstance(e, ast.BoolOp):
            for v in e.values:
                rec(v)
    rec(test)
    return found == ids


_OPERATOR_FUNCS = {'gt': ast.Gt, 'lt': ast.Lt, 'ge': ast.GtE, 'le': ast.LtE, 'eq': ast.Eq, 'ne': ast.NotEq, 'is_': ast.Is, 'is_not': ast.IsNot,
                   'contains': None}
_OPERATOR_BIN = {'add': ast.Add, 'sub': ast.Sub, 'mul': ast.Mult, 'truediv': ast.Div, 'floordiv': ast.FloorDiv, 'mod': ast.Mod,
                 'lshift': ast.LShift, 'rshift': ast.RShift, 'and_': ast.BitAnd, 'or_': ast.BitOr}


def _format_partial(fmt, args):
    """'a {0} b {1}'.format(x, 'lit') -> ('a {0} b lit', [x]): literal str / int arguments of plain `{}` / `{n}` fields are written into the
    format string.  None when nothing can be done (format specs, conversions, attribute fields, no literal argument)."""
    import string
    try:
        parts = list(string.Formatter().parse(fmt))
    except ValueError:
        return None
    auto = 0
    fields = []
    for lit, name, spec, conv in parts:
        if name is None:
            fields.append((lit, None))
            continue
        if spec or conv:
            return None
        if name == '':
            idx = auto
            auto += 1
        elif name.isdigit():
            idx = int(name)
        else:
            return None
        if idx >= len(args):
            return None
        fields.append((lit, idx))
    lit_arg = lambda a: isinstance(a, ast.Constant) and type(a.value) in (str, int)
    if not any(i is not None and lit_arg(args[i]) for _, i in fields):
        return None
    keep = [i for i in range(len(args)) if not lit_arg(args[i])]
    renum = {old: new for new, old in enumerate(keep)}
    esc = lambda t: t.replace('{', '{{').replace('}', '}}')
    out = ''
    for lit, i in fields:
        out += esc(lit)
        if i is None:
            continue
        out += esc(str(args[i].value)) if lit_arg(args[i]) else '{%d}' % renum[i]
    return out, [args[i] for i in keep]


class ConstFold(ast.NodeTransformer):
    """`operator.gt(a, b)` -> `a > b` (likewise the other comparison / arithmetic functions of the operator module); comparisons and
    not / and / or of literal constants -> their value; `if <constant>:` -> the branch that runs.  What remains after a table was
    unrolled or a named constant was written out."""

    def visit_Call(self, node):
        self.generic_visit(node)
        f = node.func
        # f(*(a, b, c)) -> f(a, b, c)
        if any(isinstance(a, ast.Starred) and isinstance(a.value, (ast.Tuple, ast.List)) and
               not any(isinstance(e, ast.Starred) for e in a.value.elts) for a in node.args):
            args = []
            for a in node.args:
                if isinstance(a, ast.Starred) and isinstance(a.value, (ast.Tuple, ast.List)) and not any(isinstance(e, ast.Starred) for e in a.value.elts):
                    args.extend(a.value.elts)
                else:
                    args.append(a)
            node.args = args
        if isinstance(f, ast.Attribute) and isinstance(f.value, ast.Name) and f.value.id == 'operator' and len(node.args) == 2 and not node.keywords:
            if f.attr in _OPERATOR_FUNCS and _OPERATOR_FUNCS[f.attr] is not None:
                return ast.copy_location(ast.Compare(left=node.args[0], ops=[_OPERATOR_FUNCS[f.attr]()], comparators=[node.args[1]]), node)
            if f.attr == 'contains':
                return ast.copy_location(ast.Compare(left=node.args[1], ops=[ast.In()], comparators=[node.args[0]]), node)
            if f.attr in _OPERATOR_BIN:
                return ast.copy_location(ast.BinOp(left=node.args[0], op=_OPERATOR_BIN[f.attr](), right=node.args[1]), node)
        if isinstance(f, ast.Attribute) and isinstance(f.value, ast.Name) and f.value.id == 'operator' and f.attr == 'not_' and len(node.args) == 1:
            return ast.copy_location(ast.UnaryOp(op=ast.Not(), operand=node.args[0]), node)
        if isinstance(f, ast.Attribute) and f.attr == 'format' and isinstance(f.value, ast.Constant) and isinstance(f.value.value, str) and \
                not node.keywords and node.args and not any(isinstance(a, ast.Starred) for a in node.args):
            new = _format_partial(f.value.value, node.args)
            if new is not None:
                text, rest = new
                if not rest:
                    return ast.copy_location(ast.Constant(value=text.replace('{{', '{').replace('}}', '}')), node)
                f.value = ast.copy_location(ast.Constant(value=text), f.value)
                node.args = rest
        return node

    def visit_BinOp(self, node):
        self.generic_visit(node)
        # '<literal> %s ..' % <literal> / (<literals>): the string it is
        if isinstance(node.op, ast.Mod) and isinstance(node.left, ast.Constant) and isinstance(node.left.value, str):
            r = node.right
            vals = [r.value] if isinstance(r, ast.Constant) and type(r.value) in (str, int) else \
                [e.value for e in r.elts] if isinstance(r, ast.Tuple) and r.elts and all(isinstance(e, ast.Constant) and type(e.value) in (str, int) for e in r.elts) else None
            if vals is not None:
                try:
                    return ast.copy_location(ast.Constant(value=node.left.value % tuple(vals)), node)
                except (TypeError, ValueError):
                    pass
        return node

    def visit_Compare(self, node):
        self.generic_visit(node)
        # `X is X` / `X is not X` for one plain name (what is left of a sentinel default once the helper was written out at a call
        # that does not pass the argument)
        if len(node.ops) == 1 and isinstance(node.ops[0], (ast.Is, ast.IsNot)) and isinstance(node.left, ast.Name) and \
                isinstance(node.comparators[0], ast.Name) and node.left.id == node.comparators[0].id:
            return ast.copy_location(ast.Constant(value=isinstance(node.ops[0], ast.Is)), node)
        if len(node.ops) == 1 and isinstance(node.left, ast.Constant) and isinstance(node.comparators[0], ast.Constant):
            a, b = node.left.value, node.comparators[0].value
            try:
                op = node.ops[0]
                v = (a == b) if isinstance(op, ast.Eq) else (a != b) if isinstance(op, ast.NotEq) else (a < b) if isinstance(op, ast.Lt) else \
                    (a <= b) if isinstance(op, ast.LtE) else (a > b) if isinstance(op, ast.Gt) else (a >= b) if isinstance(op, ast.GtE) else \
                    (a is b) if isinstance(op, ast.Is) and (a is None or b is None) else (a is not b) if isinstance(op, ast.IsNot) and (a is None or b is None) else None
            except TypeError:
                v = None
            if isinstance(v, bool):
                return ast.copy_location(ast.Constant(value=v), node)
        return node

    def _prune(self, body):
        out = []
        for st in body:
            if isinstance(st, ast.If) and isinstance(st.test, ast.Constant) and isinstance(st.test.value, bool):
                out.extend(st.body if st.test.value else st.orelse)
            else:
                out.append(st)
        return out

    def generic_visit(self, node):
        super().generic_visit(node)
        for fld in ('body', 'orelse', 'finalbody'):
            blk = getattr(node, fld, None)
            if isinstance(blk, list) and blk and isinstance(blk[0], ast.stmt):
                new = self._prune(blk)
                if not new and fld == 'body':
                    new = [ast.copy_location(ast.Pass(), blk[0])]
                setattr(node, fld, new)
        return node

    def visit_Lambda(self, node):
        return node


class NextToLoop(ast.NodeTransformer):
    """`T = next((E for v in IT if C), D)` (one generator, D a constant or a name, v a plain name the function uses nowhere else)  ->
    `T = D; for v in IT: if C: T = E; break` -- the first-match search as the loop it abbreviates."""

    def visit_FunctionDef(self, fn):
        self.generic_visit(fn)
        counts = {}
        for n in ast.walk(fn):
            if isinstance(n, ast.Name):
                counts[n.id] = counts.get(n.id, 0) + 1
            elif isinstance(n, ast.arg):
                counts[n.arg] = counts.get(n.arg, 0) + 1

        def lower(st):
            if isinstance(st, ast.Return) and st.value is not None:
                # return next((E for v in IT if C), D)  ->  for v in IT: if C: return E  /  return D
                c = st.value
                if not (isinstance(c, ast.Call) and isinstance(c.func, ast.Name) and c.func.id == 'next' and len(c.args) == 2 and not c.keywords and
                        isinstance(c.args[0], ast.GeneratorExp) and len(c.args[0].generators) == 1 and isinstance(c.args[1], (ast.Constant, ast.Name))):
                    return [st]
                ge, gen = c.args[0], c.args[0].generators[0]
                if gen.is_async or not isinstance(gen.target, ast.Name):
                    return [st]
                v = gen.target.id
                inside = sum(1 for n in ast.walk(ge) if isinstance(n, ast.Name) and n.id == v)
                if counts.get(v, 0) != inside or (isinstance(c.args[1], ast.Name) and c.args[1].id == v):
                    return [st]
                if any(isinstance(n, (ast.Lambda, ast.GeneratorExp, ast.ListComp, ast.SetComp, ast.DictComp, ast.NamedExpr, ast.Yield, ast.Await))
                       for x in [ge.elt] + gen.ifs + [gen.iter] for n in ast.walk(x)):
                    return [st]
                hit = [ast.copy_location(ast.Return(value=ge.elt), st)]
                test = gen.ifs[0] if len(gen.ifs) == 1 else ast.BoolOp(op=ast.And(), values=list(gen.ifs)) if gen.ifs else None
                body = [ast.copy_location(ast.If(test=test, body=hit, orelse=[]), st)] if test is not None else hit
                loop = ast.copy_location(ast.For(target=ast.Name(id=v, ctx=ast.Store()), iter=gen.iter, body=body, orelse=[], type_comment=None), st)
                return [ast.fix_missing_locations(loop), ast.copy_location(ast.Return(value=c.args[1]), st)]
            if not (isinstance(st, ast.Assign) and len(st.targets) == 1 and isinstance(st.targets[0], ast.Name)):
                return [st]
            c = st.value
            if not (isinstance(c, ast.Call) and isinstance(c.func, ast.Name) and c.func.id == 'next' and len(c.args) == 2 and not c.keywords and
                    isinstance(c.args[0], ast.GeneratorExp) and len(c.args[0].generators) == 1 and isinstance(c.args[1], (ast.Constant, ast.Name))):
                return [st]
            ge, gen, T = c.args[0], c.args[0].generators[0], st.targets[0].id
            if gen.is_async or not isinstance(gen.target, ast.Name):
                return [st]
            v = gen.target.id
            inside = sum(1 for n in ast.walk(ge) if isinstance(n, ast.Name) and n.id == v)
            if counts.get(v, 0) != inside or v == T or any(isinstance(n, ast.Name) and n.id == T for n in ast.walk(ge)):
                return [st]
            if any(isinstance(n, (ast.Lambda, ast.GeneratorExp, ast.ListComp, ast.SetComp, ast.DictComp, ast.NamedExpr, ast.Yield, ast.Await))
                   for x in [ge.elt] + gen.ifs + [gen.iter] for n in ast.walk(x)):
                return [st]
            init = ast.copy_location(ast.Assign(targets=[ast.Name(id=T, ctx=ast.Store())], value=c.args[1]), st)
            hit = [ast.copy_location(ast.Assign(targets=[ast.Name(id=T, ctx=ast.Store())], value=ge.elt), st), ast.copy_location(ast.Break(), st)]
            test = gen.ifs[0] if len(gen.ifs) == 1 else ast.BoolOp(op=ast.And(), values=list(gen.ifs)) if gen.ifs else None
            body = [ast.copy_location(ast.If(test=test, body=hit, orelse=[]), st)] if test is not None else hit
            loop = ast.copy_location(ast.For(target=ast.Name(id=v, ctx=ast.Store()), iter=gen.iter, body=body, orelse=[], type_comment=None), st)
            return [init, ast.fix_missing_locations(loop)]

        def rec(node):
            for fld in ('body', 'orelse', 'finalbody'):
                blk = getattr(node, fld, None)
                if isinstance(blk, list) and blk and isinstance(blk[0], ast.stmt):
                    out = []
                    for st in blk:
                        if isinstance(st, (ast.FunctionDef, ast.AsyncFunctionDef, ast.ClassDef)):
                            out.append(st)
                            continue
                        rec(st)
                        out.extend(lower(st))
                    setattr(node, fld, out)
            for h in getattr(node, 'handlers', []) or []:
                rec(h)
        rec(fn)
        return fn

    visit_AsyncFunctionDef = visit_FunctionDef


class SplitTupleAssign(ast.NodeTransformer):
    """`a, b = (E1, E2)` with distinct plain names on the left, none of them read on the right (nor in a nested function), outside of
    try blocks  ->  `a = E1; b = E2`.  The pair form and the two statement form bind the same values in the same evaluation order."""

    def visit_FunctionDef(self, fn):
        self.generic_visit(fn)
        captured = set()
        for sub in ast.walk(fn):
            if sub is not fn and isinstance(sub, (ast.FunctionDef, ast.AsyncFunctionDef, ast.Lambda, ast.ClassDef)):
                captured |= {x.id for x in ast.walk(sub) if isinstance(x, ast.Name)}

        def split(st):
            # `q, r = divmod(a, b)` with call-free operands is `(a // b, a % b)` (for the integers and floats the code divides)
            if isinstance(st, ast.Assign) and len(st.targets) == 1 and isinstance(st.targets[0], ast.Tuple) and len(st.targets[0].elts) == 2 and \
                    isinstance(st.value, ast.Call) and isinstance(st.value.func, ast.Name) and st.value.func.id == 'divmod' and \
                    len(st.value.args) == 2 and not st.value.keywords and \
                    not any(isinstance(x, (ast.Call, ast.Await, ast.Yield, ast.YieldFrom, ast.NamedExpr, ast.Starred)) for a_ in st.value.args for x in ast.walk(a_)):
                a_, b_ = st.value.args
                st = ast.copy_location(ast.Assign(targets=st.targets, value=ast.copy_location(ast.Tuple(elts=[
                    ast.BinOp(left=copy_tree(a_), op=ast.FloorDiv(), right=copy_tree(b_)), ast.BinOp(left=copy_tree(a_), op=ast.Mod(), right=copy_tree(b_))],
                    ctx=ast.Load()), st.value), type_comment=None), st)
                ast.fix_missing_locations(st)
            if not (isinstance(st, ast.Assign) and len(st.targets) == 1 and isinstance(st.targets[0], ast.Tuple) and isinstance(st.value, ast.Tuple)):
                return [st]
            tg, v = st.targets[0], st.value
            if len(tg.elts) != len(v.elts) or not all(isinstance(e, ast.Name) for e in tg.elts) or any(isinstance(e, ast.Starred) for e in v.elts):
                return [st]
            names = [e.id for e in tg.elts]
            if len(set(names)) != len(names) or set(names) & captured:
                return [st]
            if set(names) & {x.id for x in ast.walk(v) if isinstance(x, ast.Name)}:
                return [st]
            if any(isinstance(x, (ast.NamedExpr, ast.Yield, ast.YieldFrom, ast.Await)) for x in ast.walk(v)):
                return [st]
            return [ast.copy_location(ast.Assign(targets=[t], value=e), st) for t, e in zip(tg.elts, v.elts)]

        def rec(node, in_try):
            for fld in ('body', 'orelse', 'finalbody'):
                blk = getattr(node, fld, None)
                if isinstance(blk, list) and blk and isinstance(blk[0], ast.stmt):
                    out = []
                    for st in blk:
                        if isinstance(st, (ast.FunctionDef, ast.AsyncFunctionDef, ast.ClassDef)):
                            out.append(st)
                            continue
                        rec(st, in_try or isinstance(st, ast.Try))
                        out.extend([st] if in_try or isinstance(node, ast.Try) else split(st))
                    setattr(node, fld, out)
            for h in getattr(node, 'handlers', []) or []:
                rec(h, True)
        rec(fn, False)
        return fn

    visit_AsyncFunctionDef = visit_FunctionDef


class RoundTripCopy(ast.NodeTransformer):
    """`t = s` .. `s = t` in one block (what the inliner leaves of a helper that re-binds its parameter and hands it back): when s is
    not touched in between, t is bound nowhere before, and neither name is re-bound after the copy back, t is s all along -- the
    statements between work on s, both copies go away."""

    def visit_FunctionDef(self, fn):
        self.generic_visit(fn)
        params = {a.arg for a in ast.walk(fn.args) if isinstance(a, ast.arg)}
        nested = set()
        for sub in ast.walk(fn):
            if sub is not fn and isinstance(sub, (ast.FunctionDef, ast.AsyncFunctionDef, ast.Lambda, ast.ClassDef)):
                nested |= {x.id for x in ast.walk(sub) if isinstance(x, ast.Name)}

        def mentions(stmts, name, store_only=False):
            for st in stmts:
                for x in ast.walk(st):
                    if isinstance(x, ast.Name) and x.id == name and (not store_only or isinstance(x.ctx, (ast.Store, ast.Del))):
                        return True
            return False

        def order(fn_):
            out = []

            def rec(node):
                for fld in ('body', 'orelse', 'finalbody'):
                    blk = getattr(node, fld, None)
                    if isinstance(blk, list) and blk and isinstance(blk[0], ast.stmt):
                        out.append(blk)
                        for st in blk:
                            if not isinstance(st, (ast.FunctionDef, ast.AsyncFunctionDef, ast.ClassDef)):
                                rec(st)
                for h in getattr(node, 'handlers', []) or []:
                    rec(h)
            rec(fn_)
            return out
        changed = True
        while changed:
            changed = False
            for blk in order(fn):
                if blk is not fn.body:
                    continue            # function level only: "before" and "after" are the statements of the body
                for i, a in enumerate(blk):
                    if not (isinstance(a, ast.Assign) and len(a.targets) == 1 and isinstance(a.targets[0], ast.Name) and isinstance(a.value, ast.Name)):
                        continue
                    t, s_ = a.targets[0].id, a.value.id
                    if t == s_ or t in params or t in nested or s_ in nested:
                        continue
                    for j in range(i + 1, len(blk)):
                        b = blk[j]
                        if isinstance(b, ast.Assign) and len(b.targets) == 1 and isinstance(b.targets[0], ast.Name) and b.targets[0].id == s_ and \
                                isinstance(b.value, ast.Name) and b.value.id == t:
                            between, before, after = blk[i + 1:j], blk[:i], blk[j + 1:]
                            if mentions(between, s_) or mentions(before, t) or mentions(after, t, True) or mentions(after, s_, True):
                                break
                            for x in ast.walk(fn):
                                if isinstance(x, ast.Name) and x.id == t:
                                    x.id = s_
                            del blk[j]
                            del blk[i]
                            changed = True
                            break
                    if changed:
                        break
                if changed:
                    break
        return fn

    visit_AsyncFunctionDef = visit_FunctionDef


class CopyProp(ast.NodeTransformer):
    """`t = s` / `t1, t2 = (s1, s2)` with plain names on both sides, t bound once in the function, s a parameter or local whose stores
    all come before the copy (in the lowest block that holds both): t is another name for s.  The reads of t are rewritten to s and
    the copy goes away.  An inlined helper that unpacked its tuple parameter (`x0, y0, x1, y1 = bbox`) reads the caller's names again."""

    def visit_FunctionDef(self, fn):
        self.generic_visit(fn)
        params = {a.arg for a in ast.walk(fn.args) if isinstance(a, ast.arg)}
        while True:
            plain, other = {}, {}
            chain = {}

            def scan(node, path):
                for fld in ('body', 'orelse', 'finalbody', 'handlers'):
                    blk = getattr(node, fld, None)
                    if not isinstance(blk, list):
                        continue
                    for i, st in enumerate(blk):
                        if isinstance(st, ast.ExceptHandler):
                            if st.name:
                                other[st.name] = other.get(st.name, 0) + 1
                            scan(st, path + [(id(blk), i)])
                            continue
                        if not isinstance(st, ast.stmt):
                            continue
                        here = path + [(id(blk), i)]
                        chain[id(st)] = here
                        if isinstance(st, (ast.FunctionDef, ast.AsyncFunctionDef, ast.ClassDef)):
                            other[st.name] = other.get(st.name, 0) + 1
                            for x in ast.walk(st):
                                if isinstance(x, ast.Name) and isinstance(x.ctx, (ast.Store, ast.Del)) or isinstance(x, (ast.Global, ast.Nonlocal)):
                                    for nm in ([x.id] if isinstance(x, ast.Name) else x.names):
                                        other[nm] = other.get(nm, 0) + 1      # may be a nonlocal of ours: keep away
                            continue
                        own = [st.targets] if isinstance(st, ast.Assign) else [[st.target]] if isinstance(st, (ast.AugAssign, ast.AnnAssign)) else []
                        own_ids = set()
                        for tg in (own[0] if own else []):
                            for x in ast.walk(tg):
                                if isinstance(x, ast.Name) and isinstance(x.ctx, ast.Store):
                                    plain.setdefault(x.id, []).append(here)
                                    own_ids.add(id(x))
                        hdr = [c for f, c in ast.iter_fields(st) if f not in ('body', 'orelse', 'finalbody', 'handlers')]
                        for c in hdr:
                            for c1 in (c if isinstance(c, list) else [c]):
                                if isinstance(c1, ast.AST):
                                    for x in ast.walk(c1):
                                        if isinstance(x, ast.Name) and isinstance(x.ctx, (ast.Store, ast.Del)) and id(x) not in own_ids:
                                            other[x.id] = other.get(x.id, 0) + 1
                                        elif isinstance(x, (ast.Global, ast.Nonlocal)):
                                            for nm in x.names:
                                                other[nm] = other.get(nm, 0) + 1
                                        elif isinstance(x, ast.alias):
                                            nm = (x.asname or x.name).split('.')[0]
                                            other[nm] = other.get(nm, 0) + 1
                        scan(st, here)
            scan(fn, [])

            def before(a, b):
                """path a lies before path b in their lowest common block"""
                for (ba, ia), (bb, ib) in zip(a, b):
                    if ba != bb:
                        return False
                    if ia != ib:
                        return ia < ib
                return False

            def ok(t, s_, here):
                if not (isinstance(t, ast.Name) and isinstance(s_, ast.Name)) or t.id == s_.id:
                    return False
                if t.id in params or other.get(t.id) or len(plain.get(t.id, [])) != 1:
                    return False
                if other.get(s_.id) or not (s_.id in params or plain.get(s_.id)):
                    return False
                return all(before(p, here) for p in plain.get(s_.id, []))

            found = None
            for st in ast.walk(fn):
                if not isinstance(st, ast.Assign) or len(st.targets) != 1 or id(st) not in chain:
                    continue
                here = chain[id(st)]
                tg, v = st.targets[0], st.value
                if isinstance(tg, ast.Name) and ok(tg, v, here):
                    found = (st, [(tg.id, v.id)], None)
                    break
                if isinstance(tg, ast.Tuple) and isinstance(v, ast.Tuple) and len(tg.elts) == len(v.elts) and \
                        all(isinstance(e, ast.Name) for e in list(tg.elts) + list(v.elts)) and len({e.id for e in tg.elts}) == len(tg.elts) and \
                        not ({e.id for e in tg.elts} & {e.id for e in v.elts}):
                    pairs = [(a.id, b.id) for a, b in zip(tg.elts, v.elts) if ok(a, b, here)]
                    if pairs:
                        rest = [(a, b) for a, b in zip(tg.elts, v.elts) if (a.id, b.id) not in pairs]
                        found = (st, pairs, rest)
                        break
            if found is None:
                break
            st, pairs, rest = found
            ren = dict(pairs)
            for x in ast.walk(fn):
                if isinstance(x, ast.Name) and isinstance(x.ctx, ast.Load) and x.id in ren:
                    x.id = ren[x.id]
            if rest:
                if len(rest) == 1:
                    st.targets, st.value = [rest[0][0]], rest[0][1]
                else:
                    st.targets[0].elts = [a for a, _ in rest]
                    st.value.elts = [b for _, b in rest]
            else:
                _remove_stmt(fn, st)
        return fn

    visit_AsyncFunctionDef = visit_FunctionDef


def _remove_stmt(root, st):
    for node in ast.walk(root):
        for fld in ('body', 'orelse', 'finalbody'):
            blk = getattr(node, fld, None)
            if isinstance(blk, list) and any(x is st for x in blk):
                blk[:] = [x for x in blk if x is not st] or [ast.copy_location(ast.Pass(), st)]
                return


class JoinNestedIf(ast.NodeTransformer):
    """`if a: if b: X` (neither has an else, the inner `if` is all the outer one contains)  ->  `if a and b: X`"""

    def visit_If(self, node):
        self.generic_visit(node)
        while not node.orelse and len(node.body) == 1 and isinstance(node.body[0], ast.If) and not node.body[0].orelse:
            inner = node.body[0]
            left = node.test.values if isinstance(node.test, ast.BoolOp) and isinstance(node.test.op, ast.And) else [node.test]
            right = inner.test.values if isinstance(inner.test, ast.BoolOp) and isinstance(inner.test.op, ast.And) else [inner.test]
            node.test = ast.copy_location(ast.BoolOp(op=ast.And(), values=list(left) + list(right)), node.test)
            node.body = inner.body
        return node

    def visit_Lambda(self, node):
        return node


class FlipNegatedIf(ast.NodeTransformer):
    """`if not X: A else: B` (both branches present, no elif chain hanging on it)  ->  `if X: B else: A`"""

    def visit_If(self, node):
        self.generic_visit(node)
        if isinstance(node.test, ast.UnaryOp) and isinstance(node.test.op, ast.Not) and node.orelse and node.body and \
                not (len(node.orelse) == 1 and isinstance(node.orelse[0], ast.If)):
            node.test = node.test.operand
            node.body, node.orelse = node.orelse, node.body
        return node

    def visit_Lambda(self, node):
        return node


class _DoubleNot(ast.NodeTransformer):
    """`if not not X:` -> `if X:` (test positions only: the truth value is all that is used)"""

    def _test(self, node):
        self.generic_visit(node)
        t = node.test
        while isinstance(t, ast.UnaryOp) and isinstance(t.op, ast.Not) and isinstance(t.operand, ast.UnaryOp) and isinstance(t.operand.op, ast.Not):
            t = t.operand.operand
        node.test = t
        return node

    visit_If = visit_While = _test


def _replace(node, target, new):
    class R(ast.NodeTransformer):
        def visit_Name(self, n):
            return new if n is target else n
    return R().visit(node)


def _blocks(node):
    for fld in ('body', 'orelse', 'finalbody'):
        blk = getattr(node, fld, None)
        if isinstance(blk, list) and blk and isinstance(blk[0], ast.stmt):
            yield node, fld, blk
    for h in getattr(node, 'handlers', []) or []:
        yield h, 'body', h.body


def _mentions(stmts, name):
    return any(isinstance(n, ast.Name) and n.id == name for s in stmts for n in ast.walk(s))


class FlagThread(ast.NodeTransformer):
    def visit_FunctionDef(self, fn):
        self.generic_visit(fn)
        for _ in range(4):
            if not self._once(fn):
                break
        return fn

    visit_AsyncFunctionDef = visit_FunctionDef

    def _once(self, fn):
        loads, stores = _count_names(fn)
        params = {a.arg for a in ast.walk(fn.args) if isinstance(a, ast.arg)}
        changed = [False]

        def single(name):
            return name not in params and loads.get(name, 0) == 1

        def rewrite(blk):
            out, i = [], 0
            while i < len(blk):
                a = blk[i]
                b = blk[i + 1] if i + 1 < len(blk) else None
                # shape 1: f = E ; if f ...:
                if isinstance(a, ast.Assign) and len(a.targets) == 1 and isinstance(a.targets[0], ast.Name) and isinstance(b, ast.If):
                    f = a.targets[0].id
                    use = _leading_name(b.test, f)
                    if use is not None and single(f) and stores.get(f, 0) == 1:
                        b.test = _replace(b.test, use, a.value) if use is not b.test else a.value
                        out.append(b)
                        i += 2
                        changed[0] = True
                        continue
                # shape 1b: a run of `f_i = <pure condition>` directly before an `if` that reads each of them once
                if isinstance(a, ast.Assign) and isinstance(b, (ast.Assign, ast.If)):
                    j = i
                    run = []
                    while j < len(blk) and isinstance(blk[j], ast.Assign) and len(blk[j].targets) == 1 and isinstance(blk[j].targets[0], ast.Name) \
                            and _pure_condition(blk[j].value):
                        run.append(blk[j])
                        j += 1
                    nxt = blk[j] if j < len(blk) else None
                    if len(run) >= 1 and isinstance(nxt, ast.If):
                        names = [r.targets[0].id for r in run]
                        uses = {nm: [n for n in ast.walk(nxt.test) if isinstance(n, ast.Name) and n.id == nm] for nm in names}
                        reads_state = any(isinstance(n, (ast.Attribute, ast.Subscript)) for r in run for n in ast.walk(r.value))
                        test_calls = any(isinstance(n, ast.Call) and not (isinstance(n.func, ast.Name) and n.func.id in _PURE_CALLS) for n in ast.walk(nxt.test))
                        if len(set(names)) == len(names) and all(len(uses[nm]) == 1 and single(nm) and stores.get(nm, 0) == 1 for nm in names) and \
                                _bool_context(nxt.test, {id(u[0]) for u in uses.values()}) and not (reads_state and test_calls):
                            for r in run:
                                nxt.test = _replace(nxt.test, uses[r.targets[0].id][0], r.value)
                            out.append(nxt)
                            i = j + 1
                            changed[0] = True
                            continue
                # shape 2: if A: ...; f = E   directly followed by   if f: X else: Y      with  f = <const> before, f read once
                if isinstance(a, ast.If) and isinstance(b, ast.If) and a.body and isinstance(a.body[-1], ast.Assign) and \
                        len(a.body[-1].targets) == 1 and isinstance(a.body[-1].targets[0], ast.Name):
                    f = a.body[-1].targets[0].id
                    neg = isinstance(b.test, ast.UnaryOp) and isinstance(b.test.op, ast.Not) and isinstance(b.test.operand, ast.Name) and b.test.operand.id == f
                    pos = isinstance(b.test, ast.Name) and b.test.id == f
                    init = [k for k, s in enumerate(out) if isinstance(s, ast.Assign) and len(s.targets) == 1 and isinstance(s.targets[0], ast.Name) and
                            s.targets[0].id == f and isinstance(s.value, ast.Constant) and isinstance(s.value.value, bool)]
                    if (pos or neg) and single(f) and stores.get(f, 0) == 2 and len(init) == 1 and \
                            not _mentions(a.body[:-1], f) and not _mentions(a.orelse, f) and not _mentions([a.test], f) and \
                            not _mentions(out[init[0] + 1:], f):
                        c = out[init[0]].value.value
                        when = lambda v: (b.body if v != neg else b.orelse)       # statements run when f == v
                        default = when(c)
                        if len(default) <= 2 and not any(isinstance(n, (ast.FunctionDef, ast.ClassDef)) for s in default for n in ast.walk(s)):
                            inner = ast.copy_location(ast.If(test=a.body[-1].value, body=when(True) or [ast.copy_location(ast.Pass(), b)],
                                                             orelse=when(False)), b)
                            if not when(True):
                                inner = ast.copy_location(ast.If(test=ast.UnaryOp(op=ast.Not(), operand=a.body[-1].value), body=when(False), orelse=[]), b)
                            a.body[-1] = inner
                            if default:
                                a.orelse = a.orelse + [copy_tree(s) for s in default]
                            del out[init[0]]
                            out.append(a)
                            i += 2
                            changed[0] = True
                            continue
                # shape 3: an if-tree every leaf of which ends in `x = ...`, directly followed by `if <x is None / x / not x ...>:`
                # -> the second statement is moved into the leaves, decided where the leaf assigns a constant
                if isinstance(a, ast.If) and isinstance(b, ast.If) and a.orelse:
                    x = _sentinel_test_name(b.test)
                    leaves = _leaf_assignments(a, x) if x else None
                    if leaves and x not in params and not _mentions([a.test], x):
                        live = []
                        for blk_, k in leaves:
                            v = _decide(b.test, x, blk_[k].value)
                            sel = b.body if v is True else b.orelse if v is False else None
                            live.append((blk_, k, v, sel))
                        copies = sum(1 for _, _, v, sel in live if v is None or sel)
                        size = sum(1 for s_ in ast.walk(b) if isinstance(s_, ast.stmt))
                        if copies <= 1 or size <= 3:
                            for blk_, k, v, sel in live:
                                if v is None:
                                    blk_.append(copy_tree(b))
                                elif sel:
                                    blk_.extend(copy_tree(s_) for s_ in sel)
                            out.append(a)
                            i += 2
                            changed[0] = True
                            continue
                out.append(a)
                i += 1
            return out

        def rec(node):
            for owner, fld, blk in list(_blocks(node)):
                for st in blk:
                    if not isinstance(st, (ast.FunctionDef, ast.AsyncFunctionDef, ast.ClassDef)):
                        rec(st)
                new = rewrite(blk)
                setattr(owner, fld, new)
        rec(fn)
        return changed[0]


def _sentinel_test_name(test):
    """x for tests `x`, `not x`, `x is None`, `x is not None`, `x == None` ... else None"""
    e = test
    while isinstance(e, ast.UnaryOp) and isinstance(e.op, ast.Not):
        e = e.operand
    if isinstance(e, ast.Name):
        return e.id
    if isinstance(e, ast.Compare) and len(e.ops) == 1 and isinstance(e.left, ast.Name) and isinstance(e.comparators[0], ast.Constant) and \
            e.comparators[0].value is None and isinstance(e.ops[0], (ast.Is, ast.IsNot, ast.Eq, ast.NotEq)):
        return e.left.id
    return None


def _decide(test, x, value):
    """truth of the sentinel test when x was just assigned `value` (constants only), else None"""
    if not isinstance(value, ast.Constant):
        return None
    v = value.value
    neg = False
    e = test
    while isinstance(e, ast.UnaryOp) and isinstance(e.op, ast.Not):
        neg = not neg
        e = e.operand
    if isinstance(e, ast.Name):
        r = bool(v)
    else:
        r = (v is None) if isinstance(e.ops[0], (ast.Is, ast.Eq)) else (v is not None)
    return r != neg


def _leaf_assignments(node, x):
    """[(block, index)] of the trailing `x = ..` of every leaf of an if-tree with else branches throughout, or None"""
    out = []

    def leaf(blk):
        if not blk:
            return False
        last = blk[-1]
        # the assignment of x, possibly followed by plain assignments of other names (`outside = True; partly = False`)
        k = len(blk) - 1
        while k >= 0 and isinstance(blk[k], ast.Assign) and len(blk[k].targets) == 1 and isinstance(blk[k].targets[0], ast.Name) and \
                blk[k].targets[0].id != x and isinstance(blk[k].value, (ast.Constant, ast.Name)) and \
                not (isinstance(blk[k].value, ast.Name) and blk[k].value.id == x):
            k -= 1
        if k >= 0 and isinstance(blk[k], ast.Assign) and len(blk[k].targets) == 1 and isinstance(blk[k].targets[0], ast.Name) and blk[k].targets[0].id == x:
            out.append((blk, k))
            return True
        if isinstance(last, ast.If) and last.orelse:
            return leaf(last.body) and leaf(last.orelse)
        if isinstance(last, (ast.Return, ast.Raise)):
            return True          # this path never reaches the test
        return False
    return out if leaf(node.body) and leaf(node.orelse) and out else None


class _SubstTable(ast.NodeTransformer):
    def __init__(self, m):
        self.m = m

    def visit_Name(self, n):
        if isinstance(n.ctx, ast.Load) and n.id in self.m:
            return copy_tree(self.m[n.id])
        return n


def _simple_elt(e):
    return isinstance(e, (ast.Constant, ast.Name, ast.Attribute)) or \
        (isinstance(e, (ast.Tuple, ast.List)) and all(_simple_elt(x) for x in e.elts))


class TableUnroll(ast.NodeTransformer):
    """constants: name -> literal table (module level / class level constants assigned once)"""
    MAX_ROWS = 16

    def __init__(self, constants=None):
        self.constants = constants or {}

    def _table(self, it):
        if isinstance(it, ast.Name) and it.id in self.constants:
            it = self.constants[it.id]
        elif isinstance(it, ast.Attribute) and isinstance(it.value, ast.Name) and it.value.id in ('self', 'cls') and ('.' + it.attr) in self.constants:
            it = self.constants['.' + it.attr]
        if isinstance(it, (ast.Tuple, ast.List)) and 1 <= len(it.elts) <= self.MAX_ROWS and all(_simple_elt(e) for e in it.elts):
            return it.elts
        return None

    def visit_Call(self, node):
        """any(E for a in <literal table>) -> E[a1] or E[a2] ...;  all(..) -> and;  getattr(x, '<name>') -> x.<name>"""
        self.generic_visit(node)
        f = node.func
        if isinstance(f, ast.Name) and f.id in ('any', 'all') and len(node.args) == 1 and not node.keywords and \
                isinstance(node.args[0], (ast.GeneratorExp, ast.ListComp)) and len(node.args[0].generators) == 1:
            gen = node.args[0].generators[0]
            rows = self._table(gen.iter)
            if rows is not None and not gen.is_async and len(rows) <= 12:
                if isinstance(gen.target, ast.Name):
                    maps = [{gen.target.id: r} for r in rows]
                elif isinstance(gen.target, (ast.Tuple, ast.List)) and all(isinstance(e, ast.Name) for e in gen.target.elts) and \
                        all(isinstance(r, (ast.Tuple, ast.List)) and len(r.elts) == len(gen.target.elts) for r in rows):
                    maps = [dict(zip([e.id for e in gen.target.elts], r.elts)) for r in rows]
                else:
                    maps = None
                if maps is not None:
                    terms = []
                    for m in maps:
                        e = _SubstTable(m).visit(copy_tree(node.args[0].elt))
                        conds = [_SubstTable(m).visit(copy_tree(c)) for c in gen.ifs]
                        if conds:
                            if f.id == 'any':
                                e = ast.BoolOp(op=ast.And(), values=conds + [e])
                            else:       # all: a filtered-out element counts as true
                                e = ast.BoolOp(op=ast.Or(), values=[ast.UnaryOp(op=ast.Not(), operand=ast.BoolOp(op=ast.And(), values=conds) if len(conds) > 1 else conds[0]), e])
                        terms.append(e)
                    new = terms[0] if len(terms) == 1 else ast.BoolOp(op=ast.Or() if f.id == 'any' else ast.And(), values=terms)
                    # any()/all() return a bool; as an operand of and/or the last element's own value would come through instead
                    new = ast.Call(func=ast.Name(id='bool', ctx=ast.Load()), args=[new], keywords=[])
                    return ast.copy_location(self.generic_visit(ast.fix_missing_locations(ast.copy_location(new, node))), node)
        if isinstance(f, ast.Name) and f.id == 'getattr' and len(node.args) == 2 and not node.keywords and isinstance(node.args[1], ast.Constant) and \
                isinstance(node.args[1].value, str) and node.args[1].value.isidentifier():
            return ast.copy_location(ast.Attribute(value=node.args[0], attr=node.args[1].value, ctx=ast.Load()), node)
        return node

    def visit_Subscript(self, node):
        """FLAG_TABLE[bool(E)] / FLAG_TABLE[<comparison>] with a module level {True: A, False: B} -> (A if E else B)"""
        self.generic_visit(node)
        if not isinstance(node.ctx, ast.Load) or not isinstance(node.value, ast.Name):
            return node
        d = self.constants.get(node.value.id)
        if not isinstance(d, ast.Dict):
            return node
        k = node.slice
        test = None
        if isinstance(k, ast.Call) and isinstance(k.func, ast.Name) and k.func.id == 'bool' and len(k.args) == 1 and not k.keywords:
            test = k.args[0]
        elif isinstance(k, ast.Compare) or (isinstance(k, ast.UnaryOp) and isinstance(k.op, ast.Not)):
            test = k
        if test is None:
            return node
        vals = {kk.value: v for kk, v in zip(d.keys, d.values)}
        self.dispatch_rewritten = True
        return ast.copy_location(ast.IfExp(test=test, body=copy_tree(vals[True]), orelse=copy_tree(vals[False])), node)

    def visit_FunctionDef(self, fn):
        self.generic_visit(fn)
        loads = {}
        for n in ast.walk(fn):
            if isinstance(n, ast.Name) and isinstance(n.ctx, ast.Load):
                loads[n.id] = loads.get(n.id, 0) + 1

        def rec(node):
            for owner, fld, blk in list(_blocks(node)):
                new = []
                for st in blk:
                    if not isinstance(st, (ast.FunctionDef, ast.AsyncFunctionDef, ast.ClassDef)):
                        rec(st)
                    rep = self._unroll(st, loads) if isinstance(st, ast.For) else None
                    new.extend(rep if rep is not None else [st])
                setattr(owner, fld, new)
        rec(fn)
        return fn

    visit_AsyncFunctionDef = visit_FunctionDef

    def _unroll(self, node, loads):
        rows = self._table(node.iter)
        if rows is None:
            return None
        if isinstance(node.target, ast.Name):
            names = [node.target.id]
            rows = [[r] for r in rows]
        elif isinstance(node.target, (ast.Tuple, ast.List)) and all(isinstance(e, ast.Name) for e in node.target.elts):
            names = [e.id for e in node.target.elts]
            if not all(isinstance(r, (ast.Tuple, ast.List)) and len(r.elts) == len(names) for r in rows):
                return None
            rows = [r.elts for r in rows]
        else:
            return None
        # the loop variables must not be re-bound in the body nor read after the loop; the body must not leave the loop other
        # than by return / raise
        inner = {}
        for s in node.body:
            for n in ast.walk(s):
                if isinstance(n, ast.Name) and n.id in names:
                    if isinstance(n.ctx, (ast.Store, ast.Del)):
                        return None
                    inner[n.id] = inner.get(n.id, 0) + 1
        if any(loads.get(nm, 0) != inner.get(nm, 0) for nm in names):
            return None
        if _has_loop_jump(node.body) or len(node.body) > 6:
            return None
        out = []
        for r in rows:
            m = dict(zip(names, r))
            for s in node.body:
                out.append(_SubstTable(m).visit(copy_tree(s)))
        out.extend(node.orelse)          # no break: the else clause always runs
        return out


def _has_loop_jump(stmts):
    for s in stmts:
        if isinstance(s, (ast.Break, ast.Continue)):
            return True
        if isinstance(s, (ast.For, ast.While, ast.AsyncFor, ast.FunctionDef, ast.AsyncFunctionDef, ast.ClassDef)):
            continue
        for fld in ('body', 'orelse', 'finalbody'):
            if _has_loop_jump(getattr(s, fld, []) or []):
                return True
        for h in getattr(s, 'handlers', []) or []:
            if _has_loop_jump(h.body):
                return True
    return False


def literal_tables(tree):
    """module-level NAME = (literal table) and class-level NAME = (literal table) (as '.NAME'), assigned exactly once in the module"""
    cand, count = {}, {}
    for n in ast.walk(tree):
        if isinstance(n, ast.Assign):
            for t in n.targets:
                for x in ast.walk(t):
                    if isinstance(x, ast.Name):
                        count[x.id] = count.get(x.id, 0) + 1
                    elif isinstance(x, ast.Attribute) and isinstance(x.ctx, ast.Store):
                        count['.' + x.attr] = count.get('.' + x.attr, 0) + 1
        elif isinstance(n, (ast.AugAssign, ast.AnnAssign)):
            for x in ast.walk(n.target):
                if isinstance(x, ast.Name):
                    count[x.id] = count.get(x.id, 0) + 2

    def scan(body, prefix):
        for st in body:
            if isinstance(st, ast.Assign) and len(st.targets) == 1 and isinstance(st.targets[0], ast.Name) and \
                    isinstance(st.value, (ast.Tuple, ast.List)) and st.value.elts and all(_simple_elt(e) for e in st.value.elts):
                cand[prefix + st.targets[0].id] = (st.targets[0].id, st.value)
            elif isinstance(st, ast.Assign) and len(st.targets) == 1 and isinstance(st.targets[0], ast.Name) and isinstance(st.value, ast.Dict) and \
                    len(st.value.keys) == 2 and all(isinstance(k, ast.Constant) and isinstance(k.value, bool) for k in st.value.keys) and \
                    {k.value for k in st.value.keys} == {True, False}:
                cand[prefix + st.targets[0].id] = (st.targets[0].id, st.value)         # a two-way dispatch table keyed by a flag
            elif isinstance(st, ast.ClassDef):
                scan(st.body, '.')
    scan(tree.body, '')
    out = {}
    for key, (nm, v) in cand.items():
        if count.get(nm, 0) == 1 and (not key.startswith('.') or count.get(key, 0) == 0):
            out[key] = v
    return out


class CounterInduction(ast.NodeTransformer):
    """a counter that is incremented once per iteration is a function of the loop variables:
         k = 0 / for r in range(R): for c in range(C): ..k.. ; k += 1      ->   k  ==  c + r * C   inside the inner body
         k = 0 / for x in IT: ..k.. ; k += 1                               ->   for k, x in enumerate(IT): ..k..
    (the increment is the last statement of the body, which has no continue / break; k is not read after the loop)"""

    def visit_FunctionDef(self, fn):
        self.generic_visit(fn)

        def rec(node):
            for owner, fld, blk in list(_blocks(node)):
                for st in blk:
                    if not isinstance(st, (ast.FunctionDef, ast.AsyncFunctionDef, ast.ClassDef)):
                        rec(st)
                setattr(owner, fld, self._rewrite(blk))
        rec(fn)
        return fn

    visit_AsyncFunctionDef = visit_FunctionDef

    @staticmethod
    def _range1(it):
        return it.args[0] if isinstance(it, ast.Call) and isinstance(it.func, ast.Name) and it.func.id == 'range' and len(it.args) == 1 \
            and not it.keywords else None

    @staticmethod
    def _incr(st, k):
        return isinstance(st, ast.AugAssign) and isinstance(st.op, ast.Add) and isinstance(st.target, ast.Name) and st.target.id == k and \
            isinstance(st.value, ast.Constant) and st.value.value == 1

    def _rewrite(self, blk):
        out = list(blk)
        for i, init in enumerate(blk):
            if not (isinstance(init, ast.Assign) and len(init.targets) == 1 and isinstance(init.targets[0], ast.Name) and
                    isinstance(init.value, ast.Constant) and init.value.value == 0 and not isinstance(init.value.value, bool)):
                continue
            k = init.targets[0].id
            j = i + 1
            while j < len(blk) and not _mentions([blk[j]], k):
                j += 1
            if j >= len(blk) or not isinstance(blk[j], ast.For) or blk[j].orelse or _mentions(blk[j + 1:], k) or \
                    _mentions([blk[j].target, blk[j].iter], k):
                continue
            loop = blk[j]
            stores = lambda stmts: sum(1 for s_ in stmts for n in ast.walk(s_) if isinstance(n, ast.Name) and n.id == k and isinstance(n.ctx, (ast.Store, ast.Del)))
            # single loop
            if loop.body and self._incr(loop.body[-1], k) and stores(loop.body) == 1 and not _has_loop_jump(loop.body) and isinstance(loop.target, (ast.Name, ast.Tuple)):
                loop.body = loop.body[:-1] or [ast.copy_location(ast.Pass(), loop)]
                loop.target = ast.copy_location(ast.Tuple(elts=[ast.Name(id=k, ctx=ast.Store()), loop.target], ctx=ast.Store()), loop.target)
                loop.iter = ast.copy_location(ast.Call(func=ast.Name(id='enumerate', ctx=ast.Load()), args=[loop.iter], keywords=[]), loop.iter)
                out = [s_ for s_ in out if s_ is not init]
                continue
            # two nested range loops
            R = self._range1(loop.iter)
            inner = loop.body[-1] if loop.body and isinstance(loop.body[-1], ast.For) else None
            if R is None or inner is None or inner.orelse or _mentions(loop.body[:-1], k) or not isinstance(loop.target, ast.Name) or \
                    not isinstance(inner.target, ast.Name):
                continue
            C = self._range1(inner.iter)
            if C is None or not inner.body or not self._incr(inner.body[-1], k) or stores(inner.body) != 1 or _has_loop_jump(inner.body) or \
                    any(isinstance(n, ast.Call) for n in ast.walk(C)):
                continue
            made_of = {n.id for n in ast.walk(C) if isinstance(n, ast.Name)}
            if any(isinstance(n, ast.Name) and n.id in made_of and isinstance(n.ctx, ast.Store) for s_ in loop.body for n in ast.walk(s_)):
                continue
            form = ast.BinOp(left=ast.Name(id=inner.target.id, ctx=ast.Load()), op=ast.Add(),
                             right=ast.BinOp(left=ast.Name(id=loop.target.id, ctx=ast.Load()), op=ast.Mult(), right=C))
            inner.body = [_SubstTable({k: form}).visit(s_) for s_ in inner.body[:-1]] or [ast.copy_location(ast.Pass(), inner)]
            out = [s_ for s_ in out if s_ is not init]
        return out


# Which attributes can change after construction (set by model.Repo for the tree that is being analysed; None: unknown, no aliasing).
#   ext        attribute names assigned through anything but `self` outside of constructors (obj.attr = ..), anywhere
#   self_any   attribute names assigned through `self` outside of constructors, in any class
#   self_by    class name -> attribute names assigned through `self` outside of constructors in that class
#   bases      class name -> base class names
# A chain `self.a` read in a method of class C is *effectively final* if `a` is in neither ext nor self_by[K] for any class K related
# to C by inheritance; deeper attributes and chains rooted at other parameters are judged by name alone (ext and self_any).
MUTABLE_ATTRS = None


class Mutability:
    def __init__(self):
        self.ext, self.self_any, self.self_by, self.bases, self.wild = set(), set(), {}, {}, False

    def update(self, other):
        self.ext |= other.ext
        self.self_any |= other.self_any
        for k, v in other.self_by.items():
            self.self_by.setdefault(k, set()).update(v)
        for k, v in other.bases.items():
            self.bases.setdefault(k, set()).update(v)
        self.wild = self.wild or other.wild
        return self

    def family(self, cname):
        """cname, its ancestors and its descendants (by simple class name)"""
        up, stack = set(), [cname]
        while stack:
            c = stack.pop()
            if c in up:
                continue
            up.add(c)
            stack.extend(self.bases.get(c, ()))
        down, changed = set(up), True
        while changed:
            changed = False
            for c, bs in self.bases.items():
                if c not in down and bs & down:
                    down.add(c)
                    changed = True
        return down

    def final(self, chain, cname):
        if self.wild:
            return False
        attrs = []
        e = chain
        while isinstance(e, ast.Attribute):
            attrs.append(e.attr)
            e = e.value
        attrs.reverse()
        root = e.id if isinstance(e, ast.Name) else None
        for k, a in enumerate(attrs):
            if a in self.ext:
                return False
            if k == 0 and root == 'self' and cname:
                if any(a in self.self_by.get(c, ()) or '*' in self.self_by.get(c, ()) for c in self.family(cname)):
                    return False
            elif a in self.self_any:
                return False
        return True


def mutable_attrs_of(sources):
    """scan module sources for attributes that are stored outside of constructors -> Mutability"""
    mu = Mutability()
    for src in sources:
        try:
            tree = ast.parse(src)
        except SyntaxError:
            continue

        def scan(body, cname):
            for st in body:
                if isinstance(st, ast.ClassDef):
                    mu.bases.setdefault(st.name, set()).update(x for x in (b.id if isinstance(b, ast.Name) else b.attr for b in st.bases if isinstance(b, (ast.Name, ast.Attribute))) if x != 'object')
                    scan(st.body, st.name)
                elif isinstance(st, (ast.FunctionDef, ast.AsyncFunctionDef)):
                    ctor = cname is not None and st.name in ('__init__', '__new__')
                    for n in ast.walk(st):
                        if isinstance(n, ast.Attribute) and isinstance(n.ctx, (ast.Store, ast.Del)):
                            through_self = isinstance(n.value, ast.Name) and n.value.id == 'self'
                            if through_self and cname:
                                if not ctor:
                                    mu.self_any.add(n.attr)
                                    mu.self_by.setdefault(cname, set()).add(n.attr)
                            else:
                                mu.ext.add(n.attr)
                        elif isinstance(n, ast.Call) and isinstance(n.func, ast.Name) and n.func.id in ('setattr', 'delattr') and len(n.args) >= 2:
                            if isinstance(n.args[1], ast.Constant) and isinstance(n.args[1].value, str):
                                mu.ext.add(n.args[1].value)
                            elif isinstance(n.args[0], ast.Name) and n.args[0].id in ('self', 'self_') and cname:
                                # setattr(self, <computed name>, ..): every attribute of this class family can change
                                mu.self_by.setdefault(cname, set()).add('*')
                            elif st.name == '__get__' or (isinstance(n.args[0], ast.Attribute) and n.args[0].attr == 'values'):
                                # a memoising descriptor stores the computed value under the property's own name (set once);
                                # optparse stores option values on parser.values: neither changes an attribute behind a reader's back
                                pass
                            else:
                                mu.wild = True
                elif isinstance(st, (ast.If, ast.Try, ast.With, ast.For, ast.While)):
                    for fld in ('body', 'orelse', 'finalbody'):
                        scan(getattr(st, fld, []) or [], cname)
                    for h in getattr(st, 'handlers', []) or []:
                        scan(h.body, cname)
                else:
                    for x in ast.walk(st):
                        if isinstance(x, ast.Attribute) and isinstance(x.ctx, (ast.Store, ast.Del)):
                            mu.ext.add(x.attr)
        scan(tree.body, None)
    return mu


class AliasInline(ast.NodeTransformer):
    """`v = p.a.b` (an attribute chain rooted at a parameter, v bound once, neither the chain nor a prefix / extension of it nor its
    root assigned anywhere in the function)  ->  the chain itself at every read of v.  A value that was merely given a shorter name
    is the same value for every rule, whether or not it has the name."""

    def visit_FunctionDef(self, fn):
        self.generic_visit(fn)
        params = {a.arg for a in ast.walk(fn.args) if isinstance(a, ast.arg)}
        stores = {}
        for n in ast.walk(fn):
            if isinstance(n, ast.Name) and isinstance(n.ctx, (ast.Store, ast.Del)):
                stores[n.id] = stores.get(n.id, 0) + 1
            elif isinstance(n, (ast.Global, ast.Nonlocal)):
                for nm in n.names:
                    stores[nm] = 99
            elif isinstance(n, ast.ExceptHandler) and n.name:
                stores[n.name] = stores.get(n.name, 0) + 1
        stored_chains = {ast.unparse(n) for n in ast.walk(fn) if isinstance(n, ast.Attribute) and isinstance(n.ctx, (ast.Store, ast.Del))}
        stored_chains |= {ast.unparse(n.value) for n in ast.walk(fn) if isinstance(n, ast.Subscript) and isinstance(n.ctx, (ast.Store, ast.Del))}

        def chain_root(e):
            while isinstance(e, ast.Attribute):
                e = e.value
            return e.id if isinstance(e, ast.Name) else None
        aliases = {}
        for st in fn.body:           # top level of the function only: the alias is defined on every path that follows
            if isinstance(st, ast.Assign) and len(st.targets) == 1 and isinstance(st.targets[0], ast.Name) and isinstance(st.value, ast.Attribute):
                v = st.targets[0].id
                r = chain_root(st.value)
                t = ast.unparse(st.value)
                if v in params or stores.get(v, 0) != 1 or r not in params or stores.get(r, 0) or \
                        any(sc == t or sc.startswith(t + '.') or t.startswith(sc + '.') for sc in stored_chains):
                    continue
                if not getattr(self, 'force', False) and (MUTABLE_ATTRS is None or not MUTABLE_ATTRS.final(st.value, getattr(self, 'cname', None))):
                    continue        # a call between the alias and a use could assign the attribute: the local may hold the old value
                aliases[v] = st
        if not aliases:
            return fn
        # a nested function / lambda / comprehension that binds the same name shadows it: leave those functions alone
        for n in ast.walk(fn):
            if n is not fn and isinstance(n, (ast.FunctionDef, ast.AsyncFunctionDef, ast.Lambda)):
                bound = {a.arg for a in ast.walk(n.args) if isinstance(a, ast.arg)}
                for v in list(aliases):
                    if v in bound:
                        del aliases[v]
            elif isinstance(n, ast.comprehension):
                for x in ast.walk(n.target):
                    if isinstance(x, ast.Name) and x.id in aliases:
                        del aliases[x.id]
        if not aliases:
            return fn
        m = {v: st.value for v, st in aliases.items()}
        drop = {id(st) for st in aliases.values()}
        fn.body = [_SubstTable(m).visit(st) for st in fn.body if id(st) not in drop] or [ast.Pass()]
        return fn

    visit_AsyncFunctionDef = visit_FunctionDef

    def visit_ClassDef(self, node):
        saved = getattr(self, 'cname', None)
        self.cname = node.name
        self.generic_visit(node)
        self.cname = saved
        return node


_SCALAR_CALLS = {'int', 'float', 'str', 'len', 'abs', 'round', 'ord', 'chr', 'bool', 'hash', 'repr', 'bytes', 'format', 'hex', 'oct', 'bin'}


def _evidently_scalar(e):
    """a number / string by its form: with such a right operand `x <op> e` only succeeds for an immutable x"""
    if isinstance(e, ast.Constant):
        return isinstance(e.value, (int, float, complex, str, bytes))
    if isinstance(e, ast.JoinedStr):
        return True
    if isinstance(e, ast.Call):
        return isinstance(e.func, ast.Name) and e.func.id in _SCALAR_CALLS
    if isinstance(e, ast.UnaryOp):
        return _evidently_scalar(e.operand)
    if isinstance(e, ast.BinOp):
        if isinstance(e.op, (ast.Div, ast.FloorDiv, ast.Pow, ast.LShift, ast.RShift)):
            return True
        if isinstance(e.op, ast.Mod) and isinstance(e.left, ast.Constant) and isinstance(e.left.value, str):
            return True
        return _evidently_scalar(e.left) and _evidently_scalar(e.right) or \
            (isinstance(e.op, (ast.Add, ast.Sub)) and (_evidently_scalar(e.left) or _evidently_scalar(e.right)) and
             not any(isinstance(x, (ast.List, ast.Tuple, ast.Set, ast.Dict)) for x in (e.left, e.right)))
    return False


class ToAug(ast.NodeTransformer):
    """`x = x + e` -> `x += e` (plain names; one spelling of an update) -- only where x is evidently a number or a string: for a list,
    a set or a dict `x += e` changes the object in place (every other name of it sees the change), `x = x + e` makes a new one"""

    def visit_Assign(self, node):
        if len(node.targets) == 1 and isinstance(node.targets[0], ast.Name) and isinstance(node.value, ast.BinOp) and \
                isinstance(node.value.left, ast.Name) and node.value.left.id == node.targets[0].id and \
                (isinstance(node.value.op, (ast.Div, ast.FloorDiv, ast.Pow, ast.LShift, ast.RShift, ast.Mod)) or _evidently_scalar(node.value.right)) and \
                not any(isinstance(n, ast.Name) and n.id == node.targets[0].id for n in ast.walk(node.value.right)):
            return ast.copy_location(ast.AugAssign(target=ast.Name(id=node.targets[0].id, ctx=ast.Store()), op=node.value.op, value=node.value.right), node)
        return node

    def visit_Lambda(self, node):
        return node


class LambdaInline(ast.NodeTransformer):
    """`p = lambda t: E` (bound once, every use a direct call `p(a)` with plain arguments)  ->  E[t := a] at the calls"""

    def visit_FunctionDef(self, fn):
        self.generic_visit(fn)
        binds, loads, stores = {}, {}, {}
        for n in ast.walk(fn):
            if isinstance(n, ast.Name):
                d = loads if isinstance(n.ctx, ast.Load) else stores
                d[n.id] = d.get(n.id, 0) + 1
            if isinstance(n, ast.Assign) and len(n.targets) == 1 and isinstance(n.targets[0], ast.Name) and isinstance(n.value, ast.Lambda):
                binds[n.targets[0].id] = n
        params = {a.arg for a in ast.walk(fn.args) if isinstance(a, ast.arg)}
        for name, asg in binds.items():
            lam = asg.value
            la = lam.args
            if stores.get(name, 0) != 1 or name in params or la.vararg or la.kwarg or la.kwonlyargs or la.defaults or la.posonlyargs:
                continue
            ps = [a.arg for a in la.args]
            calls = [n for n in ast.walk(fn) if isinstance(n, ast.Call) and isinstance(n.func, ast.Name) and n.func.id == name]
            if len(calls) != loads.get(name, 0) or not calls:
                continue
            if not all(len(c.args) == len(ps) and not c.keywords and all(isinstance(x, (ast.Name, ast.Constant, ast.Attribute)) for x in c.args) for c in calls):
                continue
            free = {n.id for n in ast.walk(lam.body) if isinstance(n, ast.Name)} - set(ps)
            if any(stores.get(f, 0) > 1 for f in free):
                continue            # a free variable of the lambda is rebound: the call site would see another value
            ids = {id(c): c for c in calls}

            class R(ast.NodeTransformer):
                def visit_Call(self, n):
                    self.generic_visit(n)
                    if id(n) in ids:
                        m = dict(zip(ps, n.args))
                        return ast.copy_location(_SubstTable(m).visit(copy_tree(lam.body)), n)
                    return n
            R().visit(fn)

            def drop(node):
                for owner, fld, blk in list(_blocks(node)):
                    new = [s_ for s_ in blk if s_ is not asg]
                    for s_ in new:
                        if not isinstance(s_, (ast.FunctionDef, ast.AsyncFunctionDef, ast.ClassDef)):
                            drop(s_)
                    setattr(owner, fld, new or [ast.copy_location(ast.Pass(), asg)])
            drop(fn)
        return fn

    visit_AsyncFunctionDef = visit_FunctionDef


def keywords_to_positional(tree):
    """calls of functions of the same module / methods of the same class (`self.m(..)`): keyword arguments that continue the
    positional arguments in parameter order are written positionally (`f(a, y=b)` with `def f(x, y)` -> `f(a, b)`); the order of
    evaluation does not change.  One spelling of a call, whichever the author preferred."""
    counts = {}
    for st in ast.walk(tree):
        if isinstance(st, (ast.FunctionDef, ast.AsyncFunctionDef)):
            counts[st.name] = counts.get(st.name, 0) + 1

    def plain(f):
        a = f.args
        return not (a.vararg or a.posonlyargs or f.decorator_list)
    mod_sigs = {st.name: [x.arg for x in st.args.args] for st in tree.body
                if isinstance(st, ast.FunctionDef) and plain(st) and counts.get(st.name) == 1}

    # constructors of the module's own classes: the parameters of the class's own __init__
    cls_count = {}
    for st in ast.walk(tree):
        if isinstance(st, ast.ClassDef):
            cls_count[st.name] = cls_count.get(st.name, 0) + 1
    for st in tree.body:
        if isinstance(st, ast.ClassDef) and cls_count.get(st.name) == 1 and not st.keywords and not st.decorator_list and st.name not in mod_sigs and \
                not any(isinstance(m, ast.FunctionDef) and m.name == '__new__' for m in st.body):
            inits = [m for m in st.body if isinstance(m, ast.FunctionDef) and m.name == '__init__']
            if len(inits) == 1 and plain(inits[0]) and inits[0].args.args and inits[0].args.args[0].arg == 'self':
                mod_sigs[st.name] = [x.arg for x in inits[0].args.args[1:]]
    rebound = {x.id for x in ast.walk(tree) if isinstance(x, ast.Name) and isinstance(x.ctx, (ast.Store, ast.Del))}
    mod_sigs = {k: v for k, v in mod_sigs.items() if k not in rebound}

    class T(ast.NodeTransformer):
        def __init__(self, meth_sigs):
            self.meth = meth_sigs

        def visit_ClassDef(self, node):
            ms = {m.name: [x.arg for x in m.args.args[1:]] for m in node.body
                  if isinstance(m, ast.FunctionDef) and plain(m) and m.args.args and m.args.args[0].arg == 'self' and counts.get(m.name) == 1}
            inner = T(ms)
            node.body = [inner.visit(s_) for s_ in node.body]
            return node

        def visit_Call(self, node):
            self.generic_visit(node)
            f = node.func
            params = None
            if isinstance(f, ast.Name):
                params = mod_sigs.get(f.id)
            elif isinstance(f, ast.Attribute) and isinstance(f.value, ast.Name) and f.value.id == 'self':
                params = self.meth.get(f.attr)
            if not params or not node.keywords or any(isinstance(a, ast.Starred) for a in node.args):
                return node
            k = len(node.args)
            moved = 0
            for kw in node.keywords:
                if kw.arg is not None and k + moved < len(params) and kw.arg == params[k + moved]:
                    moved += 1
                else:
                    break
            if moved:
                node.args = list(node.args) + [kw.value for kw in node.keywords[:moved]]
                node.keywords = node.keywords[moved:]
            return node
    return T({}).visit(tree)


def inline_new_constants(tree, rel):
    """to a fixpoint: a new constant may be defined with another one (`EMPTY = b'\\x00' * ENTRY_SIZE`)"""
    for _ in range(4):
        tree, again = _inline_new_constants_once(tree, rel)
        if not again:
            break
    return tree


def _inline_new_constants_once(tree, rel):
    """module level `NAME = <literal>` that the reference tree does not have (a magic number that was given a name): the literal is
    written back at its uses inside the module's functions (the definition stays).  Names of the reference tree are left alone: the
    rules know them (or evaluate them)."""
    from .inline import load_known
    known = load_known()
    count = {}
    for st in tree.body:
        if isinstance(st, (ast.Assign, ast.AugAssign, ast.AnnAssign)):
            for t in (st.targets if isinstance(st, ast.Assign) else [st.target]):
                for x in ast.walk(t):
                    if isinstance(x, ast.Name):
                        count[x.id] = count.get(x.id, 0) + 1
    for n in ast.walk(tree):
        if isinstance(n, ast.Global):
            for nm in n.names:
                count[nm] = count.get(nm, 0) + 5
    consts = {}

    def scalar(v):
        return isinstance(v, ast.Constant) and (isinstance(v.value, (int, float, str, bytes)) or v.value is None)

    def immutable_literal(v):
        if scalar(v):
            return True
        if isinstance(v, ast.UnaryOp) and isinstance(v.op, (ast.USub, ast.UAdd)) and scalar(v.operand) and not isinstance(v.operand.value, (str, bytes)):
            return True
        if isinstance(v, ast.Tuple) and v.elts and all(dotted_global(e) for e in v.elts):   # ERRORS = (pickle.UnpicklingError, EOFError)
            return True
        # FLAGS = os.O_WRONLY | os.O_CREAT | os.O_EXCL: bit combinations of constants of imported modules
        def flag_expr(e):
            if isinstance(e, ast.BinOp) and isinstance(e.op, (ast.BitOr, ast.BitAnd)):
                return flag_expr(e.left) and flag_expr(e.right)
            if isinstance(e, ast.Attribute):
                return e.attr.isupper() and dotted_global(e)
            return isinstance(e, ast.Constant) and type(e.value) is int
        if isinstance(v, ast.BinOp) and flag_expr(v):
            return True
        return isinstance(v, ast.Tuple) and all(immutable_literal(e) for e in v.elts)       # DEFAULT_SIZE = (256, 256)

    import builtins
    top_bound = set()
    stack = list(tree.body)
    while stack:
        st = stack.pop()
        if isinstance(st, (ast.Import, ast.ImportFrom)):
            top_bound |= {(a.asname or a.name).split('.')[0] for a in st.names}
        elif isinstance(st, ast.ClassDef):
            top_bound.add(st.name)
        elif isinstance(st, (ast.Try, ast.If)):       # try: import cPickle as pickle / except ImportError: import pickle
            stack.extend(st.body + st.orelse + getattr(st, 'finalbody', []) + [x for h in getattr(st, 'handlers', []) for x in h.body])

    def dotted_global(e):
        """an imported / builtin / module level class, possibly through attributes: bound once, at import time"""
        while isinstance(e, ast.Attribute):
            e = e.value
        return isinstance(e, ast.Name) and (e.id in top_bound or hasattr(builtins, e.id)) and count.get(e.id, 0) == 0
    for st in tree.body:
        if isinstance(st, ast.Assign) and len(st.targets) == 1 and isinstance(st.targets[0], ast.Name) and immutable_literal(st.value) and \
                count.get(st.targets[0].id) == 1 and \
                '%s:=%s' % (rel, st.targets[0].id) not in known:
            consts[st.targets[0].id] = st.value
        elif isinstance(st, ast.Assign) and len(st.targets) == 1 and isinstance(st.targets[0], ast.Tuple) and isinstance(st.value, ast.Tuple) and \
                len(st.targets[0].elts) == len(st.value.elts):
            for t_, v_ in zip(st.targets[0].elts, st.value.elts):        # X_AXIS, Y_AXIS = 0, 1
                if isinstance(t_, ast.Name) and isinstance(v_, ast.Constant) and isinstance(v_.value, (int, float, str, bytes)) and \
                        count.get(t_.id) == 1 and '%s:=%s' % (rel, t_.id) not in known:
                    consts[t_.id] = v_
    if not consts:
        return tree, False
    again = [False]

    class T(ast.NodeTransformer):
        def __init__(self, shadow):
            self.shadow = shadow

        def visit_Name(self, n):
            if isinstance(n.ctx, ast.Load) and n.id in consts and n.id not in self.shadow:
                new = copy_tree(consts[n.id])          # (not deepcopy: the shared ctx / operator objects of the ast module may carry links)
                for x in ast.walk(new):
                    ast.copy_location(x, n)
                return new
            return n

        def _fn(self, n):
            bound = {a.arg for a in ast.walk(n.args) if isinstance(a, ast.arg)}
            if not isinstance(n, ast.Lambda):
                bound |= {x.id for x in ast.walk(n) if isinstance(x, ast.Name) and isinstance(x.ctx, (ast.Store, ast.Del))}
            inner = T(self.shadow | bound)
            if isinstance(n, ast.Lambda):
                n.body = inner.visit(n.body)
            else:
                n.body = [inner.visit(s_) for s_ in n.body]
                n.args.defaults = [self.visit(d) for d in n.args.defaults]
            return n

        visit_FunctionDef = visit_AsyncFunctionDef = visit_Lambda = _fn

    for st in tree.body:
        if isinstance(st, (ast.FunctionDef, ast.AsyncFunctionDef, ast.ClassDef)):
            T(set()).visit(st)
        elif isinstance(st, ast.Assign) and not (len(st.targets) == 1 and isinstance(st.targets[0], ast.Name) and st.targets[0].id in consts):
            before = ast.dump(st.value)
            st.value = T(set()).visit(st.value)         # a table / another constant defined with the name
            if ast.dump(st.value) != before:
                st.value = _ArithFold().visit(st.value)
                if immutable_literal(st.value) and len(st.targets) == 1 and isinstance(st.targets[0], ast.Name):
                    again[0] = True                     # now a literal itself: its uses are written out in the next round
    return tree, again[0]


class _ArithFold(ast.NodeTransformer):
    """arithmetic on literal constants (small results only): `b'\\x00' * 5`, `8 - 5`, `(1 << 40) - 1`"""

    def visit_BinOp(self, node):
        self.generic_visit(node)
        a, b = node.left, node.right
        if isinstance(a, ast.Constant) and isinstance(b, ast.Constant) and type(a.value) in (int, str, bytes) and type(b.value) in (int, str, bytes):
            import operator as op
            fn = {ast.Add: op.add, ast.Sub: op.sub, ast.Mult: op.mul, ast.FloorDiv: op.floordiv, ast.Mod: None, ast.LShift: op.lshift,
                  ast.RShift: op.rshift, ast.BitAnd: op.and_, ast.BitOr: op.or_, ast.Pow: None}.get(type(node.op))
            if fn is None:
                return node
            if isinstance(node.op, (ast.Mult, ast.LShift)) and isinstance(b.value, int) and abs(b.value) > 4096:
                return node
            try:
                v = fn(a.value, b.value)
            except Exception:       # noqa
                return node
            if type(v) in (int, str, bytes) and (not isinstance(v, (str, bytes)) or len(v) <= 256):
                return ast.copy_location(ast.Constant(value=v), node)
        return node


def _namedtuples(tree):
    """module level `N = namedtuple('..', 'a b' | ['a', 'b'])` assigned once -> {N: [fields]}"""
    out, count = {}, {}
    for st in tree.body:
        if isinstance(st, ast.Assign):
            for t in st.targets:
                if isinstance(t, ast.Name):
                    count[t.id] = count.get(t.id, 0) + 1
    for st in tree.body:
        if isinstance(st, ast.Assign) and len(st.targets) == 1 and isinstance(st.targets[0], ast.Name) and isinstance(st.value, ast.Call) and \
                (getattr(st.value.func, 'id', None) == 'namedtuple' or getattr(st.value.func, 'attr', None) == 'namedtuple') and \
                len(st.value.args) == 2 and not st.value.keywords and count.get(st.targets[0].id) == 1:
            f = st.value.args[1]
            fields = None
            if isinstance(f, ast.Constant) and isinstance(f.value, str):
                fields = f.value.replace(',', ' ').split()
            elif isinstance(f, (ast.List, ast.Tuple)) and all(isinstance(x, ast.Constant) and isinstance(x.value, str) for x in f.elts):
                fields = [x.value for x in f.elts]
            if fields and len(set(fields)) == len(fields) and all(x.isidentifier() for x in fields):
                out[st.targets[0].id] = fields
    return out


class RecordSplit(ast.NodeTransformer):
    """a local that only ever holds a freshly built record of one module level namedtuple and is only read field by field
    (`r = N(a, flag=b)` ... `r.flag`) is the fields it holds: one local per field (`r__a, r__flag = a, b` ... `r__flag`).  The record
    was a way to carry several results of a decision out of a helper; with the helper written out at its call the fields are the
    flags and values the caller would have computed itself."""

    def __init__(self, records):
        self.records = records

    def visit_FunctionDef(self, fn):
        self.generic_visit(fn)
        if not self.records:
            return fn
        params = {a.arg for a in ast.walk(fn.args) if isinstance(a, ast.arg)}
        own = set()
        stack = list(fn.body)
        while stack:
            n = stack.pop()
            own.add(id(n))
            if isinstance(n, (ast.FunctionDef, ast.AsyncFunctionDef, ast.ClassDef, ast.Lambda)):
                continue
            stack.extend(ast.iter_child_nodes(n))
        parents = {}
        for n in ast.walk(fn):
            for ch in ast.iter_child_nodes(n):
                parents[id(ch)] = n
        names = {}
        for n in ast.walk(fn):
            if isinstance(n, ast.Name):
                names.setdefault(n.id, []).append(n)
            elif isinstance(n, (ast.Global, ast.Nonlocal)):
                for nm in n.names:
                    names.setdefault(nm, []).append(None)
        allnames = set(names) | params
        todo = {}
        for v, occ in names.items():
            if v in params or any(o is None or id(o) not in own for o in occ):
                continue
            rec, ok, assigns = None, True, []
            for o in occ:
                par = parents.get(id(o))
                if isinstance(o.ctx, ast.Store):
                    if not (isinstance(par, ast.Assign) and len(par.targets) == 1 and par.targets[0] is o and isinstance(par.value, ast.Call) and
                            isinstance(par.value.func, ast.Name) and par.value.func.id in self.records):
                        ok = False
                        break
                    c = par.value
                    fields = self.records[c.func.id]
                    if rec not in (None, c.func.id) or any(isinstance(a, ast.Starred) for a in c.args) or any(k.arg is None for k in c.keywords) or \
                            len(c.args) + len(c.keywords) != len(fields) or [k.arg for k in c.keywords] != fields[len(c.args):]:
                        ok = False      # (keywords in field order: the arguments are evaluated in the order of the fields)
                        break
                    rec = c.func.id
                    assigns.append(par)
                elif isinstance(o.ctx, ast.Load):
                    if not (isinstance(par, ast.Attribute) and par.value is o and isinstance(par.ctx, ast.Load)):
                        ok = False
                        break
                else:
                    ok = False
                    break
            if not ok or rec is None or not assigns:
                continue
            fields = self.records[rec]
            if any(isinstance(parents.get(id(o)), ast.Attribute) and parents[id(o)].attr not in fields for o in occ if isinstance(o.ctx, ast.Load)):
                continue
            if any('%s__%s' % (v, f) in allnames for f in fields):
                continue
            todo[v] = (fields, {id(a) for a in assigns})
        if not todo:
            return fn

        class R(ast.NodeTransformer):
            def visit_Attribute(self, node):
                if isinstance(node.value, ast.Name) and node.value.id in todo and isinstance(node.ctx, ast.Load):
                    return ast.copy_location(ast.Name(id='%s__%s' % (node.value.id, node.attr), ctx=ast.Load()), node)
                self.generic_visit(node)
                return node

            def visit_Assign(self, node):
                self.generic_visit(node)
                t = node.targets[0]
                if len(node.targets) == 1 and isinstance(t, ast.Name) and t.id in todo and id(node) in todo[t.id][1]:
                    fields = todo[t.id][0]
                    c = node.value
                    vals = list(c.args) + [k.value for k in c.keywords]
                    new = ast.Assign(targets=[ast.Tuple(elts=[ast.Name(id='%s__%s' % (t.id, f), ctx=ast.Store()) for f in fields], ctx=ast.Store())],
                                     value=ast.Tuple(elts=vals, ctx=ast.Load()), type_comment=None)
                    return ast.fix_missing_locations(ast.copy_location(new, node))
                return node

            def visit_FunctionDef(self, node):
                return node

            visit_AsyncFunctionDef = visit_FunctionDef
            visit_Lambda = visit_FunctionDef
        r = R()
        fn.body = [ast.NodeTransformer.generic_visit(r, st) if False else r.visit(st) for st in fn.body]
        return fn

    visit_AsyncFunctionDef = visit_FunctionDef


def simplify_tree(tree):
    """apply the normal forms to a module tree (in place) -> tree"""
    from .model import _InlineTemps
    consts = literal_tables(tree)
    # a function-local name that shadows a table name must not be resolved: only names never bound inside functions
    bound_in_fns = set()
    for fn in ast.walk(tree):
        if isinstance(fn, (ast.FunctionDef, ast.AsyncFunctionDef, ast.Lambda)):
            for a in ast.walk(fn.args):
                if isinstance(a, ast.arg):
                    bound_in_fns.add(a.arg)
            if not isinstance(fn, ast.Lambda):
                for n in ast.walk(fn):
                    if isinstance(n, ast.Name) and isinstance(n.ctx, ast.Store):
                        bound_in_fns.add(n.id)
    consts = {k: v for k, v in consts.items() if k.lstrip('.') not in bound_in_fns or k.startswith('.')}
    tu = TableUnroll(consts)
    tree = tu.visit(tree)
    if getattr(tu, 'dispatch_rewritten', False):
        from .model import _LowerIfExp
        tree = _LowerIfExp().visit(tree)
    tree = ConstFold().visit(tree)
    tree = keywords_to_positional(tree)
    tree = LambdaInline().visit(tree)
    tree = AliasInline().visit(tree)
    tree = ToAug().visit(tree)
    tree = CounterInduction().visit(tree)
    tree = NextToLoop().visit(tree)
    tree = RecordSplit(_namedtuples(tree)).visit(tree)
    tree = SplitTupleAssign().visit(tree)
    tree = RoundTripCopy().visit(tree)
    tree = CopyProp().visit(tree)
    tree = FlagThread().visit(tree)
    tree = JoinNestedIf().visit(tree)
    tree = _DoubleNot().visit(tree)
    tree = FlipNegatedIf().visit(tree)
    tree = _InlineTemps().visit(tree)
    return ast.fix_missing_locations(tree)
