"""Program model: parses every non-test module under <root>/mapproxy, indexes
functions and classes by qualified name, resolves imports and class hierarchy,
and loads the tempita templates.  Nothing from the repository is imported or
executed."""
import ast
import os
import re

DEFAULT_ROOT = os.environ.get('VERIF_REPO', '/repo')


class AnchorMissing(Exception):
    """An anchored qualified name does not exist any more -> exit 2."""


# node classes of which the ast module keeps one shared instance (expression contexts, operators): they must not carry tree links
_SHARED_NODES = (ast.expr_context, ast.operator, ast.boolop, ast.unaryop, ast.cmpop)


class Undecided(Exception):
    """A rule met a form it does not recognise -> exit 2, never a violation."""


def _copy_tree(e):
    """structural copy of a small syntax tree (copy.deepcopy is two orders of magnitude slower on ast nodes)"""
    if isinstance(e, list):
        return [_copy_tree(x) for x in e]
    if not isinstance(e, ast.AST):
        return e
    new = e.__class__()
    for k, v in e.__dict__.items():
        if k == '_parent':
            continue
        setattr(new, k, _copy_tree(v) if isinstance(v, (ast.AST, list)) else v)
    return new


class _LowerIfExp(ast.NodeTransformer):
    """`x = a if c else b` / `return a if c else b`  ->  the equivalent if statement (the rules then see one form only)"""

    def _lower(self, st, mk):
        v = st.value
        if not isinstance(v, ast.IfExp):
            return st
        body = self._lower(ast.copy_location(mk(v.body), st), mk)
        orelse = self._lower(ast.copy_location(mk(v.orelse), st), mk)
        new = ast.copy_location(ast.If(test=v.test, body=body if isinstance(body, list) else [body],
                                       orelse=orelse if isinstance(orelse, list) else [orelse]), st)
        return new

    def visit_Assign(self, node):
        if isinstance(node.value, ast.IfExp) and all(isinstance(t, (ast.Name, ast.Attribute, ast.Tuple)) for t in node.targets):
            return self._lower(node, lambda v: ast.Assign(targets=[_copy_tree(t) for t in node.targets], value=v, type_comment=None))
        return node

    def visit_Return(self, node):
        if isinstance(node.value, ast.IfExp):
            return self._lower(node, lambda v: ast.Return(value=v))
        return node

    def visit_Expr(self, node):
        # `yield a if c else b` (as a statement)
        v = node.value
        if isinstance(v, ast.Yield) and isinstance(v.value, ast.IfExp):
            def lower(e):
                if not isinstance(e, ast.IfExp):
                    return ast.copy_location(ast.Expr(value=ast.copy_location(ast.Yield(value=e), node)), node)
                return ast.copy_location(ast.If(test=e.test, body=[lower(e.body)], orelse=[lower(e.orelse)]), node)
            return lower(v.value)
        return node

    def visit_With(self, node):
        # `with (A if c else B): body`  ->  `if c: with A: body  else: with B: body`;  `with nullcontext(): body` is `body`
        self.generic_visit(node)
        if len(node.items) == 1 and isinstance(node.items[0].context_expr, ast.IfExp) and node.items[0].optional_vars is None:
            v = node.items[0].context_expr

            def arm(e, body):
                if isinstance(e, ast.Call) and not e.args and not e.keywords and \
                        (isinstance(e.func, ast.Name) and e.func.id == 'nullcontext' or isinstance(e.func, ast.Attribute) and e.func.attr == 'nullcontext'):
                    return body
                return [ast.copy_location(ast.With(items=[ast.withitem(context_expr=e, optional_vars=None)], body=body, type_comment=None), node)]
            return ast.copy_location(ast.If(test=v.test, body=arm(v.body, node.body), orelse=arm(v.orelse, [_copy_tree(s) for s in node.body])), node)
        return node

    def visit_Lambda(self, node):
        return node


class _SplitWith(ast.NodeTransformer):
    """`with A, B as x: body`  ->  `with A: with B as x: body` (the language defines the first by the second)"""

    def visit_With(self, node):
        self.generic_visit(node)
        while len(node.items) > 1:
            inner = ast.copy_location(ast.With(items=node.items[1:], body=node.body, type_comment=None), node)
            inner = self.visit_With(inner) if len(inner.items) > 1 else inner
            node.items = node.items[:1]
            node.body = [inner]
        return node


class _LoopToComp(ast.NodeTransformer):
    """`L = []` + `for T in IT: [if C: continue]* L.append(E)`  ->  `L = [E for T in IT if not C ...]` (also `if C: L.append(E)`,
    dict `D[K] = V` and set `S.add(E)` accumulators).  Only when the loop does nothing else and T is not read afterwards in the
    same block: the explicit loop and the comprehension then build the same collection in the same order."""

    def _filters_and_elt(self, body, acc):
        """-> (list of filter tests, ('list'|'set', E) | ('dict', K, V)) or None"""
        filters = []
        stmts = list(body)
        while stmts:
            st = stmts[0]
            if isinstance(st, ast.If) and not st.orelse and len(st.body) == 1 and isinstance(st.body[0], ast.Continue) and len(stmts) > 1:
                from .inline import _negate
                filters.append(_negate(st.test))
                stmts = stmts[1:]
                continue
            if isinstance(st, ast.If) and not st.orelse and len(stmts) == 1:
                filters.append(st.test)
                stmts = list(st.body)
                continue
            break
        if len(stmts) != 1:
            return None
        st = stmts[0]
        if isinstance(st, ast.Expr) and isinstance(st.value, ast.Call) and isinstance(st.value.func, ast.Attribute) and \
                isinstance(st.value.func.value, ast.Name) and st.value.func.value.id == acc and len(st.value.args) == 1 and not st.value.keywords:
            if st.value.func.attr == 'append':
                return filters, ('list', st.value.args[0])
            if st.value.func.attr == 'add':
                return filters, ('set', st.value.args[0])
        if isinstance(st, ast.Assign) and len(st.targets) == 1 and isinstance(st.targets[0], ast.Subscript) and \
                isinstance(st.targets[0].value, ast.Name) and st.targets[0].value.id == acc:
            return filters, ('dict', st.targets[0].slice, st.value)
        return None

    def _rewrite(self, stmts):
        out, i = [], 0
        while i < len(stmts):
            a = stmts[i]
            b = stmts[i + 1] if i + 1 < len(stmts) else None
            if isinstance(a, ast.Assign) and len(a.targets) == 1 and isinstance(a.targets[0], ast.Name) and isinstance(b, ast.For) and not b.orelse:
                acc = a.targets[0].id
                kind0 = 'list' if isinstance(a.value, ast.List) and not a.value.elts else \
                    'dict' if isinstance(a.value, ast.Dict) and not a.value.keys else \
                    'set' if isinstance(a.value, ast.Call) and isinstance(a.value.func, ast.Name) and a.value.func.id == 'set' and not a.value.args else None
                fe = self._filters_and_elt(b.body, acc) if kind0 else None
                tnames = {n.id for n in ast.walk(b.target) if isinstance(n, ast.Name)}
                later = {n.id for s_ in stmts[i + 2:] for n in ast.walk(s_) if isinstance(n, ast.Name)}
                inner = {n.id for x in ([b.iter] + (list(fe[0]) if fe else [])) for n in ast.walk(x) if isinstance(n, ast.Name)}
                if fe and fe[1][0] == kind0 and not (tnames & later) and acc not in inner and acc not in tnames and \
                        not any(isinstance(n, (ast.Yield, ast.YieldFrom, ast.Await)) for n in ast.walk(b)):
                    gen = ast.comprehension(target=b.target, iter=b.iter, ifs=fe[0], is_async=0)
                    if kind0 == 'list':
                        comp = ast.ListComp(elt=fe[1][1], generators=[gen])
                    elif kind0 == 'set':
                        comp = ast.SetComp(elt=fe[1][1], generators=[gen])
                    else:
                        comp = ast.DictComp(key=fe[1][1], value=fe[1][2], generators=[gen])
                    if acc not in {n.id for n in ast.walk(comp) if isinstance(n, ast.Name)}:
                        out.append(ast.copy_location(ast.Assign(targets=[a.targets[0]], value=ast.copy_location(comp, b), type_comment=None), a))
                        i += 2
                        continue
            out.append(a)
            i += 1
        return out

    def generic_visit(self, node):
        super().generic_visit(node)
        for fld in ('body', 'orelse', 'finalbody'):
            blk = getattr(node, fld, None)
            if isinstance(blk, list) and blk and isinstance(blk[0], ast.stmt):
                setattr(node, fld, self._rewrite(blk))
        return node


def _first_evaluated(expr, name):
    """is the (single) load of `name` in `expr` evaluated before anything that could have a side effect?
    (left-to-right evaluation: operands / arguments before the operation or call itself)"""
    state = {'found': False, 'impure': False}

    def ev(e):
        if state['found'] or state['impure']:
            return
        if isinstance(e, ast.Name):
            if e.id == name and isinstance(e.ctx, ast.Load):
                state['found'] = True
            return
        if isinstance(e, ast.Constant):
            return
        if isinstance(e, ast.Attribute):
            ev(e.value)
            return
        if isinstance(e, ast.Call):
            ev(e.func)
            for a in e.args:
                ev(a.value if isinstance(a, ast.Starred) else a)
            for k in e.keywords:
                ev(k.value)
            if not state['found']:
                state['impure'] = True
            return
        if isinstance(e, (ast.BoolOp, ast.IfExp, ast.Lambda, ast.ListComp, ast.SetComp, ast.DictComp, ast.GeneratorExp, ast.NamedExpr,
                          ast.Await, ast.Yield, ast.YieldFrom)):
            if any(isinstance(x, ast.Name) and x.id == name for x in ast.walk(e)):
                state['impure'] = True      # conditional / deferred evaluation: not a plain substitution site
            elif any(isinstance(x, ast.Call) for x in ast.walk(e)):
                state['impure'] = True
            return
        for c in ast.iter_child_nodes(e):
            if isinstance(c, ast.expr):
                ev(c)
    ev(expr)
    return state['found'] and not state['impure']


def _calls_nothing(e):
    """an expression of names, attributes, constants, comparisons and and / or / not only"""
    return all(isinstance(x, (ast.Name, ast.Attribute, ast.Constant, ast.Compare, ast.BoolOp, ast.UnaryOp, ast.expr_context, ast.cmpop,
                              ast.boolop, ast.unaryop)) for x in ast.walk(e))


def _leftmost_is(e, name):
    """is the load of `name` the first operand that `e` evaluates (through and / or / not / conditional tests / comparisons)?"""
    while True:
        if isinstance(e, ast.Name):
            return e.id == name and isinstance(e.ctx, ast.Load)
        if isinstance(e, ast.BoolOp):
            e = e.values[0]
        elif isinstance(e, ast.IfExp):
            e = e.test
        elif isinstance(e, ast.UnaryOp):
            e = e.operand
        elif isinstance(e, ast.Compare):
            e = e.left
        elif isinstance(e, ast.BinOp):
            e = e.left
        elif isinstance(e, ast.Call):
            e = e.func          # `m = obj.method` / `return m(x)`: the callee expression is evaluated before the arguments
        elif isinstance(e, ast.Attribute):
            e = e.value
        else:
            return False


def _flatten_boolops(node):
    """`(a and b) and c` -> `a and b and c` (first operand only: evaluation order and result are the same)"""
    for x in ast.walk(node):
        if isinstance(x, ast.BoolOp):
            while isinstance(x.values[0], ast.BoolOp) and type(x.values[0].op) is type(x.op):
                x.values = x.values[0].values + x.values[1:]


def _first_evaluated_seq(expr, names):
    """are the (single) loads of `names` in `expr` evaluated in that order, before anything that could have a side effect?"""
    state = {'idx': 0, 'impure': False}
    n = len(names)

    def ev(e):
        if state['idx'] >= n or state['impure']:
            return
        if isinstance(e, ast.Name):
            if isinstance(e.ctx, ast.Load) and e.id in names:
                if e.id == names[state['idx']]:
                    state['idx'] += 1
                else:
                    state['impure'] = True
            return
        if isinstance(e, ast.Constant):
            return
        if isinstance(e, ast.Attribute):
            ev(e.value)
            return
        if isinstance(e, ast.Call):
            ev(e.func)
            for a in e.args:
                ev(a.value if isinstance(a, ast.Starred) else a)
            for k in e.keywords:
                ev(k.value)
            if state['idx'] < n:
                state['impure'] = True
            return
        if isinstance(e, (ast.BoolOp, ast.IfExp, ast.Lambda, ast.ListComp, ast.SetComp, ast.DictComp, ast.GeneratorExp, ast.NamedExpr,
                          ast.Await, ast.Yield, ast.YieldFrom)):
            if any(isinstance(x, ast.Name) and x.id in names[state['idx']:] for x in ast.walk(e)):
                state['impure'] = True
            elif any(isinstance(x, ast.Call) for x in ast.walk(e)):
                state['impure'] = True
            return
        for c in ast.iter_child_nodes(e):
            if isinstance(c, ast.expr):
                ev(c)
    ev(expr)
    return state['idx'] == n and not state['impure']


def _replace_name(stmt, name, value):
    for parent in ast.walk(stmt):
        for fld, val in ast.iter_fields(parent):
            if isinstance(val, ast.Name) and val.id == name and isinstance(val.ctx, ast.Load):
                setattr(parent, fld, value)
                return
            if isinstance(val, list):
                for i, v in enumerate(val):
                    if isinstance(v, ast.Name) and v.id == name and isinstance(v.ctx, ast.Load):
                        val[i] = value
                        return


class _ForUnpackFold(ast.NodeTransformer):
    """`for item in IT: a, b = item; ...` (item not used otherwise) -> `for a, b in IT: ...`"""

    def visit_For(self, node):
        self.generic_visit(node)
        if isinstance(node.target, ast.Name) and node.body and isinstance(node.body[0], ast.Assign) and len(node.body[0].targets) == 1 and \
                isinstance(node.body[0].targets[0], (ast.Tuple, ast.List)) and isinstance(node.body[0].value, ast.Name) and \
                node.body[0].value.id == node.target.id and len(node.body) > 1:
            item = node.target.id
            uses = sum(1 for st in node.body[1:] + node.orelse for x in ast.walk(st) if isinstance(x, ast.Name) and x.id == item)
            if uses == 0 and all(isinstance(e, ast.Name) for e in node.body[0].targets[0].elts):
                node.target = node.body[0].targets[0]
                node.body = node.body[1:]
        return node


class _InlineTemps(ast.NodeTransformer):
    """`t = E` directly followed by `return t` (or `x = t`), t bound once and read once in the function: -> `return E` (`x = E`).
    The temporary carries no information; with it gone `return f(x)` and `r = f(x); return r` are one form."""

    def visit_FunctionDef(self, fn):
        self.generic_visit(fn)
        loads, stores = {}, {}
        for n in ast.walk(fn):
            if isinstance(n, ast.Name):
                d = loads if isinstance(n.ctx, ast.Load) else stores
                d[n.id] = d.get(n.id, 0) + 1
        params = {a.arg for a in ast.walk(fn.args) if isinstance(a, ast.arg)}

        def rewrite(body):
            out, i = [], 0
            while i < len(body):
                a = body[i]
                b = body[i + 1] if i + 1 < len(body) else None
                if isinstance(a, ast.Assign) and len(a.targets) == 1 and isinstance(a.targets[0], ast.Name) and b is not None:
                    t = a.targets[0].id
                    use = b.value if isinstance(b, (ast.Return, ast.Assign)) else None
                    # (a bare call statement reads a method value / an argument tuple just as a return or an assignment does)
                    use_x = use if use is not None else (b.value if isinstance(b, ast.Expr) and isinstance(b.value, ast.Call) else None)
                    # `t = E` / `for x in t:` and `t = E` / `with t:` -- the iterable / context manager is the first thing evaluated
                    if isinstance(b, (ast.For, ast.AsyncFor)) and isinstance(b.iter, ast.Name) and b.iter.id == t and \
                            loads.get(t, 0) == 1 and stores.get(t, 0) == 1 and t not in params:
                        b.iter = a.value
                        out.append(b)
                        i += 2
                        continue
                    if isinstance(b, (ast.With, ast.AsyncWith)) and len(b.items) == 1 and isinstance(b.items[0].context_expr, ast.Name) and \
                            b.items[0].context_expr.id == t and loads.get(t, 0) == 1 and stores.get(t, 0) == 1 and t not in params:
                        b.items[0].context_expr = a.value
                        out.append(b)
                        i += 2
                        continue
                    # only plain copies: merging the temporary into a larger expression would put two calls into one statement and
                    # lose their order for the path rules (statement granularity)
                    if isinstance(use, ast.Name) and use.id == t and loads.get(t, 0) == 1 and stores.get(t, 0) == 1 and t not in params and \
                            not (isinstance(b, ast.Assign) and any(isinstance(x, ast.Name) and x.id == t for tg in b.targets for x in ast.walk(tg))):
                        b.value = a.value
                        out.append(b)
                        i += 2
                        continue
                    # the one call of the statement: `t = f(x)` / `return not t` (nothing else is called there, t is evaluated first)
                    if use is not None and not isinstance(use, ast.Name) and loads.get(t, 0) == 1 and stores.get(t, 0) == 1 and t not in params and \
                            not any(isinstance(x, (ast.Call, ast.Await, ast.Yield, ast.YieldFrom, ast.Lambda, ast.GeneratorExp, ast.ListComp, ast.SetComp,
                                                   ast.DictComp, ast.NamedExpr, ast.IfExp, ast.BoolOp)) for x in ast.walk(use)) and \
                            _first_evaluated(use, t) and \
                            not (isinstance(b, ast.Assign) and any(isinstance(x, ast.Name) and x.id == t for tg in b.targets for x in ast.walk(tg))):
                        _replace_name(b, t, a.value)
                        out.append(b)
                        i += 2
                        continue
                    # the positional arguments of the one call of the next statement, named first: `args = (a, b)` / `f(*args, k=v)`
                    if use_x is not None and isinstance(a.value, ast.Tuple) and not any(isinstance(e, ast.Starred) for e in a.value.elts) and \
                            loads.get(t, 0) == 1 and stores.get(t, 0) == 1 and t not in params and _first_evaluated(use_x, t) and \
                            not (isinstance(b, ast.Assign) and any(isinstance(x, ast.Name) and x.id == t for tg in b.targets for x in ast.walk(tg))):
                        star = [x for x in ast.walk(use_x) if isinstance(x, ast.Starred) and isinstance(x.value, ast.Name) and x.value.id == t]
                        if len(star) == 1:
                            call = [c for c in ast.walk(use_x) if isinstance(c, ast.Call) and star[0] in c.args]
                            if len(call) == 1:
                                i0 = call[0].args.index(star[0])
                                call[0].args[i0:i0 + 1] = list(a.value.elts)
                                out.append(b)
                                i += 2
                                continue
                    # the element handed to a plain accumulator: `item = E` / `acc.append(item)` -> `acc.append(E)` (what is left of a
                    # generator helper whose yields became appends)
                    if isinstance(b, ast.Expr) and isinstance(b.value, ast.Call) and isinstance(b.value.func, ast.Attribute) and \
                            b.value.func.attr in ('append', 'add') and isinstance(b.value.func.value, ast.Name) and b.value.func.value.id != t and \
                            len(b.value.args) == 1 and not b.value.keywords and isinstance(b.value.args[0], ast.Name) and b.value.args[0].id == t and \
                            loads.get(t, 0) == 1 and stores.get(t, 0) == 1 and t not in params and \
                            not any(isinstance(x, ast.Name) and x.id == b.value.func.value.id for x in ast.walk(a.value)):
                        b.value.args[0] = a.value
                        out.append(b)
                        i += 2
                        continue
                    # a method value of a computed receiver, called in the next statement: `m = f(x).meth` / `r = m(a)` is
                    # `m = f(x)` / `r = m.meth(a)` (the attribute is looked up before the arguments are evaluated either way)
                    if use_x is not None and isinstance(a.value, ast.Attribute) and not _calls_nothing(a.value) and isinstance(use_x, ast.Call) and \
                            isinstance(use_x.func, ast.Name) and use_x.func.id == t and loads.get(t, 0) == 1 and stores.get(t, 0) == 1 and t not in params and \
                            not (isinstance(b, ast.Assign) and any(isinstance(x, ast.Name) and x.id == t for tg in b.targets for x in ast.walk(tg))):
                        use_x.func = ast.copy_location(ast.Attribute(value=use_x.func, attr=a.value.attr, ctx=ast.Load()), use_x.func)
                        a.value = a.value.value
                        out.append(a)
                        out.append(b)
                        i += 2
                        continue
                    # a named condition that calls nothing, read as the first thing the next statement evaluates:
                    # `ok = x is not None` / `return ok and y` -> `return x is not None and y`
                    if use_x is not None and not isinstance(use_x, ast.Name) and loads.get(t, 0) == 1 and stores.get(t, 0) == 1 and t not in params and \
                            _calls_nothing(a.value) and _leftmost_is(use_x, t) and \
                            not (isinstance(b, ast.Assign) and any(isinstance(x, ast.Name) and x.id == t for tg in b.targets for x in ast.walk(tg))):
                        _replace_name(b, t, a.value)
                        _flatten_boolops(b)
                        out.append(b)
                        i += 2
                        continue
                out.append(a)
                i += 1
            return out

        def rec(node):
            for fld in ('body', 'orelse', 'finalbody'):
                blk = getattr(node, fld, None)
                if isinstance(blk, list) and blk and isinstance(blk[0], ast.stmt):
                    for st in blk:
                        if not isinstance(st, (ast.FunctionDef, ast.AsyncFunctionDef, ast.ClassDef)):
                            rec(st)
                    setattr(node, fld, rewrite(blk))
            for h in getattr(node, 'handlers', []) or []:
                rec(h)
        rec(fn)
        return fn

    visit_AsyncFunctionDef = visit_FunctionDef


def normalise_tree(tree, rel=None):
    """syntactic normal forms applied to every module at parse time"""
    if rel is not None:
        from .simplify import inline_new_constants
        tree = inline_new_constants(tree, rel)
    tree = _SplitWith().visit(tree)
    tree = _LowerIfExp().visit(tree)
    tree = _ForUnpackFold().visit(tree)
    tree = _LoopToComp().visit(tree)
    tree = _InlineTemps().visit(tree)
    from .simplify import simplify_tree
    tree = simplify_tree(tree)
    return ast.fix_missing_locations(tree)


class Module:
    def __init__(self, rel, src):
        self.rel, self.src = rel, src
        self.tree = ast.parse(src, filename=rel)
        self.tree = normalise_tree(self.tree, rel)
        # locals that were merely renamed get their reference names back (sa/localnames.py)
        from .localnames import restore_module
        self.renamed_locals = restore_module(rel, self.tree, src)
        self.tree._parent = None
        for node in ast.walk(self.tree):
            for child in ast.iter_child_nodes(node):
                if not isinstance(child, _SHARED_NODES):         # Load() / Add() ... are single objects shared by every tree
                    child._parent = node
        self.modname = rel[:-3].replace('/', '.')
        if self.modname.endswith('.__init__'):
            self.modname = self.modname[:-9]
        self.imports = {}    # local name -> ('mod', dotted) | ('obj', dotted module, name)
        self.constants = {}  # module-level NAME = <expr>
        for st in self._toplevel(self.tree.body):
            if isinstance(st, ast.Import):
                for a in st.names:
                    self.imports[a.asname or a.name.split('.')[0]] = ('mod', a.name if a.asname else a.name.split('.')[0])
            elif isinstance(st, ast.ImportFrom):
                base = st.module or ''
                if st.level:
                    pkg = self.modname.split('.')
                    if not rel.endswith('__init__.py'):
                        pkg = pkg[:-1]
                    pkg = pkg[:len(pkg) - (st.level - 1)]
                    base = '.'.join(pkg + ([st.module] if st.module else []))
                for a in st.names:
                    self.imports[a.asname or a.name] = ('obj', base, a.name)
            elif isinstance(st, ast.Assign):
                for t in st.targets:
                    if isinstance(t, ast.Name):
                        self.constants[t.id] = st.value
                    elif isinstance(t, ast.Tuple) and isinstance(st.value, ast.Tuple) and len(t.elts) == len(st.value.elts):
                        for tt, vv in zip(t.elts, st.value.elts):
                            if isinstance(tt, ast.Name):
                                self.constants[tt.id] = vv

    def with_tree(self, tree):
        """the same module with a transformed syntax tree (the original object is left untouched)"""
        import copy
        m = copy.copy(self)
        m.tree = tree
        return m

    def _toplevel(self, body):
        for st in body:
            yield st
            if isinstance(st, (ast.If, ast.Try)):
                for fld in ('body', 'orelse', 'finalbody'):
                    yield from self._toplevel(getattr(st, fld, []) or [])
                for h in getattr(st, 'handlers', []):
                    yield from self._toplevel(h.body)


class Fn:
    """A function with lazily built CFG and helper queries."""

    def __init__(self, repo, qn, mod, node, cls):
        self.repo, self.qn, self.mod, self.node, self.cls = repo, qn, mod, node, cls
        self.file = mod.rel
        self.name = node.name
        self._cfg = None
        node._fn = self           # back link for cfg.same(): closed forms of expressions of this function

    @property
    def short(self):
        return self.qn.split(':', 1)[1]

    @property
    def cfg(self):
        if self._cfg is None:
            from .cfg import CFG
            self._cfg = CFG(self.node)
        return self._cfg

    @property
    def canon(self):
        """closed forms of this function's expressions (flow.Canon), built once"""
        if getattr(self, '_canon', None) is None:
            from .flow import Canon
            self._canon = Canon(self)
        return self._canon

    def ctext(self, e, at=None):
        """closed-form text of expression e: locals replaced by the definition that reaches the use, no blanks"""
        return self.canon.text(e, at)

    @property
    def params(self):
        a = self.node.args
        return [x.arg for x in a.posonlyargs + a.args] + ([a.vararg.arg] if a.vararg else []) + \
            [x.arg for x in a.kwonlyargs] + ([a.kwarg.arg] if a.kwarg else [])

    def walk(self):
        """all nodes of this function, not descending into nested defs/classes"""
        stack = list(ast.iter_child_nodes(self.node))
        while stack:
            n = stack.pop()
            yield n
            if isinstance(n, (ast.FunctionDef, ast.AsyncFunctionDef, ast.ClassDef)):
                continue
            stack.extend(ast.iter_child_nodes(n))

    def walk_all(self):
        return ast.walk(self.node)

    def where(self, node=None):
        return '%s:%d %s' % (self.file, getattr(node, 'lineno', self.node.lineno), self.short)

    def __repr__(self):
        return '<Fn %s>' % self.qn


class Cls:
    def __init__(self, repo, qn, mod, node):
        self.repo, self.qn, self.mod, self.node = repo, qn, mod, node
        self.name = node.name
        self.file = mod.rel

    @property
    def base_qns(self):
        out = []
        for b in self.node.bases:
            q = self.repo.resolve_name(self.mod, b)
            if q and q in self.repo.classes:
                out.append(q)
        return out

    def mro(self):
        """linearisation by name (depth first, left to right, no duplicates)"""
        out, seen = [], set()

        def rec(c):
            if c.qn in seen:
                return
            seen.add(c.qn)
            out.append(c)
            for b in c.base_qns:
                rec(self.repo.classes[b])
        rec(self)
        return out

    def own_method(self, name):
        q = self.qn + '.' + name
        return self.repo.funcs.get(q)

    def method(self, name):
        """resolve through the MRO; None if not defined in the package"""
        for c in self.mro():
            f = c.own_method(name)
            if f:
                return f
        return None

    def attr_value(self, name):
        """class-body assignment NAME = value through the MRO"""
        for c in self.mro():
            for st in c.node.body:
                if isinstance(st, ast.Assign):
                    for t in st.targets:
                        if isinstance(t, ast.Name) and t.id == name:
                            return st.value
        return None

    def subclasses(self, strict=True):
        out = []
        for c in self.repo.classes.values():
            if c is self and strict:
                continue
            if any(m.qn == self.qn for m in c.mro()):
                out.append(c)
        return out

    def __repr__(self):
        return '<Cls %s>' % self.qn


class Repo:
    def __init__(self, root=None, overlay=None, base=None):
        self.root = root or DEFAULT_ROOT
        self.overlay = overlay or {}
        self.modules = {}
        self.templates = {}
        from . import simplify
        if base is not None:
            # re-use the parsed modules of `base` for every file that is not overlaid (self-test)
            self.mutable_attrs = simplify.Mutability().update(base.mutable_attrs).update(
                simplify.mutable_attrs_of(self.overlay[r] for r in self.overlay if r.endswith('.py')))
            simplify.MUTABLE_ATTRS = self.mutable_attrs
            for rel, m in base.modules.items():
                self.modules[rel] = Module(rel, self.overlay[rel]) if rel in self.overlay else m
            for rel, t in base.templates.items():
                self.templates[rel] = self.overlay.get(rel, t)
            self._normalise()
            self._noreturn()
            self.bymod = {m.modname: m for m in self.modules.values()}
            self.funcs, self.classes = {}, {}
            for rel, m in self.modules.items():
                self._index(m, m.tree, rel + ':', None)
            return
        base = os.path.join(self.root, 'mapproxy')
        if not os.path.isdir(base):
            raise AnchorMissing('no mapproxy package under %s' % self.root)
        files = []
        for dp, dn, fn in os.walk(base):
            relp = os.path.relpath(dp, self.root)
            if relp == 'mapproxy/test' or relp.startswith('mapproxy/test/'):
                dn[:] = []
                continue
            dn.sort()
            for f in sorted(fn):
                p = os.path.join(dp, f)
                rel = os.path.relpath(p, self.root)
                if f.endswith('.py') or ('/templates/' in rel and f.endswith(('.xml', '.html', '.kml'))):
                    files.append((rel, self._read(rel, p)))
        # which attributes are ever assigned outside of a constructor (needed by the alias normal form before the modules are built)
        self.mutable_attrs = simplify.mutable_attrs_of(src for rel, src in files if rel.endswith('.py'))
        simplify.MUTABLE_ATTRS = self.mutable_attrs
        for rel, src in files:
            if rel.endswith('.py'):
                self.modules[rel] = Module(rel, src)
            else:
                self.templates[rel] = src
        self._normalise()
        self._noreturn()
        self.bymod = {m.modname: m for m in self.modules.values()}
        self.funcs, self.classes = {}, {}
        for rel, m in self.modules.items():
            self._index(m, m.tree, rel + ':', None)

    def _noreturn(self):
        """names of functions that never return normally: no return/yield statement and every path ends in a raise; the name
        must not also be bound to a function that can return"""
        from . import cfg
        good, bad = set(), set()
        for m in self.modules.values():
            for n in ast.walk(m.tree):
                if isinstance(n, (ast.FunctionDef, ast.AsyncFunctionDef)):
                    body = [s for s in n.body if not (isinstance(s, ast.Expr) and isinstance(s.value, ast.Constant))]
                    nr = cfg.always_raises(body) and len(body) > 1 and not any(
                        isinstance(x, (ast.Return, ast.Yield, ast.YieldFrom)) for x in ast.walk(n))
                    (good if nr else bad).add(n.name)
        # abstract methods (`raise NotImplementedError` only) are excluded by len(body) > 1; overridden names by `bad`
        cfg.NORETURN.clear()
        cfg.NORETURN.update(good - bad)

    def _normalise(self):
        """inline the functions the rules do not know into their callers (sa/inline.py)"""
        from .inline import normalise, lower_lock_idiom, inline_super_calls
        srcs = {rel: m.src for rel, m in self.modules.items()}
        for rel, t in lower_lock_idiom({rel: m.tree for rel, m in self.modules.items()}, srcs).items():
            self.modules[rel] = self.modules[rel].with_tree(t)
            self.modules[rel].lock_idiom_lowered = True
        changed, self.inline_report = normalise({rel: m.tree for rel, m in self.modules.items()}, sources={rel: m.src for rel, m in self.modules.items()})
        for rel, t in changed.items():
            self.modules[rel] = self.modules[rel].with_tree(t)
        # closures that are new and called once: written out at their call
        from .inline import inline_local_closures
        from .localnames import reference_functions
        for rel, t in inline_local_closures({rel: m.tree for rel, m in self.modules.items()}, srcs, reference_functions()).items():
            self.modules[rel] = self.modules[rel].with_tree(t)
        # last (the helper inlining above starts again from the sources): delegations to the inherited implementation
        for rel, t in inline_super_calls({rel: m.tree for rel, m in self.modules.items()}).items():
            self.modules[rel] = self.modules[rel].with_tree(t)
            self.modules[rel].super_inlined = True

    def _read(self, rel, p):
        if rel in self.overlay:
            return self.overlay[rel]
        with open(p, encoding='utf-8') as fh:
            return fh.read()

    def _index(self, m, node, prefix, cls):
        for ch in ast.iter_child_nodes(node):
            if isinstance(ch, (ast.FunctionDef, ast.AsyncFunctionDef)):
                qn = prefix + ch.name
                if qn in self.funcs:   # platform branches define a name several times: qn, qn#2, qn#3 ...
                    k = 2
                    while '%s#%d' % (qn, k) in self.funcs:
                        k += 1
                    qn = '%s#%d' % (qn, k)
                self.funcs[qn] = Fn(self, qn, m, ch, cls)
                self._index(m, ch, qn + '.', None)
            elif isinstance(ch, ast.ClassDef):
                qn = prefix + ch.name
                c = Cls(self, qn, m, ch)
                self.classes.setdefault(qn, c)
                self._index(m, ch, qn + '.', c)
            elif isinstance(ch, (ast.If, ast.Try, ast.With, ast.For, ast.While, ast.ExceptHandler)):
                self._index(m, ch, prefix, cls)

    def with_inlined(self, fn, names):
        """the function with the calls of its own class's (inherited) methods `names` inlined -> Fn (not registered in the index)"""
        from .inline import inline_known
        callees = {}
        for nm in names:
            m = fn.cls.method(nm) if fn.cls is not None else self.funcs.get('%s:%s' % (fn.file, nm))
            if m is not None and m.node is not fn.node:
                callees[nm] = (m.node, m.cls.node if m.cls is not None else None)
        if not callees:
            return fn
        node, report = inline_known(fn.node, callees)
        new = Fn(self, fn.qn, fn.mod, node, fn.cls)
        new.inline_report = report
        return new

    def specialise(self, fn, bindings):
        """the function specialised for constant values of some expressions it reads (sa/special.py) -> Fn (not registered)"""
        from .special import specialise, module_tables
        if not hasattr(fn.mod, '_tables'):
            fn.mod._tables = module_tables(fn.mod.tree)
        node = specialise(fn.node, bindings, fn.mod._tables)
        node._parent = None
        for n in ast.walk(node):
            for ch in ast.iter_child_nodes(n):
                if not isinstance(ch, _SHARED_NODES):
                    ch._parent = n
        return Fn(self, fn.qn, fn.mod, node, fn.cls)

    # ---------------------------------------------------------------- lookup
    def fn(self, qn):
        f = self.funcs.get(qn)
        if f is None and ':' in qn and '#' not in qn:
            # a method that is inherited (moved into a base class / mixin) is the same anchor: resolved through the MRO
            rel, qual = qn.split(':', 1)
            if '.' in qual:
                cname, m = qual.rsplit('.', 1)
                c = self.classes.get('%s:%s' % (rel, cname))
                if c is not None:
                    f = c.method(m)
        if f is None:
            raise AnchorMissing('function %s' % qn)
        return f

    def cls(self, qn):
        c = self.classes.get(qn)
        if c is None:
            raise AnchorMissing('class %s' % qn)
        return c

    def mod(self, rel):
        m = self.modules.get(rel)
        if m is None:
            raise AnchorMissing('module %s' % rel)
        return m

    def template(self, rel):
        t = self.templates.get(rel)
        if t is None:
            raise AnchorMissing('template %s' % rel)
        return t

    def fns_in(self, prefix):
        return [f for q, f in self.funcs.items() if q.startswith(prefix)]

    def versions(self, qn):
        """all definitions of a multiply defined name"""
        out = [self.fn(qn)]
        k = 2
        while '%s#%d' % (qn, k) in self.funcs:
            out.append(self.funcs['%s#%d' % (qn, k)])
            k += 1
        return out

    def resolve_name(self, mod, node):
        """qualified name of the function/class a Name/Attribute expression
        denotes at module scope, or None."""
        if isinstance(node, ast.Name):
            n = node.id
            q = mod.rel + ':' + n
            if q in self.funcs or q in self.classes:
                return q
            imp = mod.imports.get(n)
            if imp and imp[0] == 'obj':
                tm = self.bymod.get(imp[1])
                if tm:
                    q = tm.rel + ':' + imp[2]
                    if q in self.funcs or q in self.classes:
                        return q
                    # re-exported name
                    imp2 = tm.imports.get(imp[2])
                    if imp2 and imp2[0] == 'obj' and imp2[1] in self.bymod:
                        q = self.bymod[imp2[1]].rel + ':' + imp2[2]
                        if q in self.funcs or q in self.classes:
                            return q
                # from pkg import module
                sub = self.bymod.get(imp[1] + '.' + imp[2])
                if sub:
                    return None
            return None
        if isinstance(node, ast.Attribute):
            # module.attr
            base = node.value
            if isinstance(base, ast.Name):
                imp = mod.imports.get(base.id)
                tm = None
                if imp and imp[0] == 'mod':
                    tm = self.bymod.get(imp[1])
                elif imp and imp[0] == 'obj':
                    tm = self.bymod.get(imp[1] + '.' + imp[2])
                if tm:
                    q = tm.rel + ':' + node.attr
                    if q in self.funcs or q in self.classes:
                        return q
                # Class.method
                cq = self.resolve_name(mod, base)
                if cq and cq in self.classes:
                    f = self.classes[cq].method(node.attr)
                    if f:
                        return f.qn
            return None
        return None

    def const_expr(self, mod, name):
        """expression bound to a module level constant (following imports)"""
        if name in mod.constants:
            return mod, mod.constants[name]
        imp = mod.imports.get(name)
        if imp and imp[0] == 'obj' and imp[1] in self.bymod:
            tm = self.bymod[imp[1]]
            if imp[2] in tm.constants:
                return tm, tm.constants[imp[2]]
        return None, None


# -------------------------------------------------------------------- tempita
_PLACE = re.compile(r'\{\{(.*?)\}\}', re.S)


def template_placeholders(text):
    """[(kind, expr, filter, pos, line)] kind in expr|directive|comment"""
    out = []
    for m in _PLACE.finditer(text):
        body = m.group(1).strip()
        line = text.count('\n', 0, m.start()) + 1
        if body.startswith('#'):
            out.append(('comment', body, None, m.start(), line))
            continue
        first = body.split(None, 1)[0] if body else ''
        if first in ('if', 'elif', 'else', 'endif', 'for', 'endfor', 'py:', 'default', 'def', 'enddef',
                     'inherit', 'continue', 'break') or first.startswith('py:'):
            out.append(('directive', body, None, m.start(), line))
            continue
        flt = None
        expr = body
        # tempita filter syntax  expr|filter
        if '|' in body:
            cand, f = body.rsplit('|', 1)
            if re.match(r'^\s*[A-Za-z_][A-Za-z0-9_\.]*\s*$', f) and not cand.rstrip().endswith('|'):
                expr, flt = cand.strip(), f.strip()
        out.append(('expr', expr, flt, m.start(), line))
    return out


def xml_context(text, pos):
    """(element, attribute or None) surrounding a placeholder position"""
    lt = text.rfind('<', 0, pos)
    gt = text.rfind('>', 0, pos)
    if lt > gt:
        # inside a tag -> attribute value
        tag = re.match(r'<\s*/?\s*([A-Za-z_:][\w:.\-]*)', text[lt:pos])
        attr = re.findall(r'([A-Za-z_:][\w:.\-]*)\s*=\s*["\'][^"\']*$', text[lt:pos])
        return (tag.group(1) if tag else None, attr[-1] if attr else None)
    # element content: nearest unclosed start tag before pos
    depth = 0
    for m in reversed(list(re.finditer(r'<\s*(/?)\s*([A-Za-z_:][\w:.\-]*)[^<>]*?(/?)>', text[:pos]))):
        if '{{' in m.group(0) and '}}' not in m.group(0):
            continue
        if m.group(3) == '/':
            continue
        if m.group(1) == '/':
            depth += 1
        else:
            if depth == 0:
                return (m.group(2), None)
            depth -= 1
    return (None, None)
