"""Inlining of functions the rules do not know.

The rules are anchored on the functions of the reference tree (sa/known_functions.txt).  A function that
is not in that list -- typically the product of an "extract method" refactoring -- cannot be named by any
rule, so its body is analysed where it is called: every call of such a function is replaced, in the
caller's syntax tree, by the callee's body (parameters substituted, locals renamed on collision, returns
turned into assignments of the call's target).  The transformation is purely syntactic and preserves the
caller's behaviour; when a call cannot be inlined (generator, return inside a loop, conditional evaluation
position, ambiguous name ...) it is left alone and the rules see an opaque call, as before.

A function all of whose references were inlined is dropped from the analysed tree (nothing calls it any
more); otherwise it stays and is analysed as a function of its own as well."""
import ast
import copy
import os

from .model import _copy_tree

HERE = os.path.dirname(os.path.abspath(__file__))
KNOWN_FILE = os.path.join(HERE, 'known_functions.txt')
MAX_DEPTH = 4


class CannotInline(Exception):
    pass


_KNOWN = {}


def _cache_known(fh):
    if 'v' not in _KNOWN:
        _KNOWN['v'] = {ln.strip() for ln in fh if ln.strip() and not ln.startswith('#')}
    return _KNOWN['v']


def load_known():
    with open(KNOWN_FILE) as fh:
        return _cache_known(fh)


def function_index(tree):
    """(qual, node, class node or None, container list) for top-level functions and methods (through if/try at both levels)"""
    out = []

    def rec(body, prefix, cls):
        for st in body:
            if isinstance(st, (ast.FunctionDef, ast.AsyncFunctionDef)):
                out.append((prefix + st.name, st, cls, body))
            elif isinstance(st, ast.ClassDef) and cls is None:
                rec(st.body, prefix + st.name + '.', st)
            elif isinstance(st, (ast.If, ast.Try)):
                for fld in ('body', 'orelse', 'finalbody'):
                    rec(getattr(st, fld, []) or [], prefix, cls)
                for h in getattr(st, 'handlers', []):
                    rec(h.body, prefix, cls)
    rec(tree.body, '', None)
    return out


def _own_nodes(fn):
    """nodes of a function, not descending into nested defs / classes / lambdas"""
    stack = list(fn.body)
    while stack:
        n = stack.pop()
        yield n
        if isinstance(n, (ast.FunctionDef, ast.AsyncFunctionDef, ast.ClassDef, ast.Lambda)):
            continue
        stack.extend(ast.iter_child_nodes(n))


def _has_return(st):
    if isinstance(st, ast.Return):
        return True
    if isinstance(st, (ast.FunctionDef, ast.AsyncFunctionDef, ast.ClassDef, ast.Lambda)):
        return False
    return any(_has_return(c) for c in ast.iter_child_nodes(st))


def _is_simple(e):
    if isinstance(e, ast.Constant):
        return True
    if isinstance(e, ast.Name):
        return True
    if isinstance(e, ast.Attribute):
        return _is_simple(e.value)
    return False


def _no_call(e):
    """an argument expression that only reads names, attributes, constants and operators"""
    return not any(isinstance(n, (ast.Call, ast.Await, ast.Yield, ast.YieldFrom, ast.NamedExpr, ast.Lambda, ast.ListComp, ast.SetComp,
                                  ast.DictComp, ast.GeneratorExp, ast.Starred)) for n in ast.walk(e))


def _names(e):
    return {n.id for n in ast.walk(e) if isinstance(n, ast.Name)}


def _negate(e):
    if isinstance(e, ast.UnaryOp) and isinstance(e.op, ast.Not):
        return e.operand
    if isinstance(e, ast.Compare) and len(e.ops) == 1:
        flip = {ast.Is: ast.IsNot, ast.IsNot: ast.Is, ast.Eq: ast.NotEq, ast.NotEq: ast.Eq, ast.In: ast.NotIn, ast.NotIn: ast.In}
        t = flip.get(type(e.ops[0]))
        if t is not None:
            return ast.copy_location(ast.Compare(left=e.left, ops=[t()], comparators=e.comparators), e)
    return ast.copy_location(ast.UnaryOp(op=ast.Not(), operand=e), e)


def _as_quantifier(body):
    """`for T in IT: [if F: continue]* if P: return <c>` + `return <not c>`  ->  [return all(...)] / [return any(...)], else None"""
    if len(body) != 2 or not isinstance(body[0], ast.For) or body[0].orelse or not isinstance(body[1], ast.Return):
        return None
    loop, end = body
    if not (isinstance(end.value, ast.Constant) and isinstance(end.value.value, bool)):
        return None
    filters = []
    stmts = list(loop.body)
    if not stmts:
        return None
    for st in stmts[:-1]:
        if isinstance(st, ast.If) and not st.orelse and len(st.body) == 1 and isinstance(st.body[0], ast.Continue):
            filters.append(_negate(st.test))
        else:
            return None
    last = stmts[-1]
    if not (isinstance(last, ast.If) and not last.orelse and len(last.body) == 1 and isinstance(last.body[0], ast.Return) and
            isinstance(last.body[0].value, ast.Constant) and last.body[0].value.value is (not end.value.value)):
        return None
    if end.value.value:      # return True at the end: all(not P)
        fn, elt = 'all', _negate(last.test)
    else:
        fn, elt = 'any', last.test
    gen = ast.GeneratorExp(elt=elt, generators=[ast.comprehension(target=loop.target, iter=loop.iter, ifs=filters, is_async=0)])
    call = ast.Call(func=ast.Name(id=fn, ctx=ast.Load()), args=[gen], keywords=[])
    ret = ast.copy_location(ast.Return(value=ast.copy_location(call, loop)), loop)
    ast.fix_missing_locations(ret)
    return [ret]


def _as_genexpr(body):
    """`for T in IT: [if F: continue]* [if P:] yield E`  ->  [return (E for T in IT if not F .. if P)], else None"""
    if len(body) != 1 or not isinstance(body[0], ast.For) or body[0].orelse:
        return None
    loop = body[0]
    filters = []
    stmts = list(loop.body)
    while stmts:
        st = stmts[0]
        if isinstance(st, ast.If) and not st.orelse and len(st.body) == 1 and isinstance(st.body[0], ast.Continue) and len(stmts) > 1:
            filters.append(_negate(st.test))
            stmts = stmts[1:]
        elif isinstance(st, ast.If) and not st.orelse and len(stmts) == 1:
            filters.append(st.test)
            stmts = list(st.body)
        else:
            break
    if len(stmts) != 1 or not (isinstance(stmts[0], ast.Expr) and isinstance(stmts[0].value, ast.Yield) and stmts[0].value.value is not None):
        return None
    if any(isinstance(n, (ast.Yield, ast.YieldFrom)) for f in filters for n in ast.walk(f)):
        return None
    gen = ast.GeneratorExp(elt=stmts[0].value.value, generators=[ast.comprehension(target=loop.target, iter=loop.iter, ifs=filters, is_async=0)])
    ret = ast.copy_location(ast.Return(value=ast.copy_location(gen, loop)), loop)
    ast.fix_missing_locations(ret)
    return [ret]


def _tree_to_expr(stmts):
    """boolean expression with the truth value of a pure decision tree (only `if` and `return <expr>`); None if it is not one.
    Only valid where the truth value alone matters (test positions)."""
    if not stmts:
        return ast.Constant(value=False)        # falls off the end: None
    st, rest = stmts[0], stmts[1:]
    if isinstance(st, ast.Return):
        return st.value if st.value is not None else ast.Constant(value=False)
    if isinstance(st, ast.Pass):
        return _tree_to_expr(rest)
    if isinstance(st, ast.If):
        a = _tree_to_expr(list(st.body) + rest)
        b = _tree_to_expr(list(st.orelse) + rest)
        if a is None or b is None:
            return None
        c = st.test

        def const(e):
            return e.value if isinstance(e, ast.Constant) and (isinstance(e.value, bool) or e.value is None) else 'x'
        ca, cb = const(a), const(b)
        if ca != 'x' and cb != 'x':
            if bool(ca) == bool(cb):
                return None                      # both branches constant and equal: the test is evaluated for its effect only
            return c if ca else _negate(c)
        if ca != 'x':
            return ast.BoolOp(op=ast.Or(), values=[c, b]) if ca else ast.BoolOp(op=ast.And(), values=[_negate(c), b])
        if cb != 'x':
            return ast.BoolOp(op=ast.Or(), values=[_negate(c), a]) if cb else ast.BoolOp(op=ast.And(), values=[c, a])
        return ast.BoolOp(op=ast.Or(), values=[ast.BoolOp(op=ast.And(), values=[c, a]),
                                               ast.BoolOp(op=ast.And(), values=[_negate(_copy_tree(c)), b])])
    return None


def _merge_leading_temps(body, params):
    """helper bodies only: `t = E` directly followed by the one statement that reads t, t being the first thing that statement
    evaluates  ->  the statement with E in place of t.  (`p = d.get(k, {}); return p.get('x') is True` becomes one expression and
    the helper can be inlined into a condition.)  Evaluation order is unchanged."""
    from .model import _first_evaluated, _replace_name, _copy_tree
    body = list(body)
    while len(body) >= 2:
        a, b = body[0], body[1]
        if not (isinstance(a, ast.Assign) and len(a.targets) == 1 and isinstance(a.targets[0], ast.Name)):
            break
        t = a.targets[0].id
        loads = sum(1 for s in body for n in ast.walk(s) if isinstance(n, ast.Name) and n.id == t and isinstance(n.ctx, ast.Load))
        stores = sum(1 for s in body for n in ast.walk(s) if isinstance(n, ast.Name) and n.id == t and isinstance(n.ctx, (ast.Store, ast.Del)))
        e = b.value if isinstance(b, (ast.Return, ast.Assign, ast.Expr)) else b.test if isinstance(b, ast.If) else None
        if _call_free(a.value) and stores == 1 and t not in params and loads >= 1:
            # a call-free value (arithmetic on parameters and attributes) may be written out at every use, wherever it is --
            # provided nothing it is made of is assigned in the helper
            rest = body[1:]
            made_of = {n.id for n in ast.walk(a.value) if isinstance(n, ast.Name)}
            assigned = {n.id for s_ in rest for n in ast.walk(s_) if isinstance(n, ast.Name) and isinstance(n.ctx, (ast.Store, ast.Del))}
            attr_assigned = any(isinstance(n, (ast.Attribute, ast.Subscript)) and isinstance(n.ctx, (ast.Store, ast.Del)) for s_ in rest for n in ast.walk(s_))
            scoped = any(isinstance(n, (ast.Lambda, ast.FunctionDef, ast.ListComp, ast.SetComp, ast.DictComp, ast.GeneratorExp)) and
                         any(isinstance(x, ast.Name) and x.id == t for x in ast.walk(n)) for s_ in rest for n in ast.walk(s_))
            has_attr = any(isinstance(n, (ast.Attribute, ast.Subscript)) for n in ast.walk(a.value))
            if not (made_of & assigned) and not (has_attr and attr_assigned) and not scoped:
                class W(ast.NodeTransformer):
                    def visit_Name(self, n):
                        if n.id == t and isinstance(n.ctx, ast.Load):
                            return _copy_tree(a.value)
                        return n
                body = [ast.fix_missing_locations(W().visit(_copy_tree(s_))) for s_ in rest]
                continue
        if t in params or loads != 1 or stores != 1:
            break
        if e is None or not _first_evaluated(e, t):
            run = _leading_run(body, params)
            if run is None:
                break
            k, names = run
            b2 = _copy_tree(body[k])
            holder = ast.Expr(value=b2.test if isinstance(b2, ast.If) else b2.value)
            for a_ in body[:k]:
                _replace_name(holder, a_.targets[0].id, _copy_tree(a_.value))
            if isinstance(b2, ast.If):
                b2.test = holder.value
            else:
                b2.value = holder.value
            ast.fix_missing_locations(b2)
            body = [b2] + body[k + 1:]
            continue
        b2 = _copy_tree(b)
        if isinstance(b2, ast.If):
            holder = ast.Expr(value=b2.test)
            _replace_name(holder, t, _copy_tree(a.value))
            b2.test = holder.value
        else:
            if isinstance(b2.value, ast.Name) and b2.value.id == t:
                b2.value = _copy_tree(a.value)
            else:
                _replace_name(b2.value, t, _copy_tree(a.value))
        ast.fix_missing_locations(b2)
        body = [b2] + body[2:]
    return body


class _FunctionValueToLambda(ast.NodeTransformer):
    def __init__(self, callees, report):
        self.callees, self.report = callees, report

    def visit_Call(self, node):
        if not (isinstance(node.func, ast.Name) and node.func.id in self.callees):
            node.func = self.visit(node.func)
        node.args = [self.visit(a) for a in node.args]
        for k in node.keywords:
            k.value = self.visit(k.value)
        return node

    def visit_FunctionDef(self, node):
        if node.name in self.callees:
            return node
        self.generic_visit(node)
        return node

    def visit_Name(self, node):
        c = self.callees.get(node.id)
        if c is None or not isinstance(node.ctx, ast.Load):
            return node
        a = c.node.args
        if a.defaults or a.kwonlyargs or a.vararg or a.kwarg or a.posonlyargs or not a.args:
            return node
        from .model import _copy_tree
        lam = ast.Lambda(args=_copy_tree(a), body=_copy_tree(c.body[0].value))
        for x in ast.walk(lam.args):
            if isinstance(x, ast.arg):
                x.annotation = None
        for x in ast.walk(lam):
            ast.copy_location(x, node)
        self.report.append(('inlined', c.qual, '-', 'function value written as the lambda it stands for'))
        return lam


def _leading_run(body, params):
    """`t1 = E1; ..; tk = Ek; S` with S reading t1..tk once each, in that order, before anything else it evaluates -> (k, names)"""
    from .model import _first_evaluated_seq
    temps = []
    for st in body:
        if isinstance(st, ast.Assign) and len(st.targets) == 1 and isinstance(st.targets[0], ast.Name) and st.targets[0].id not in params:
            temps.append(st)
        else:
            break
    for k in range(min(len(temps), len(body) - 1), 1, -1):
        names = [a.targets[0].id for a in temps[:k]]
        if len(set(names)) != k:
            continue
        S = body[k]
        e = S.value if isinstance(S, (ast.Return, ast.Assign, ast.Expr)) else S.test if isinstance(S, ast.If) else None
        if e is None:
            continue
        ok = True
        for nm in names:
            loads = [n for s_ in body for n in ast.walk(s_) if isinstance(n, ast.Name) and n.id == nm and isinstance(n.ctx, ast.Load)]
            stores = [n for s_ in body for n in ast.walk(s_) if isinstance(n, ast.Name) and n.id == nm and isinstance(n.ctx, (ast.Store, ast.Del))]
            if len(loads) != 1 or len(stores) != 1 or not any(n is loads[0] for n in ast.walk(e)):
                ok = False
                break
        if ok and _first_evaluated_seq(e, names):
            return k, names
    return None


def _call_free(e):
    """an expression that can be written out at every use: no calls, and nothing that creates a new mutable object (a list / dict /
    set display evaluated twice is two objects)"""
    return not any(isinstance(n, (ast.Call, ast.Await, ast.Yield, ast.YieldFrom, ast.NamedExpr, ast.Lambda, ast.ListComp, ast.SetComp,
                                  ast.DictComp, ast.GeneratorExp, ast.Starred, ast.List, ast.Dict, ast.Set, ast.JoinedStr)) for n in ast.walk(e))


class _Callee:
    def __init__(self, rel, qual, node, cls):
        self.rel, self.qual, self.node, self.cls = rel, qual, node, cls
        self.name = node.name
        decos = [ast.unparse(d) for d in node.decorator_list]
        self.static = decos == ['staticmethod']
        self.method = cls is not None and not self.static
        self.reason = None
        # a generator wrapped by contextlib.contextmanager: written out where it is used in a `with` statement
        self.ctxmgr = [d for d in decos if d != 'staticmethod'] in (['contextlib.contextmanager'], ['contextmanager'])
        a = node.args
        if self.ctxmgr:
            self.reason = 'context manager'
        elif [d for d in decos if d != 'staticmethod']:
            self.reason = 'decorated'
        elif isinstance(node, ast.AsyncFunctionDef):
            self.reason = 'async'
        elif a.vararg or a.posonlyargs:
            self.reason = 'variadic signature'
        elif self.name.startswith('__') and self.name.endswith('__'):
            self.reason = 'special method'
        else:
            for n in _own_nodes(node):
                if isinstance(n, (ast.Yield, ast.YieldFrom, ast.Await)):
                    self.reason = self.reason or 'generator'
                elif isinstance(n, (ast.Global, ast.Nonlocal)):
                    self.reason = 'global/nonlocal'
                elif isinstance(n, (ast.AsyncFunctionDef, ast.ClassDef)):
                    self.reason = 'nested class / async definition'
                elif isinstance(n, ast.Call) and isinstance(n.func, ast.Name) and n.func.id in ('locals', 'vars', 'super'):
                    self.reason = 'locals()/super()'
        self.kwarg = a.kwarg.arg if a.kwarg else None
        if self.kwarg and not self.reason:
            # **kw is supported when it is only passed on as **kw
            splats = {id(k.value) for n in ast.walk(node) if isinstance(n, ast.Call) for k in n.keywords if k.arg is None}
            for n in ast.walk(node):
                if isinstance(n, ast.Name) and n.id == self.kwarg and id(n) not in splats:
                    self.reason = '**%s is used other than as **%s' % (self.kwarg, self.kwarg)
        self.params = [x.arg for x in a.args] + [x.arg for x in a.kwonlyargs]
        body = list(node.body)
        if body and isinstance(body[0], ast.Expr) and isinstance(body[0].value, ast.Constant) and isinstance(body[0].value.value, str):
            body = body[1:]
        body = _merge_leading_temps(body, set(x.arg for x in a.args + a.kwonlyargs))
        self.is_generator = self.reason == 'generator'
        if self.is_generator:
            ge = _as_genexpr(body)
            if ge is not None:
                # a generator that is one filtered loop around one yield: the generator expression it stands for
                body = ge
                self.reason = None
                self.is_generator = False
        q = _as_quantifier(body)
        self.quantified = q is not None
        if q is not None:
            body = q
        self.body = body
        wrap = ast.Module(body=body, type_ignores=[])
        self.stores = {n.id for n in _own_nodes(wrap) if isinstance(n, ast.Name) and isinstance(n.ctx, (ast.Store, ast.Del))
                       and not self._comp_bound(wrap, n)}
        for n in _own_nodes(wrap):
            if isinstance(n, ast.ExceptHandler) and n.name:
                self.stores.add(n.name)
            elif isinstance(n, ast.FunctionDef):
                self.stores.add(n.name)         # a closure defined in the helper is one of its locals
        self.attr_stores = {n.attr for n in _own_nodes(node) if isinstance(n, ast.Attribute) and isinstance(n.ctx, (ast.Store, ast.Del))}
        if any(isinstance(n, ast.Subscript) and isinstance(n.ctx, (ast.Store, ast.Del)) for n in _own_nodes(node)):
            self.attr_stores.add('<subscript>')
        # names bound by comprehensions / lambdas inside the body (own scopes)
        self.scoped = set()
        for n in ast.walk(wrap):
            if isinstance(n, ast.comprehension):
                self.scoped |= {x.id for x in ast.walk(n.target) if isinstance(x, ast.Name)}
            elif isinstance(n, ast.Lambda):
                self.scoped |= {x.arg for x in n.args.args + n.args.kwonlyargs}
            elif isinstance(n, ast.FunctionDef) and n is not node:
                # names bound inside a closure shadow the helper's names there
                self.scoped |= {x.arg for x in ast.walk(n.args) if isinstance(x, ast.arg)}
                self.scoped |= {x.id for x in ast.walk(n) if isinstance(x, ast.Name) and isinstance(x.ctx, ast.Store)}
        self.pure_expr = len(body) == 1 and isinstance(body[0], ast.Return) and body[0].value is not None
        # pure decision tree: usable as an expression where only the truth value counts (the duplicated test of the general
        # if/else form must be free of calls: it would be evaluated twice)
        self.truth_expr = None
        if not self.pure_expr and not self.stores:
            t = _tree_to_expr(list(body))
            if t is not None:
                dup = [n for n in ast.walk(t) if isinstance(n, ast.BoolOp) and isinstance(n.op, ast.Or) and len(n.values) == 2 and
                       all(isinstance(v, ast.BoolOp) and isinstance(v.op, ast.And) for v in n.values)]
                if not any(isinstance(x, ast.Call) for d in dup for x in ast.walk(d.values[0].values[0])):
                    self.truth_expr = t

    @staticmethod
    def _comp_bound(wrap, name):
        """is this Store name the target of a comprehension (own scope)?"""
        for c in ast.walk(wrap):
            if isinstance(c, ast.comprehension) and any(x is name for x in ast.walk(c.target)):
                return True
        return False

    def bind(self, call):
        """param -> argument expression"""
        a = self.node.args
        if any(isinstance(x, ast.Starred) for x in call.args) or any(k.arg is None for k in call.keywords):
            raise CannotInline('star arguments')
        pos = [x.arg for x in a.args]
        binding = {}
        if self.method:
            if not isinstance(call.func, ast.Attribute):
                raise CannotInline('method called without receiver')
            binding[pos[0]] = call.func.value
            pos = pos[1:]
        if len(call.args) > len(pos):
            raise CannotInline('too many arguments')
        for p, v in zip(pos, call.args):
            binding[p] = v
        extra = []
        for k in call.keywords:
            if k.arg in binding:
                raise CannotInline('bad keyword %s' % k.arg)
            if k.arg not in self.params:
                if self.kwarg is None:
                    raise CannotInline('bad keyword %s' % k.arg)
                extra.append(k)
                continue
            binding[k.arg] = k.value
        self.extra_keywords = extra
        defaults = dict(zip([x.arg for x in a.args][len(a.args) - len(a.defaults):], a.defaults))
        defaults.update({x.arg: d for x, d in zip(a.kwonlyargs, a.kw_defaults) if d is not None})
        for p in self.params:
            if p not in binding:
                if p not in defaults:
                    raise CannotInline('missing argument %s' % p)
                binding[p] = defaults[p]
        return binding


class _Subst(ast.NodeTransformer):
    def __init__(self, expr_map, rename, kwarg=None, extra=()):
        self.expr_map, self.rename, self.kwarg, self.extra = expr_map, rename, kwarg, extra

    def visit_Call(self, node):
        self.generic_visit(node)
        if self.kwarg is not None:
            kws = []
            for k in node.keywords:
                if k.arg is None and isinstance(k.value, ast.Name) and k.value.id == self.kwarg:
                    kws.extend(_copy_tree(x) for x in self.extra)
                else:
                    kws.append(k)
            node.keywords = kws
        return node

    def visit_Name(self, node):
        if node.id in self.expr_map and isinstance(node.ctx, ast.Load):
            return ast.copy_location(_copy_tree(self.expr_map[node.id]), node)
        if node.id in self.rename:
            return ast.copy_location(ast.Name(id=self.rename[node.id], ctx=node.ctx), node)
        return node

    def visit_ExceptHandler(self, node):
        self.generic_visit(node)
        if node.name in self.rename:
            node.name = self.rename[node.name]
        return node

    def visit_FunctionDef(self, node):
        # closure: its own parameters and locals shadow the outer names
        bound = {x.arg for x in ast.walk(node.args) if isinstance(x, ast.arg)} | \
            {x.id for x in ast.walk(node) if isinstance(x, ast.Name) and isinstance(x.ctx, ast.Store)}
        inner = _Subst({k: v for k, v in self.expr_map.items() if k not in bound}, {k: v for k, v in self.rename.items() if k not in bound},
                       self.kwarg, self.extra)
        node.body = [inner.visit(s) for s in node.body]
        node.args.defaults = [self.visit(d) for d in node.args.defaults]
        if node.name in self.rename:
            node.name = self.rename[node.name]
        return node


def _eliminate_returns(stmts, mk):
    """structured return elimination: -> (statements, may fall off the end)"""
    out = []
    for i, st in enumerate(stmts):
        rest = stmts[i + 1:]
        if isinstance(st, ast.Return):
            out.extend(mk(st.value, st))
            return out, False
        if not _has_return(st):
            out.append(st)
            if isinstance(st, ast.Raise):
                return out, False
            continue
        if isinstance(st, ast.If):
            b, fb = _eliminate_returns(list(st.body) + _copy_tree(rest), mk)
            o, fo = _eliminate_returns(list(st.orelse) + _copy_tree(rest), mk)
            new = ast.copy_location(ast.If(test=st.test, body=b or [ast.copy_location(ast.Pass(), st)], orelse=o), st)
            out.append(new)
            return out, fb or fo
        if isinstance(st, (ast.With,)):
            b, fb = _eliminate_returns(list(st.body), mk)
            if fb and rest:
                raise CannotInline('return inside a with block that is followed by more statements')
            out.append(ast.copy_location(ast.With(items=st.items, body=b), st))
            return out, fb
        if isinstance(st, ast.Try):
            if any(_has_return(x) for x in st.finalbody):
                raise CannotInline('return in finally')
            if st.finalbody and rest:
                raise CannotInline('return inside try/finally that is followed by more statements')
            # the statements after the try run when the body completes (-> else clause: not covered by the handlers, as before)
            # or when a handler completes (-> end of that handler)
            body_returns = any(_has_return(x) for x in st.body)
            b, fb = _eliminate_returns(list(st.body), mk)
            if body_returns and fb and (rest or st.orelse):
                # some paths through the body return, others complete: the else clause would also run after a "return"
                raise CannotInline('try body that both returns and completes, followed by more statements')
            if st.orelse:
                o, fo = _eliminate_returns(list(st.orelse) + _copy_tree(rest), mk)
            elif fb and rest:
                o, fo = _eliminate_returns(_copy_tree(rest), mk)
            else:
                o, fo = [], fb
            hs, fh = [], False
            for h in st.handlers:
                hb, f = _eliminate_returns(list(h.body) + _copy_tree(rest), mk)
                fh = fh or f
                hs.append(ast.copy_location(ast.ExceptHandler(type=h.type, name=h.name, body=hb or [ast.copy_location(ast.Pass(), h)]), h))
            out.append(ast.copy_location(ast.Try(body=b or [ast.copy_location(ast.Pass(), st)], handlers=hs, orelse=o, finalbody=st.finalbody), st))
            return out, fo or fh
        if isinstance(st, (ast.For, ast.While)) and not st.orelse:
            # search loop: `for ..: .. return V ..` + rest  ->  `for ..: .. RET = V; break ..` + `else: rest`
            body = _loop_returns(list(st.body), mk)
            r, fr = _eliminate_returns(_copy_tree(rest), mk)
            new = copy.copy(st)
            new.body = body
            new.orelse = r
            out.append(new)
            return out, fr
        raise CannotInline('return inside %s' % type(st).__name__)
    return out, True


def _loop_returns(stmts, mk):
    """replace the returns of a loop body by `<assign result>; break`; refuses loops that already break or nest loops with returns"""
    out = []
    for st in stmts:
        if isinstance(st, ast.Return):
            out.extend(mk(st.value, st))
            out.append(ast.copy_location(ast.Break(), st))
            return out
        if isinstance(st, ast.Break):
            raise CannotInline('loop with both break and return')
        if isinstance(st, (ast.For, ast.While, ast.AsyncFor)):
            if _has_return(st):
                raise CannotInline('return inside a nested loop')
            out.append(st)
            continue
        if not _has_return(st) and not any(isinstance(n, ast.Break) for n in ast.walk(st)):
            out.append(st)
            continue
        new = copy.copy(st)
        if isinstance(st, ast.If):
            new.body = _loop_returns(list(st.body), mk)
            new.orelse = _loop_returns(list(st.orelse), mk)
        elif isinstance(st, ast.With):
            new.body = _loop_returns(list(st.body), mk)
        elif isinstance(st, ast.Try):
            if any(_has_return(x) for x in st.finalbody):
                raise CannotInline('return in finally')
            new.body = _loop_returns(list(st.body), mk)
            new.orelse = _loop_returns(list(st.orelse), mk)
            new.handlers = []
            for h in st.handlers:
                h2 = copy.copy(h)
                h2.body = _loop_returns(list(h.body), mk)
                new.handlers.append(h2)
        else:
            raise CannotInline('return inside %s' % type(st).__name__)
        out.append(new)
    return out


class Inliner:
    def __init__(self, callees, report, classes=None):
        self.callees = callees      # simple name (unique in the repository) or 'Class.name' -> _Callee
        self.report = report
        self.counter = 0
        self.classes = classes or {}
        self.cur_class = None

    # -------------------------------------------------------------- per caller
    def inline_function(self, g, depth=0):
        """rewrite the body of function node g in place; -> number of calls inlined"""
        g._inl_done = True
        self.g = g
        self.gnames = {n.id for n in ast.walk(g) if isinstance(n, ast.Name)} | {a.arg for a in ast.walk(g) if isinstance(a, ast.arg)}
        n0 = self.counter
        g.body = self.block(g.body, depth)
        return self.counter - n0

    def block(self, stmts, depth):
        out = []
        for st in stmts:
            out.extend(self.stmt(st, depth))
        return out

    def stmt(self, st, depth):
        if isinstance(st, (ast.FunctionDef, ast.AsyncFunctionDef, ast.ClassDef)):
            return [st]
        # nested blocks first
        for fld in ('body', 'orelse', 'finalbody'):
            b = getattr(st, fld, None)
            if isinstance(b, list) and b and isinstance(b[0], ast.stmt):
                setattr(st, fld, self.block(b, depth))
        for h in getattr(st, 'handlers', []) or []:
            h.body = self.block(h.body, depth)
        if isinstance(st, ast.Match) if hasattr(ast, 'Match') else False:
            for c in st.cases:
                c.body = self.block(c.body, depth)
        if depth >= MAX_DEPTH:
            return [st]
        if isinstance(st, ast.For) and isinstance(st.iter, ast.Call) and not getattr(st.iter, '_no_inline', False):
            nm = self.call_name(st.iter)
            callee = self.callees.get(nm) if nm else None
            if callee is not None and getattr(callee, 'is_generator', False):
                try:
                    new = self.inline_generator_loop(st, callee, depth)
                    self.counter += 1
                    self.report.append(('inlined', callee.qual, getattr(self.g, 'name', '?'), 'generator loop'))
                    for new_st in new:
                        for n_ in ast.walk(new_st):
                            n_._inl = True
                    return self.block(new, depth + 1)
                except CannotInline as e:
                    self.report.append(('left', callee.qual, getattr(self.g, 'name', '?'), str(e)))
                    st.iter._no_inline = True
        if isinstance(st, ast.With) and len(st.items) == 1 and isinstance(st.items[0].context_expr, ast.Call) and \
                not getattr(st.items[0].context_expr, '_no_inline', False):
            nm = self.call_name(st.items[0].context_expr)
            callee = self.callees.get(nm) if nm else None
            if callee is not None and getattr(callee, 'ctxmgr', False):
                try:
                    new = self.inline_context_manager(st, callee, depth)
                    self.counter += 1
                    self.report.append(('inlined', callee.qual, getattr(self.g, 'name', '?'), 'context manager'))
                    for new_st in new:
                        for n_ in ast.walk(new_st):
                            n_._inl = True
                    return self.block(new, depth + 1)
                except CannotInline as e:
                    self.report.append(('left', callee.qual, getattr(self.g, 'name', '?'), str(e)))
                    st.items[0].context_expr._no_inline = True
        pre = []
        for _ in range(8):
            call, cond = self.find_call(st)
            if call is None:
                break
            callee = self.callees[self.call_name(call)]
            try:
                res = self.inline_call(st, call, cond, callee, depth)
            except CannotInline as e:
                self.report.append(('left', callee.qual, getattr(self.g, 'name', '?'), str(e)))
                call._no_inline = True
                continue
            self.counter += 1
            self.report.append(('inlined', callee.qual, getattr(self.g, 'name', '?'), ''))
            for new_st in res[1]:
                if new_st is not st:
                    for n_ in ast.walk(new_st):
                        n_._inl = True      # spliced in from the helper: re-anchored at the call site by renumber_inlined
            if res[0] == 'replace':
                return pre + res[1]
            pre.extend(res[1])          # hoisted; the statement itself was edited in place
        return pre + [st]

    def call_name(self, call):
        f = call.func
        if isinstance(f, ast.Name):
            return f.id
        if isinstance(f, ast.Attribute):
            if f.attr in self.callees:
                return f.attr
            if isinstance(f.value, ast.Name) and f.value.id == 'self' and self.cur_class:
                # dynamic dispatch on self: the first definition in the hierarchy, unless a subclass overrides it
                owner = method_owner(self.classes, self.cur_class, f.attr)
                key = '%s.%s' % (owner, f.attr) if owner else None
                if key in self.callees and not overridden_below(self.classes, self.cur_class, f.attr):
                    return key
            return f.attr
        return None

    def header_exprs(self, st):
        if isinstance(st, (ast.Assign, ast.AugAssign, ast.AnnAssign, ast.Return, ast.Expr)):
            return [st.value] if st.value is not None else []
        if isinstance(st, (ast.If,)):
            return [st.test]
        if isinstance(st, ast.While):
            return [('cond', st.test)]
        if isinstance(st, ast.For):
            return [st.iter]
        if isinstance(st, ast.With):
            return [i.context_expr for i in st.items]
        if isinstance(st, ast.Raise):
            return [x for x in (st.exc,) if x is not None]
        if isinstance(st, ast.Assert):
            return [st.test]
        return []

    def find_call(self, st):
        """first call of an inlinable function in the statement's own expressions -> (call, conditional position?)"""
        found = []

        def rec(e, cond, truth=False):
            if isinstance(e, ast.Call):
                rec(e.func, cond)
                for a in e.args:
                    rec(a, cond)
                for k in e.keywords:
                    rec(k.value, cond)
                nm = self.call_name(e)
                if nm in self.callees and not getattr(e, '_no_inline', False) and self.refers(e):
                    e._truth_ctx = truth
                    found.append((e, cond))
                return
            if isinstance(e, ast.BoolOp):
                rec(e.values[0], cond, truth)
                for v in e.values[1:]:
                    rec(v, True, truth)
                return
            if isinstance(e, ast.UnaryOp) and isinstance(e.op, ast.Not):
                rec(e.operand, cond, truth)
                return
            if isinstance(e, ast.IfExp):
                rec(e.test, cond)
                rec(e.body, True)
                rec(e.orelse, True)
                return
            if isinstance(e, (ast.Lambda, ast.ListComp, ast.SetComp, ast.DictComp, ast.GeneratorExp)):
                for c in ast.iter_child_nodes(e):
                    rec(c, True)
                return
            for c in ast.iter_child_nodes(e):
                if isinstance(c, ast.expr):
                    rec(c, cond)
                elif isinstance(c, (ast.keyword, ast.comprehension)):
                    for cc in ast.iter_child_nodes(c):
                        rec(cc, cond)
        is_test = isinstance(st, (ast.If, ast.While, ast.Assert))
        for h in self.header_exprs(st):
            if isinstance(h, tuple):
                rec(h[1], True, is_test)
            else:
                rec(h, False, is_test)
        return found[0] if found else (None, None)

    def refers(self, call):
        """does this call denote the callee?  (name unique in the repository; not shadowed by a local of the caller)"""
        callee = self.callees[self.call_name(call)]
        f = call.func
        if isinstance(f, ast.Name):
            if callee.method:
                return False
            return f.id not in {n.id for n in ast.walk(self.g) if isinstance(n, ast.Name) and isinstance(n.ctx, ast.Store)} and \
                f.id not in {a.arg for a in ast.walk(self.g) if isinstance(a, ast.arg)}
        return True

    # -------------------------------------------------------------- one call
    def fresh(self, base):
        name = base
        k = 2
        while name in self.gnames:
            name = '%s_%d' % (base, k)
            k += 1
        self.gnames.add(name)
        return name

    def unify_targets(self, callee, binding, targets):
        """callee locals that are returned in the position of a target name take that name (no copy at the end): {local: target}"""
        if not targets:
            return {}
        rets = [n for n in _own_nodes(ast.Module(body=callee.body, type_ignores=[])) if isinstance(n, ast.Return)]
        if not rets:
            return {}
        argnames = set()
        for v in binding.values():
            argnames |= _names(v)
        m = {}
        for r in rets:
            v = r.value
            elts = [v] if len(targets) == 1 and isinstance(v, ast.Name) else v.elts if isinstance(v, ast.Tuple) else None
            if elts is None or len(elts) != len(targets) or not all(isinstance(e, ast.Name) for e in elts):
                return {}
            for e, t in zip(elts, targets):
                if m.get(e.id, t) != t:
                    return {}
                m[e.id] = t
        locals_ = callee.stores - set(callee.params)
        # an in-out parameter: the caller passes variable A for parameter p and receives p back into A (`q, r = helper(q)`)
        inout = {p for p in m if p in callee.params and isinstance(binding.get(p), ast.Name) and binding[p].id == m[p] and
                 sum(1 for v in binding.values() if m[p] in _names(v)) == 1}
        if len(set(m.values())) != len(m) or not set(m) <= (locals_ | inout):
            return {}
        others = (locals_ | set(callee.params)) - set(m)
        argnames_other = set()
        for q, v in binding.items():
            if q not in inout:
                argnames_other |= _names(v)
        if set(m.values()) & (argnames_other | others):
            return {}
        return m

    def _dead_after(self, name, binding):
        """is the caller's variable `name` never read from the call site on (in document order; anywhere in an enclosing loop counts as
        "after")?  Then a helper local of the same name can share it: the old value is not needed any more."""
        st = getattr(self, '_site', None)
        g = getattr(self, 'g', None)
        if st is None or g is None:
            return False
        if any(name in _names(v) for v in binding.values()):
            return False            # passed to the helper: still needed
        params = {a.arg for a in ast.walk(g.args) if isinstance(a, ast.arg)}
        if name in params:
            return False
        state = {'seen': False, 'live': False, 'found': False}
        loops = []

        def rec(n, in_loops):
            if state['live']:
                return
            if n is st:
                state['found'] = True
                # the helper's statements are placed before the call statement: a read anywhere in that statement sees what they
                # assigned (`return (x, helper(a))`); reads in enclosing loops are "after" as well
                hdr = [c for f, c in ast.iter_fields(st) if f not in ('body', 'orelse', 'finalbody', 'handlers')]
                for c in hdr:
                    for c1 in (c if isinstance(c, list) else [c]):
                        if isinstance(c1, ast.AST) and any(isinstance(x, ast.Name) and x.id == name and isinstance(x.ctx, ast.Load) for x in ast.walk(c1)):
                            state['live'] = True
                for lp in in_loops:
                    for x in ast.walk(lp):
                        if isinstance(x, ast.Name) and x.id == name and isinstance(x.ctx, ast.Load) and not _inside_node(x, st):
                            state['live'] = True
                state['seen'] = True
                return
            if isinstance(n, ast.Name):
                if state['seen'] and n.id == name and isinstance(n.ctx, ast.Load):
                    state['live'] = True
                return
            if isinstance(n, (ast.FunctionDef, ast.AsyncFunctionDef, ast.Lambda)) and n is not g:
                if any(isinstance(x, ast.Name) and x.id == name for x in ast.walk(n)):
                    state['live'] = True        # captured by a nested function: do not reason about it
                return
            nxt = in_loops + [n] if isinstance(n, (ast.For, ast.While, ast.AsyncFor)) else in_loops
            for c in ast.iter_child_nodes(n):
                rec(c, nxt)
        rec(g, [])
        return state['found'] and not state['live']

    def inline_generator_loop(self, st, callee, depth):
        """`for T in gen(args): BODY` with a generator helper whose yields are plain statements: the helper's body with every
        `yield E` replaced by `T = E; BODY`"""
        if st.orelse or _has_break_own(st.body):
            raise CannotInline('generator consumed by a loop with break / else')
        # `continue` in the consuming loop resumes the generator behind the yield: that is the `continue` of the generator's own loop
        # when every yield is the last thing an iteration of that loop does
        if _has_loop_jump_own(st.body) and not _yields_in_loop_tail(callee.body, False):
            raise CannotInline('generator consumed by a loop with continue, and a yield that is not the last action of an iteration')
        wrap = ast.Module(body=callee.body, type_ignores=[])
        ys = [n for n in _own_nodes(wrap) if isinstance(n, (ast.Yield, ast.YieldFrom))]
        yst = [n for n in _own_nodes(wrap) if isinstance(n, ast.Expr) and isinstance(n.value, ast.Yield) and n.value.value is not None]
        if len(ys) != len(yst) or not ys or len(ys) > 3 or any(isinstance(n, ast.YieldFrom) for n in ys):
            raise CannotInline('generator with yields that are not plain statements')
        if any(isinstance(n, ast.Return) for n in _own_nodes(wrap)):
            raise CannotInline('generator with return')
        saved = callee.reason
        callee.reason = None
        try:
            self._site = st
            prelude, body = self.instantiate(callee, st.iter, depth, None)
        finally:
            callee.reason = saved

        def rec(stmts):
            out = []
            for s_ in stmts:
                if isinstance(s_, ast.Expr) and isinstance(s_.value, ast.Yield):
                    out.append(ast.copy_location(ast.Assign(targets=[_copy_tree(st.target)], value=s_.value.value, type_comment=None), st))
                    out.extend(_copy_tree(b) for b in st.body)
                    continue
                for fld in ('body', 'orelse', 'finalbody'):
                    blk = getattr(s_, fld, None)
                    if isinstance(blk, list) and blk and isinstance(blk[0], ast.stmt) and not isinstance(s_, (ast.FunctionDef, ast.AsyncFunctionDef, ast.ClassDef)):
                        setattr(s_, fld, rec(blk))
                for h in getattr(s_, 'handlers', []) or []:
                    h.body = rec(h.body)
                out.append(s_)
            return out
        return self.fix(prelude + rec(body))

    def inline_context_manager(self, st, callee, depth):
        """`with helper(args) as T: BODY` with a @contextmanager generator that yields once, outside of any loop or try statement:
        the helper's body with `yield E` replaced by `T = E; BODY` (the blocks around the yield are entered before BODY and left after
        it, also when BODY raises -- as the generator based manager does)"""
        wrap = ast.Module(body=callee.body, type_ignores=[])
        ys = [n for n in _own_nodes(wrap) if isinstance(n, (ast.Yield, ast.YieldFrom))]
        yst = [n for n in _own_nodes(wrap) if isinstance(n, ast.Expr) and isinstance(n.value, ast.Yield)]
        if len(ys) != 1 or len(yst) != 1:
            raise CannotInline('context manager that does not yield exactly once as a statement')
        if any(isinstance(n, ast.Return) for n in _own_nodes(wrap)):
            raise CannotInline('context manager with return')

        def guarded(stmts):
            # is the yield inside a loop / try of the helper?
            for s_ in stmts:
                if isinstance(s_, (ast.For, ast.While, ast.Try)) and any(x is yst[0] for x in ast.walk(s_)):
                    return True
                for fld in ('body', 'orelse'):
                    blk = getattr(s_, fld, None)
                    if isinstance(blk, list) and blk and isinstance(blk[0], ast.stmt) and not isinstance(s_, (ast.FunctionDef, ast.ClassDef)) and guarded(blk):
                        return True
            return False
        if guarded(callee.body):
            raise CannotInline('context manager that yields inside a loop or a try statement')
        if _has_return(ast.Module(body=st.body, type_ignores=[])) and False:
            pass
        saved = callee.reason
        callee.reason = None
        try:
            self._site = st
            prelude, body = self.instantiate(callee, st.items[0].context_expr, depth, None)
        finally:
            callee.reason = saved
        tgt = st.items[0].optional_vars

        def rec(stmts):
            out = []
            for s_ in stmts:
                if isinstance(s_, ast.Expr) and isinstance(s_.value, ast.Yield):
                    if tgt is not None:
                        val = s_.value.value if s_.value.value is not None else ast.Constant(value=None)
                        out.append(ast.copy_location(ast.Assign(targets=[_copy_tree(tgt)], value=val, type_comment=None), st))
                    out.extend(st.body)
                    continue
                for fld in ('body', 'orelse', 'finalbody'):
                    blk = getattr(s_, fld, None)
                    if isinstance(blk, list) and blk and isinstance(blk[0], ast.stmt) and not isinstance(s_, (ast.FunctionDef, ast.AsyncFunctionDef, ast.ClassDef)):
                        setattr(s_, fld, rec(blk))
                out.append(s_)
            return out
        return self.fix(prelude + rec(body))

    def instantiate(self, callee, call, depth, targets=None):
        """-> (prelude statements, body statements with names substituted)"""
        binding = callee.bind(call)
        body = _copy_tree(callee.body)
        rename, expr_map, prelude = {}, {}, []
        unify = self.unify_targets(callee, binding, targets)
        for v in sorted(callee.stores - set(callee.params)):
            if v in unify:
                if unify[v] != v:
                    rename[v] = unify[v]
                continue
            if v in self.gnames and not self._dead_after(v, binding):
                rename[v] = self.fresh('%s__%s' % (v, callee.name.strip('_')))
            else:
                self.gnames.add(v)
        for p in callee.params:
            arg = binding[p]
            if p in unify and isinstance(arg, ast.Name) and unify[p] == arg.id:
                if p != arg.id:
                    rename[p] = arg.id          # in-out parameter: the caller's own variable is used
                continue
            attrs = {n.attr for n in ast.walk(arg) if isinstance(n, ast.Attribute)}
            if (_is_simple(arg) or _no_call(arg)) and p not in callee.stores and not (_names(arg) & callee.scoped) and \
                    p not in callee.scoped and not (attrs & callee.attr_stores):
                expr_map[p] = arg
            else:
                newp = p
                if p in self.gnames:
                    newp = self.fresh('%s__%s' % (p, callee.name.strip('_')))
                else:
                    self.gnames.add(p)
                if newp != p:
                    rename[p] = newp
                prelude.append(ast.copy_location(ast.Assign(targets=[ast.Name(id=newp, ctx=ast.Store())], value=_copy_tree(arg)), call))
        sub = _Subst(expr_map, rename, callee.kwarg, callee.extra_keywords)
        body = [sub.visit(s) for s in body]
        # calls of further unknown functions inside the inlined body
        inner = Inliner(self.callees, self.report, self.classes)
        inner.g, inner.gnames = self.g, self.gnames
        inner.cur_class = callee.cls.name if callee.cls is not None and callee.method and \
            isinstance(call.func, ast.Attribute) and isinstance(call.func.value, ast.Name) and call.func.value.id == 'self' else None
        if inner.cur_class is not None and self.cur_class is not None:
            inner.cur_class = self.cur_class      # self is still the caller's object
        body = inner.block(body, depth + 1)
        self.counter += inner.counter
        for st_ in prelude + body:
            for n_ in ast.walk(st_):
                n_._inl = True          # line numbers of the helper: re-anchored at the call site (renumber_inlined)
        return prelude, body

    def inline_call(self, st, call, cond, callee, depth):
        if callee.reason:
            raise CannotInline(callee.reason)
        if callee.pure_expr:
            binding = callee.bind(call)
            uses = {}
            for n in ast.walk(callee.body[0].value):
                if isinstance(n, ast.Name):
                    uses[n.id] = uses.get(n.id, 0) + 1
            if all(_is_simple(binding[p]) or _no_call(binding[p]) or uses.get(p, 0) <= 1 for p in callee.params) and \
                    not any(_names(binding[p]) & callee.scoped for p in callee.params) and not (set(callee.params) & callee.scoped):
                e = _Subst(binding, {}, callee.kwarg, callee.extra_keywords).visit(_copy_tree(callee.body[0].value))
                e = ast.copy_location(e, call)
                self.replace_expr(st, call, e)
                return ('hoist', [])
        if callee.truth_expr is not None and getattr(call, '_truth_ctx', False):
            binding = callee.bind(call)
            uses = {}
            for n in ast.walk(callee.truth_expr):
                if isinstance(n, ast.Name):
                    uses[n.id] = uses.get(n.id, 0) + 1
            if all(_is_simple(binding[p]) or _no_call(binding[p]) or uses.get(p, 0) <= 1 for p in callee.params) and \
                    not any(_names(binding[p]) & callee.scoped for p in callee.params) and not (set(callee.params) & callee.scoped):
                e = _Subst(binding, {}, callee.kwarg, callee.extra_keywords).visit(_copy_tree(callee.truth_expr))
                e = ast.copy_location(e, call)
                ast.fix_missing_locations(e)
                self.replace_expr(st, call, e)
                return ('hoist', [])
        if cond:
            raise CannotInline('conditionally evaluated position')
        whole = self.is_whole_value(st, call)
        targets = None
        if whole and isinstance(st, ast.Assign) and len(st.targets) == 1 and self.plain_target(st.targets[0]):
            t0 = st.targets[0]
            targets = [t0.id] if isinstance(t0, ast.Name) else [e.id for e in t0.elts]
            if len(set(targets)) != len(targets):
                targets = None
        self._site = st
        prelude, body = self.instantiate(callee, call, depth, targets)
        if whole and isinstance(st, ast.Return):
            # tail call: the callee's returns are the caller's returns, the body is spliced unchanged
            new = list(body)
            if not new or not isinstance(new[-1], (ast.Return, ast.Raise)):
                new.append(ast.copy_location(ast.Return(value=None), st))
            return ('replace', self.fix(prelude + new))
        if whole and isinstance(st, ast.Expr):
            def mk(v, r):
                if v is None or isinstance(v, (ast.Constant, ast.Name)):
                    return []
                return [ast.copy_location(ast.Expr(value=v), r)]
            new, falls = _eliminate_returns(body, mk)
            return ('replace', self.fix(prelude + (new or [ast.copy_location(ast.Pass(), st)])))
        if whole and isinstance(st, ast.Assign) and len(st.targets) == 1 and self.plain_target(st.targets[0]):
            tgt = st.targets[0]

            def mk_assign(v, r):
                if v is not None and ast.unparse(v) == ast.unparse(tgt):
                    return []           # the returned locals already carry the target names
                return [ast.copy_location(ast.Assign(targets=[_copy_tree(tgt)], value=v if v is not None else ast.Constant(value=None)), r)]
            new, falls = _eliminate_returns(body, mk_assign)
            new = new or [ast.copy_location(ast.Pass(), st)]
            if falls:
                new.append(ast.copy_location(ast.Assign(targets=[_copy_tree(tgt)], value=ast.Constant(value=None)), st))
            return ('replace', self.fix(prelude + new))
        tmp = self.fresh('%s__result' % callee.name.strip('_'))
        new, falls = _eliminate_returns(body, lambda v, r: [ast.copy_location(
            ast.Assign(targets=[ast.Name(id=tmp, ctx=ast.Store())], value=v if v is not None else ast.Constant(value=None)), r)])
        if falls:
            new.append(ast.copy_location(ast.Assign(targets=[ast.Name(id=tmp, ctx=ast.Store())], value=ast.Constant(value=None)), st))
        self.replace_expr(st, call, ast.copy_location(ast.Name(id=tmp, ctx=ast.Load()), call))
        return ('hoist', self.fix(prelude + new))

    def plain_target(self, t):
        if isinstance(t, ast.Name):
            return True
        if isinstance(t, (ast.Tuple, ast.List)):
            return all(isinstance(e, ast.Name) for e in t.elts)
        return False

    def is_whole_value(self, st, call):
        return getattr(st, 'value', None) is call

    def replace_expr(self, st, old, new):
        for parent in ast.walk(st):
            for fld, val in ast.iter_fields(parent):
                if val is old:
                    setattr(parent, fld, new)
                    return
                if isinstance(val, list):
                    for i, v in enumerate(val):
                        if v is old:
                            val[i] = new
                            return
        raise CannotInline('call site not found')

    def fix(self, stmts):
        for s in stmts:
            ast.fix_missing_locations(s)
        return stmts


def _has_break_own(stmts):
    """break that belongs to the loop whose body `stmts` is"""
    for s_ in stmts:
        if isinstance(s_, ast.Break):
            return True
        if isinstance(s_, (ast.For, ast.While, ast.AsyncFor, ast.FunctionDef, ast.AsyncFunctionDef, ast.ClassDef)):
            continue
        for fld in ('body', 'orelse', 'finalbody'):
            if _has_break_own(getattr(s_, fld, []) or []):
                return True
        for h in getattr(s_, 'handlers', []) or []:
            if _has_break_own(h.body):
                return True
    return False


def _yields_in_loop_tail(stmts, tail):
    """is every `yield` statement in `stmts` the last action of an iteration of a loop of the generator itself?"""
    for i, s_ in enumerate(stmts):
        last = tail and i == len(stmts) - 1
        if isinstance(s_, ast.Expr) and isinstance(s_.value, (ast.Yield, ast.YieldFrom)):
            if not last:
                return False
        elif isinstance(s_, ast.If):
            if not (_yields_in_loop_tail(s_.body, last) and _yields_in_loop_tail(s_.orelse, last)):
                return False
        elif isinstance(s_, (ast.For, ast.While)):
            if not _yields_in_loop_tail(s_.body, True) or any(isinstance(x, (ast.Yield, ast.YieldFrom)) for o in s_.orelse for x in ast.walk(o)):
                return False
        elif isinstance(s_, (ast.With, ast.Try)):
            if any(isinstance(x, (ast.Yield, ast.YieldFrom)) for x in ast.walk(s_)):
                return False        # (leaving the block between yield and resume: not followed here)
        elif isinstance(s_, (ast.FunctionDef, ast.AsyncFunctionDef, ast.ClassDef)):
            continue
        elif any(isinstance(x, (ast.Yield, ast.YieldFrom)) for x in ast.walk(s_)):
            return False
    return True


def _has_loop_jump_own(stmts):
    """break / continue that belong to the loop whose body `stmts` is"""
    for s_ in stmts:
        if isinstance(s_, (ast.Break, ast.Continue)):
            return True
        if isinstance(s_, (ast.For, ast.While, ast.AsyncFor, ast.FunctionDef, ast.AsyncFunctionDef, ast.ClassDef)):
            continue
        for fld in ('body', 'orelse', 'finalbody'):
            if _has_loop_jump_own(getattr(s_, fld, []) or []):
                return True
        for h in getattr(s_, 'handlers', []) or []:
            if _has_loop_jump_own(h.body):
                return True
    return False


def _inside_node(x, top):
    return any(n is x for n in ast.walk(top))


def renumber_inlined(tree):
    """statements that were spliced in from a helper carry the helper's line numbers; the rules order statements by position, and
    reports should point at the call site.  They get fractional line numbers just behind the last line of the caller that precedes
    them in document order (so `a.lineno < b.lineno` is document order again and int(lineno) is the line before the call)."""
    for fn in ast.walk(tree):
        if not isinstance(fn, (ast.FunctionDef, ast.AsyncFunctionDef)) or not any(getattr(n, '_inl', False) for n in ast.walk(fn)):
            continue
        state = {'last': float(fn.lineno), 'k': 0}

        def own_lines(st):
            """largest line number of the statement's own header (its expressions, not nested statement lists)"""
            m = getattr(st, 'lineno', 0) or 0
            stack = [c for c in ast.iter_child_nodes(st) if not isinstance(c, ast.stmt)]
            while stack:
                n = stack.pop()
                if isinstance(n, ast.stmt):
                    continue
                m = max(m, getattr(n, 'end_lineno', None) or getattr(n, 'lineno', 0) or 0)
                stack.extend(ast.iter_child_nodes(n))
            return m

        def rec(body):
            for st in body:
                if getattr(st, '_inl', False):
                    state['k'] += 1
                    ln = int(state['last']) + state['k'] * 0.0001
                    st.lineno = st.end_lineno = ln
                    stack = [c for c in ast.iter_child_nodes(st) if not isinstance(c, ast.stmt)]
                    while stack:
                        n = stack.pop()
                        if isinstance(n, ast.stmt):
                            continue
                        if hasattr(n, 'lineno'):
                            n.lineno = n.end_lineno = ln
                        stack.extend(ast.iter_child_nodes(n))
                else:
                    state['last'] = max(state['last'], float(own_lines(st)))
                for fld in ('body', 'orelse', 'finalbody'):
                    b = getattr(st, fld, None)
                    if isinstance(b, list) and b and isinstance(b[0], ast.stmt) and not isinstance(st, (ast.FunctionDef, ast.AsyncFunctionDef, ast.ClassDef)):
                        rec(b)
                for h in getattr(st, 'handlers', []) or []:
                    if getattr(h, '_inl', False):
                        state['k'] += 1
                        h.lineno = h.end_lineno = int(state['last']) + state['k'] * 0.0001
                    rec(h.body)
        rec(fn.body)


def reparent(tree):
    tree._parent = None
    from .model import _SHARED_NODES
    for node in ast.walk(tree):
        for child in ast.iter_child_nodes(node):
            if not isinstance(child, _SHARED_NODES):
                child._parent = node


def _own_methods(trees, cname):
    """names of the methods defined directly in the body of class `cname` (first definition found)"""
    for t in trees.values():
        for n in ast.walk(t):
            if isinstance(n, ast.ClassDef) and n.name == cname:
                return {m.name for m in n.body if isinstance(m, (ast.FunctionDef, ast.AsyncFunctionDef))}
    return set()


def class_table(trees):
    """class name -> [(bases by simple name, {method names})]"""
    out = {}
    for rel, t in trees.items():
        for n in ast.walk(t):
            if isinstance(n, ast.ClassDef):
                bases = [b.id if isinstance(b, ast.Name) else b.attr if isinstance(b, ast.Attribute) else None for b in n.bases]
                meths = {m.name for m in ast.walk(n) if isinstance(m, (ast.FunctionDef, ast.AsyncFunctionDef))}
                out.setdefault(n.name, []).append((bases, meths))
    return out


def _mro_names(classes, name, seen=None):
    seen = seen if seen is not None else []
    if name in seen or name not in classes or len(classes[name]) != 1:
        return seen
    seen.append(name)
    for b in classes[name][0][0]:
        if b:
            _mro_names(classes, b, seen)
    return seen


def method_owner(classes, cls, meth):
    for c in _mro_names(classes, cls):
        if meth in classes[c][0][1]:
            return c
    return None


def overridden_below(classes, cls, meth):
    """does a strict subclass of `cls` define `meth`?"""
    for name, defs in classes.items():
        if name == cls or len(defs) != 1:
            continue
        if cls in _mro_names(classes, name) and meth in defs[0][1]:
            return True
    return False


class _QuantToLoop(ast.NodeTransformer):
    """return all(E for t in it [if c])  ->  for t in it: [if c:] if not E: return False; return True     (any: dually)
    only where E calls one of `names` (helpers that consist of statements and therefore cannot be inlined into an expression)"""

    def __init__(self, names):
        self.names = names

    def _blocks(self, node):
        for fld in ('body', 'orelse', 'finalbody'):
            blk = getattr(node, fld, None)
            if isinstance(blk, list) and blk and isinstance(blk[0], ast.stmt):
                new = []
                for st in blk:
                    new.extend(self._stmt(st))
                setattr(node, fld, new)
        for h in getattr(node, 'handlers', []) or []:
            self._blocks(h)

    def _stmt(self, st):
        if isinstance(st, ast.Return) and isinstance(st.value, ast.Call) and isinstance(st.value.func, ast.Name) and \
                st.value.func.id in ('all', 'any') and len(st.value.args) == 1 and not st.value.keywords and \
                isinstance(st.value.args[0], (ast.GeneratorExp, ast.ListComp)) and len(st.value.args[0].generators) == 1:
            gen = st.value.args[0].generators[0]
            elt = st.value.args[0].elt
            calls = [n for n in ast.walk(elt) if isinstance(n, ast.Call) and
                     ((isinstance(n.func, ast.Name) and n.func.id in self.names) or (isinstance(n.func, ast.Attribute) and n.func.attr in self.names))]
            if calls and not gen.is_async:
                is_all = st.value.func.id == 'all'
                test = ast.UnaryOp(op=ast.Not(), operand=elt) if is_all else elt
                inner = ast.If(test=test, body=[ast.Return(value=ast.Constant(value=not is_all))], orelse=[])
                for c in reversed(gen.ifs):
                    inner = ast.If(test=c, body=[inner], orelse=[])
                loop = ast.For(target=gen.target, iter=gen.iter, body=[inner], orelse=[], type_comment=None)
                for n in ast.walk(loop.target):
                    if isinstance(n, ast.Name):
                        n.ctx = ast.Store()
                out = [ast.copy_location(loop, st), ast.copy_location(ast.Return(value=ast.Constant(value=is_all)), st)]
                for o in out:
                    ast.fix_missing_locations(o)
                return out
        # `x = A and helper(..)` -> `x = A` / `if x: x = helper(..)`   (or: `if not x:`); likewise for `return`
        if isinstance(st, (ast.Assign, ast.Return)) and isinstance(st.value, ast.BoolOp) and \
                (isinstance(st, ast.Return) or (len(st.targets) == 1 and isinstance(st.targets[0], ast.Name))):
            later = [n for v in st.value.values[1:] for n in ast.walk(v) if isinstance(n, ast.Call) and
                     ((isinstance(n.func, ast.Name) and n.func.id in self.names) or (isinstance(n.func, ast.Attribute) and n.func.attr in self.names))]
            x = st.targets[0].id if isinstance(st, ast.Assign) else 'condition__value'
            used = {n.id for n in ast.walk(st.value) if isinstance(n, ast.Name)}
            if later and x not in used:
                is_and = isinstance(st.value.op, ast.And)
                vals = st.value.values
                out = [ast.Assign(targets=[ast.Name(id=x, ctx=ast.Store())], value=vals[0], type_comment=None)]
                cur = out
                for v in vals[1:]:
                    test = ast.Name(id=x, ctx=ast.Load())
                    if not is_and:
                        test = ast.UnaryOp(op=ast.Not(), operand=test)
                    nxt = ast.If(test=test, body=[ast.Assign(targets=[ast.Name(id=x, ctx=ast.Store())], value=v, type_comment=None)], orelse=[])
                    cur.append(nxt)
                    cur = nxt.body
                if isinstance(st, ast.Return):
                    out.append(ast.Return(value=ast.Name(id=x, ctx=ast.Load())))
                for o in out:
                    ast.copy_location(o, st)
                    ast.fix_missing_locations(o)
                return out
        # `return [E for t in it if c]` / `x = [E for ...]` with such a helper in E: the accumulator loop
        if isinstance(st, (ast.Return, ast.Assign)) and isinstance(st.value, ast.ListComp) and len(st.value.generators) == 1 and \
                not st.value.generators[0].is_async and \
                (isinstance(st, ast.Return) or (len(st.targets) == 1 and isinstance(st.targets[0], ast.Name))):
            comp = st.value
            gen = comp.generators[0]
            calls = [n for n in ast.walk(comp.elt) if isinstance(n, ast.Call) and
                     ((isinstance(n.func, ast.Name) and n.func.id in self.names) or (isinstance(n.func, ast.Attribute) and n.func.attr in self.names))]
            acc = st.targets[0].id if isinstance(st, ast.Assign) else 'collected__items'
            used = {n.id for n in ast.walk(comp) if isinstance(n, ast.Name)}
            if calls and acc not in used:
                inner = ast.Expr(value=ast.Call(func=ast.Attribute(value=ast.Name(id=acc, ctx=ast.Load()), attr='append', ctx=ast.Load()),
                                                args=[comp.elt], keywords=[]))
                for c in reversed(gen.ifs):
                    inner = ast.If(test=c, body=[inner], orelse=[])
                loop = ast.For(target=gen.target, iter=gen.iter, body=[inner], orelse=[], type_comment=None)
                for n in ast.walk(loop.target):
                    if isinstance(n, ast.Name):
                        n.ctx = ast.Store()
                out = [ast.Assign(targets=[ast.Name(id=acc, ctx=ast.Store())], value=ast.List(elts=[], ctx=ast.Load()), type_comment=None), loop]
                if isinstance(st, ast.Return):
                    out.append(ast.Return(value=ast.Name(id=acc, ctx=ast.Load())))
                for o in out:
                    ast.copy_location(o, st)
                    ast.fix_missing_locations(o)
                return out
        # `return list(helper(..))` / `x = list(helper(..))` with such a helper (a generator with statements): the accumulator loop over it
        if isinstance(st, (ast.Return, ast.Assign)) and isinstance(st.value, ast.Call) and isinstance(st.value.func, ast.Name) and \
                st.value.func.id == 'list' and len(st.value.args) == 1 and not st.value.keywords and isinstance(st.value.args[0], ast.Call) and \
                (isinstance(st, ast.Return) or (len(st.targets) == 1 and isinstance(st.targets[0], ast.Name))):
            inner_call = st.value.args[0]
            f_ = inner_call.func
            nm_ = f_.id if isinstance(f_, ast.Name) else f_.attr if isinstance(f_, ast.Attribute) else None
            acc = st.targets[0].id if isinstance(st, ast.Assign) else 'collected__items'
            used = {n.id for n in ast.walk(st.value) if isinstance(n, ast.Name)}
            if nm_ in self.names and acc not in used and 'collected__item' not in used:
                item = ast.Name(id='collected__item', ctx=ast.Store())
                inner = ast.Expr(value=ast.Call(func=ast.Attribute(value=ast.Name(id=acc, ctx=ast.Load()), attr='append', ctx=ast.Load()),
                                                args=[ast.Name(id='collected__item', ctx=ast.Load())], keywords=[]))
                loop = ast.For(target=item, iter=inner_call, body=[inner], orelse=[], type_comment=None)
                out = [ast.Assign(targets=[ast.Name(id=acc, ctx=ast.Store())], value=ast.List(elts=[], ctx=ast.Load()), type_comment=None), loop]
                if isinstance(st, ast.Return):
                    out.append(ast.Return(value=ast.Name(id=acc, ctx=ast.Load())))
                for o in out:
                    ast.copy_location(o, st)
                    ast.fix_missing_locations(o)
                return out
        # `return {K: V for t in it if c}` / `x = {...}` with such a helper in K or V: the loop that fills the dictionary
        if isinstance(st, (ast.Return, ast.Assign)) and isinstance(st.value, ast.DictComp) and len(st.value.generators) == 1 and \
                not st.value.generators[0].is_async and \
                (isinstance(st, ast.Return) or (len(st.targets) == 1 and isinstance(st.targets[0], ast.Name))):
            comp = st.value
            gen = comp.generators[0]
            calls = [n for e in (comp.key, comp.value) for n in ast.walk(e) if isinstance(n, ast.Call) and
                     ((isinstance(n.func, ast.Name) and n.func.id in self.names) or (isinstance(n.func, ast.Attribute) and n.func.attr in self.names))]
            acc = st.targets[0].id if isinstance(st, ast.Assign) else 'collected__items'
            used = {n.id for n in ast.walk(comp) if isinstance(n, ast.Name)}
            # (key before value, as in the comprehension: the key must be a plain name / constant for `acc[K] = V` to keep that order)
            if calls and acc not in used and isinstance(comp.key, (ast.Name, ast.Constant)):
                inner = ast.Assign(targets=[ast.Subscript(value=ast.Name(id=acc, ctx=ast.Load()), slice=comp.key, ctx=ast.Store())],
                                   value=comp.value, type_comment=None)
                for c in reversed(gen.ifs):
                    inner = ast.If(test=c, body=[inner], orelse=[])
                loop = ast.For(target=gen.target, iter=gen.iter, body=[inner], orelse=[], type_comment=None)
                for n in ast.walk(loop.target):
                    if isinstance(n, ast.Name):
                        n.ctx = ast.Store()
                out = [ast.Assign(targets=[ast.Name(id=acc, ctx=ast.Store())], value=ast.Dict(keys=[], values=[]), type_comment=None), loop]
                if isinstance(st, ast.Return):
                    out.append(ast.Return(value=ast.Name(id=acc, ctx=ast.Load())))
                for o in out:
                    ast.copy_location(o, st)
                    ast.fix_missing_locations(o)
                return out
        if not isinstance(st, (ast.FunctionDef, ast.AsyncFunctionDef, ast.ClassDef)):
            self._blocks(st)
        return [st]

    def visit_FunctionDef(self, fn):
        self.generic_visit(fn)
        self._blocks(fn)
        return fn

    visit_AsyncFunctionDef = visit_FunctionDef


def normalise(trees, known=None, sources=None):
    """trees: rel -> ast.Module (not modified).  -> (dict rel -> new tree for the modules that changed, report)"""
    known = load_known() if known is None else known
    index = {rel: function_index(t) for rel, t in trees.items()}
    new = []
    allnames = {}
    for rel, items in index.items():
        for qual, node, cls, _ in items:
            allnames.setdefault(node.name, []).append((rel, qual))
            if '%s:%s' % (rel, qual) not in known:
                new.append((rel, qual, node, cls))
    report = []
    if new:
        # a method that was moved up into a (new) base class under its own name is still the method the rules know: it stays a
        # function of its own (Repo.fn resolves the old qualified name through the MRO)
        classes0 = class_table(trees)
        known_meths = {}
        for q in known:
            if ':=' in q or ':' not in q:
                continue
            qual = q.split(':', 1)[1]
            if qual.count('.') == 1:
                k, m = qual.split('.')
                known_meths.setdefault(m, set()).add(k)
        kept = []
        for rel, qual, node, cls in new:
            moved = False
            if cls is not None and qual.count('.') == 1:
                for k in known_meths.get(node.name, ()):
                    if k != cls.name and k in classes0 and len(classes0[k]) == 1 and node.name not in _own_methods(trees, k) and \
                            cls.name in _mro_names(classes0, k):
                        moved = True
                        break
            if moved:
                report.append(('kept', qual, '-', 'method moved up from a subclass that the rules know'))
            else:
                kept.append((rel, qual, node, cls))
        new = kept
    if not new:
        return {}, report
    # nested definitions with the same name make a bare-name call ambiguous as well
    nested = {}
    for rel, t in trees.items():
        for n in ast.walk(t):
            if isinstance(n, (ast.FunctionDef, ast.AsyncFunctionDef, ast.ClassDef)):
                nested[n.name] = nested.get(n.name, 0) + 1
    classes = class_table(trees)
    callees = {}
    for rel, qual, node, cls in new:
        if nested.get(node.name, 0) != 1:
            if cls is not None and classes.get(cls.name) and len(classes[cls.name]) == 1:
                # the name is not unique in the repository: resolvable only for `self.<name>(...)` through the class hierarchy
                c = _Callee(rel, qual, node, cls)
                callees['%s.%s' % (cls.name, node.name)] = c
                continue
            report.append(('left', qual, '-', 'name %s is defined %d times' % (node.name, nested.get(node.name, 0))))
            continue
        c = _Callee(rel, qual, node, cls)
        callees[node.name] = c
    if not callees:
        return {}, report
    scoped_names = {k.split('.', 1)[1] for k in callees if '.' in k}
    # which modules mention a callee at all
    changed = {}
    defining = {c.rel for c in callees.values()}
    for rel, t in trees.items():
        hit = rel in defining         # (so that a definition whose calls, all in other modules, were inlined can be dropped)
        for n in ast.walk(t):
            if hit:
                break
            if isinstance(n, ast.Call):
                f = n.func
                nm = f.id if isinstance(f, ast.Name) else f.attr if isinstance(f, ast.Attribute) else None
                if nm in callees or nm in scoped_names:
                    hit = True
                    break
        if hit:
            from .model import normalise_tree
            changed[rel] = normalise_tree(ast.parse(sources[rel], filename=rel), rel)     # fresh tree without parent links
    # `return all(helper(x) for x in xs)` with a helper that needs statements: back to the loop form, where it can be inlined
    stmt_callees = {nm.split('.')[-1] for nm, c in callees.items() if not c.pure_expr and c.truth_expr is None}
    for rel, t in changed.items():
        _QuantToLoop(stmt_callees).visit(t)
        ast.fix_missing_locations(t)
    # callees must be taken from the copies (their own bodies get inlined calls first: bottom-up by recursion depth)
    for rel, t in changed.items():
        for qual, node, cls, _ in function_index(t):
            if node.name in callees and callees[node.name].rel == rel and callees[node.name].qual == qual:
                callees[node.name] = _Callee(rel, qual, node, cls)
            key = '%s.%s' % (cls.name, node.name) if cls is not None else None
            if key in callees and callees[key].rel == rel and callees[key].qual == qual:
                callees[key] = _Callee(rel, qual, node, cls)
    alltrees0 = dict(trees)
    alltrees0.update(changed)
    classes = class_table(alltrees0)
    # direct recursion
    for nm, c in list(callees.items()):
        nm = nm.split('.')[-1]
        for n in _own_nodes(c.node):
            if isinstance(n, ast.Call) and (isinstance(n.func, ast.Name) and n.func.id == nm or isinstance(n.func, ast.Attribute) and n.func.attr == nm):
                c.reason = c.reason or 'recursive'
    inl = Inliner(callees, report, classes)
    own = {id(c.node) for c in callees.values()}
    for rel, t in changed.items():
        for qual, n, cls, _ in function_index(t):
            if id(n) not in own:
                inl.cur_class = cls.name if cls is not None else None
                inl.inline_function(n)
        inl.cur_class = None
        for n in ast.walk(t):       # nested functions
            if isinstance(n, (ast.FunctionDef, ast.AsyncFunctionDef)) and id(n) not in own and not getattr(n, '_inl_done', False):
                inl.inline_function(n)
    # a one-expression helper passed as a value (`key=_tile_level`): the lambda it stands for (`key=lambda tile: tile.coord[2]`)
    # (in another module the name can only have arrived with an inlined body of the helper's module: there it means the same function,
    # unless that module binds the name itself)
    for rel, t in changed.items():
        bound_here = {n.id for n in ast.walk(t) if isinstance(n, ast.Name) and isinstance(n.ctx, (ast.Store, ast.Del))} | \
            {a.arg for a in ast.walk(t) if isinstance(a, ast.arg)} | \
            {n.name for n in ast.walk(t) if isinstance(n, (ast.FunctionDef, ast.AsyncFunctionDef, ast.ClassDef))}
        _FunctionValueToLambda({nm: c for nm, c in callees.items() if '.' not in nm and (c.rel == rel or nm not in bound_here) and c.cls is None and
                                not c.reason and c.pure_expr and not c.quantified}, report).visit(t)
    # drop the definitions nothing refers to any more (to a fixpoint: a dropped helper may hold the last reference to another)
    dropped = set()
    while True:
        refs = {nm: 0 for nm in callees if nm not in dropped and '.' not in nm}
        alltrees = dict(trees)
        alltrees.update(changed)
        for rel, t in alltrees.items():
            for n in ast.walk(t):
                if isinstance(n, ast.Name) and n.id in refs:
                    refs[n.id] += 1
                elif isinstance(n, ast.Attribute) and n.attr in refs:
                    refs[n.attr] += 1
                # (an import of the name alone is not a use: the importing module's calls were inlined like all others)
                elif isinstance(n, ast.Constant) and isinstance(n.value, str) and n.value in refs:
                    refs[n.value] += 1      # getattr(obj, 'name')
        progress = False
        # methods whose name is defined in several classes (keyed Class.name): dropped when the bare name is referred to nowhere any more
        srefs = {nm.split('.', 1)[1]: 0 for nm in callees if '.' in nm and nm not in dropped}
        if srefs:
            for rel, t in alltrees.items():
                for n in ast.walk(t):
                    if isinstance(n, ast.Name) and n.id in srefs:
                        srefs[n.id] += 1
                    elif isinstance(n, ast.Attribute) and n.attr in srefs:
                        srefs[n.attr] += 1
                    elif isinstance(n, ast.Constant) and isinstance(n.value, str) and n.value in srefs:
                        srefs[n.value] += 1
            for nm, c in callees.items():
                if '.' not in nm or nm in dropped or srefs.get(nm.split('.', 1)[1], 1) != 0 or c.rel not in changed or c.cls is None:
                    continue
                for qual, node, cls, container in function_index(changed[c.rel]):
                    if qual == c.qual and cls is not None and cls.name == c.cls.name and node.name == c.name:
                        container.remove(node)
                        if not container:
                            container.append(ast.copy_location(ast.Pass(), node))
                        report.append(('dropped', c.qual, '-', 'every call was inlined'))
                        dropped.add(nm)
                        progress = True
        for nm, c in callees.items():
            if nm in dropped or '.' in nm or refs.get(nm, 1) != 0 or c.rel not in changed:
                continue
            for qual, node, cls, container in function_index(changed[c.rel]):
                if node.name == nm:
                    container.remove(node)
                    if not container:
                        container.append(ast.copy_location(ast.Pass(), node))
                    report.append(('dropped', c.qual, '-', 'every call was inlined'))
                    dropped.add(nm)
                    progress = True
        if not progress:
            break
    from .simplify import simplify_tree
    from .localnames import restore_module
    from .model import _LowerIfExp
    for rel, t in changed.items():
        renumber_inlined(t)
        # the inlined bodies bring their own named conditions and literal tables: same normal forms as at parse time
        _LowerIfExp().visit(t)
        simplify_tree(t)
        restore_module(rel, t, sources[rel])
        ast.fix_missing_locations(t)
        reparent(t)
    return changed, report



def _strip_parents(e):
    """copy of a syntax tree without the _parent links of the model"""
    if isinstance(e, list):
        return [_strip_parents(x) for x in e]
    if not isinstance(e, ast.AST):
        return e
    new = copy.copy(e)
    if hasattr(new, '_parent'):
        del new._parent
    for fld, val in ast.iter_fields(e):
        setattr(new, fld, _strip_parents(val))
    return new


def inline_known(fn_node, callee_nodes):
    """copy of function `fn_node` with the calls of the given functions (name -> (FunctionDef, class node or None)) inlined.
    Used by rules that accept a check delegated to a small helper of the reference tree."""
    g = _strip_parents(fn_node)
    callees = {}
    for name, (node, cls) in callee_nodes.items():
        callees[name] = _Callee('-', name, _strip_parents(node), cls)
    report = []
    Inliner(callees, report).inline_function(g)
    ast.fix_missing_locations(g)
    reparent(g)
    return g, report



def inline_super_calls(trees):
    """`super().m(args)` (m not a special method) inside a method of class C  ->  the body of the method m that C inherits, with the
    caller's self.  A method that merely delegates to the implementation it would have inherited anyway, or that wraps it, then reads
    like the inherited code.  trees: rel -> Module tree (not modified) -> {rel: new tree} for the modules that changed"""
    def has_super(t):
        return any(isinstance(n, ast.Call) and isinstance(n.func, ast.Attribute) and isinstance(n.func.value, ast.Call) and
                   isinstance(n.func.value.func, ast.Name) and n.func.value.func.id == 'super' and
                   not (n.func.attr.startswith('__') and n.func.attr.endswith('__')) for n in ast.walk(t))
    hit = [rel for rel, t in trees.items() if has_super(t)]
    if not hit:
        return {}
    classes = class_table(trees)
    nodes = {}
    for rel, t in trees.items():
        for n in ast.walk(t):
            if isinstance(n, ast.ClassDef):
                nodes.setdefault(n.name, []).append(n)
    out = {}
    for rel in hit:
        t = _strip_parents(trees[rel])
        changed = False
        for c in [n for n in ast.walk(t) if isinstance(n, ast.ClassDef)]:
            for f in [m for m in c.body if isinstance(m, ast.FunctionDef)]:
                calls = [n for n in ast.walk(f) if isinstance(n, ast.Call) and isinstance(n.func, ast.Attribute) and isinstance(n.func.value, ast.Call) and
                         isinstance(n.func.value.func, ast.Name) and n.func.value.func.id == 'super' and
                         not (n.func.attr.startswith('__') and n.func.attr.endswith('__'))]
                callees = {}
                for call in calls:
                    m = call.func.attr
                    owner = None
                    for k in _mro_names(classes, c.name)[1:]:
                        if len(nodes.get(k, [])) == 1 and any(isinstance(x, ast.FunctionDef) and x.name == m for x in nodes[k][0].body):
                            owner = k
                            break
                    if owner is None:
                        continue
                    base = [x for x in nodes[owner][0].body if isinstance(x, ast.FunctionDef) and x.name == m][0]
                    alias = 'inherited_%s_' % m
                    node = _strip_parents(base)
                    node.name = alias
                    callees[alias] = _Callee('-', alias, node, nodes[owner][0])
                    call.func = ast.copy_location(ast.Attribute(value=ast.Name(id='self', ctx=ast.Load()), attr=alias, ctx=ast.Load()), call.func)
                if callees:
                    rep = []
                    inl = Inliner(callees, rep)
                    inl.cur_class = None
                    inl.inline_function(f)
                    changed = True
        if changed:
            ast.fix_missing_locations(t)
            renumber_inlined(t)
            reparent(t)
            out[rel] = t
    return out


def inline_local_closures(trees, sources, reference_functions):
    """a function defined inside another one that the reference tree does not have, referred to exactly once -- by a direct call in the
    defining function itself -- is the statements it stands for: its body is written at the call (the names it reads from the
    enclosing function are the same names there; its own locals are renamed on collision).  This is what is left of a callback handed
    to a new helper once the helper was inlined.  trees: rel -> Module tree (not modified) -> {rel: new tree}"""
    out = {}
    for rel, t0 in trees.items():
        cands = []
        for qual, g, cls, _ in function_index(t0):
            for st in g.body:
                if isinstance(st, ast.FunctionDef) and '%s:%s.%s' % (rel, qual, st.name) not in reference_functions:
                    cands.append((qual, st.name))
        if not cands:
            continue
        t = _strip_parents(t0)
        changed = False
        for qual, g, cls, _ in function_index(t):
            for name in [nm for q, nm in cands if q == qual]:
                defs = [st for st in g.body if isinstance(st, ast.FunctionDef) and st.name == name]
                if len(defs) != 1:
                    continue
                d = defs[0]
                refs = [n for n in ast.walk(g) if isinstance(n, ast.Name) and n.id == name]
                own_calls = [n for n in _own_nodes(g) if isinstance(n, ast.Call) and isinstance(n.func, ast.Name) and n.func.id == name]
                if len(refs) != 1 or len(own_calls) != 1 or refs[0] is not own_calls[0].func:
                    continue
                # the names the closure reads from the enclosing function must not be re-bound by the closure itself, and the call
                # must come after the definition in the same block or a nested one (always so for a def at the top of the body)
                c = _Callee(rel, '%s.%s' % (qual, name), d, None)
                if c.reason:
                    continue
                rep = []
                inl = Inliner({name: c}, rep)
                inl.cur_class = None
                body_wo = [st for st in g.body if st is not d]
                saved = g.body
                g.body = body_wo
                n = inl.inline_function(g)
                if n == 1 and not any(isinstance(x, ast.Name) and x.id == name for x in ast.walk(g)):
                    changed = True
                else:
                    g.body = saved      # not inlined (or only partly): left as it was -- the tree copy is discarded below
                    changed = False
                    t = None
                    break
            if t is None:
                break
        if t is not None and changed:
            from .simplify import simplify_tree
            from .localnames import restore_module
            ast.fix_missing_locations(t)
            renumber_inlined(t)
            from .model import _LowerIfExp
            _LowerIfExp().visit(t)
            simplify_tree(t)
            restore_module(rel, t, sources[rel])
            ast.fix_missing_locations(t)
            reparent(t)
            out[rel] = t
    return out


# ------------------------------------------------------------------------ explicit lock()/try/finally unlock()  ->  with

def _contextual_lock_classes(trees):
    """classes whose __enter__ is `self.lock()` and whose __exit__ is `self.unlock()` (by simple name, inherited through the
    class table): for them `L = C(..); L.lock(); try: B finally: L.unlock()` is `with C(..): B`"""
    direct = set()
    for t in trees.values():
        for c in ast.walk(t):
            if not isinstance(c, ast.ClassDef):
                continue
            m = {f.name: f for f in c.body if isinstance(f, ast.FunctionDef)}
            if '__enter__' in m and '__exit__' in m:
                ent = [s for s in m['__enter__'].body if not (isinstance(s, ast.Expr) and isinstance(s.value, ast.Constant))]
                ext = [s for s in m['__exit__'].body if not (isinstance(s, ast.Expr) and isinstance(s.value, ast.Constant))]
                ok_e = len(ent) in (1, 2) and isinstance(ent[0], ast.Expr) and ast.unparse(ent[0].value) == 'self.lock()' and \
                    (len(ent) == 1 or (isinstance(ent[1], ast.Return) and ast.unparse(ent[1].value) == 'self'))
                ok_x = len(ext) == 1 and isinstance(ext[0], ast.Expr) and ast.unparse(ext[0].value) == 'self.unlock()'
                if ok_e and ok_x:
                    direct.add(c.name)
    classes = class_table(trees)
    out = set(direct)
    for name in classes:
        if any(c in direct for c in _mro_names(classes, name)) and not any(
                ('__enter__' in classes[c][0][1] or '__exit__' in classes[c][0][1]) and c not in direct for c in _mro_names(classes, name)):
            out.add(name)
    return out


class _LockIdiom(ast.NodeTransformer):
    def __init__(self, lockclasses):
        self.lockclasses = lockclasses
        self.count = 0

    def _rewrite(self, stmts):
        out, i = [], 0
        while i < len(stmts):
            a = stmts[i]
            if i + 2 < len(stmts) and isinstance(a, ast.Assign) and len(a.targets) == 1 and isinstance(a.targets[0], ast.Name) and \
                    isinstance(a.value, ast.Call) and (ast.unparse(a.value.func).split('.')[-1] in self.lockclasses):
                name = a.targets[0].id
                b, c = stmts[i + 1], stmts[i + 2]
                if isinstance(b, ast.Expr) and ast.unparse(b.value) == '%s.lock()' % name and isinstance(c, ast.Try) and not c.handlers and \
                        not c.orelse and len(c.finalbody) == 1 and isinstance(c.finalbody[0], ast.Expr) and \
                        ast.unparse(c.finalbody[0].value) == '%s.unlock()' % name:
                    used = any(isinstance(n, ast.Name) and n.id == name for s_ in c.body for n in ast.walk(s_)) or \
                        any(isinstance(n, ast.Name) and n.id == name for s_ in stmts[i + 3:] for n in ast.walk(s_))
                    item = ast.withitem(context_expr=a.value, optional_vars=ast.Name(id=name, ctx=ast.Store()) if used else None)
                    out.append(ast.copy_location(ast.With(items=[item], body=c.body), a))
                    self.count += 1
                    i += 3
                    continue
            out.append(a)
            i += 1
        return out

    def generic_visit(self, node):
        super().generic_visit(node)
        for fld in ('body', 'orelse', 'finalbody'):
            b = getattr(node, fld, None)
            if isinstance(b, list) and b and isinstance(b[0], ast.stmt):
                setattr(node, fld, self._rewrite(b))
        return node


def lower_lock_idiom(trees, sources):
    """-> {rel: new tree} for the modules that contain the explicit lock()/try/finally unlock() idiom on a context-manager lock"""
    cand = [rel for rel, src in sources.items() if '.unlock()' in src and 'finally' in src and '.lock()' in src]
    if not cand:
        return {}
    lockclasses = _contextual_lock_classes(trees)
    if not lockclasses:
        return {}
    from .model import normalise_tree
    changed = {}
    for rel in cand:
        t = normalise_tree(ast.parse(sources[rel], filename=rel))
        tr = _LockIdiom(lockclasses)
        t = tr.visit(t)
        if tr.count:
            ast.fix_missing_locations(t)
            reparent(t)
            changed[rel] = t
    return changed
