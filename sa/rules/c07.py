"""C07 -- file locks are exclusive and semaphores bounded under every interleaving.
Decided: the protocol steps whose absence admits a two-holder schedule and the release
discipline: exclusive non-blocking flock on a freshly opened handle, handle published only
after the lock (C07.a); with release-by-unlink the acquisition re-validates that the path
still names the locked inode (C07.b); release on every exit and every lock object is
used as a context manager (C07.c); timeout only after continuous failure (C07.d); the
semaphore visits all n slots modulo n and gives up only after n tries (C07.e); stale lock
removal never undercuts the lock timeout (C07.f).
Added in round 4: the sweep of the lock directory tolerates lock files that are released while it
looks at them (C07.i, shared C08.f).
Added in round 7: the seed cache lock reads its whole queue before the cursor is re-used, and the caller's
own entry grants the lock only with no live entry before it (C07.j, repair D52)."""
import ast

from ..engine import rule
from ..model import Undecided
from ..cfg import same, dotted, call_name, is_call, simple_name, unparse, const_value, contains, enclosing, implied
from ..flow import Defs, depends, affine, try_const
from ..util import keyword, returns_of, calls_in, inside, order_key

NOT_DECIDED = 'mutual exclusion under all interleavings, fairness, liveness, flock semantics on network file systems'

LOCK = 'mapproxy/util/lock.py'
LF = 'mapproxy/util/ext/lockfile.py'


def _unix_lock_file(ctx):
    for f in ctx.repo.versions(LF + ':_lock_file'):
        if any(is_call(x, 'fcntl.flock', 'flock', 'fcntl.lockf') for x in f.walk()):
            ctx.stats['functions'].add(f.qn)
            return f
    raise Undecided('no definition of _lock_file that calls fcntl.flock')


@rule('C07.a', floor=6)
def c07a(ctx):
    mod = ctx.repo.mod(LF)
    lf = _unix_lock_file(ctx)
    flock = [x for x in lf.walk() if is_call(x, 'fcntl.flock', 'flock')][0]
    flags = flock.args[1] if len(flock.args) > 1 else None
    fexpr = flags
    if isinstance(flags, ast.Name):
        m2, fexpr = ctx.repo.const_expr(mod, flags.id)
    attrs = {x.attr for x in ast.walk(fexpr) if isinstance(x, ast.Attribute)} | \
        {x.id for x in ast.walk(fexpr) if isinstance(x, ast.Name)} if fexpr is not None else set()
    only_or = fexpr is not None and all(isinstance(x.op, ast.BitOr) for x in ast.walk(fexpr) if isinstance(x, ast.BinOp))
    ctx.check('LOCK_EX' in attrs and 'LOCK_SH' not in attrs and only_or, '_lock_file:exclusive',
              'flock flags contain LOCK_EX and not LOCK_SH', lf, flock,
              fail='flock flags are %s: not an exclusive lock' % (unparse(fexpr) if fexpr is not None else '?'))
    ctx.check('LOCK_NB' in attrs, '_lock_file:non-blocking', 'flock flags contain LOCK_NB (the caller polls with a timeout)', lf, flock)
    ctx.check(contains(flock.args[0], lambda x: is_call(x, 'fileno')), '_lock_file:on-handle',
              'flock is applied to the descriptor of the handle passed in', lf, flock)
    # failure -> LockError
    tr = enclosing(flock, ast.Try)
    ok = tr is not None and any(isinstance(h.body[-1], ast.Raise) and contains(h.body[-1], lambda x: isinstance(x, ast.Name) and x.id == 'LockError')
                                for h in tr.handlers)
    ctx.check(ok, '_lock_file:failure-raises-LockError', 'a failed flock raises LockError', lf, flock)
    init = ctx.fn(LF + ':LockFile.__init__')
    g = init.cfg
    opens = g.find(lambda x: is_call(x, 'open'))
    locks = g.find(lambda x: is_call(x, '_lock_file'))
    pubs = g.find_stmts(lambda s: isinstance(s, ast.Assign) and any(same(t, 'self._fp') for t in s.targets))
    if not (opens and locks and pubs):
        ctx.bad('LockFile.__init__:shape', 'open / _lock_file / self._fp assignment not found', init)
        return
    ctx.check(all(g.dominates(opens[0][0], n) for n, _ in locks), 'LockFile.__init__:open-then-lock',
              'the lock is taken on the handle opened by this constructor', init, locks[0][1])
    ctx.check(unparse(locks[0][1].args[0]) == unparse(enclosing(opens[0][1], ast.Assign).targets[0]) if enclosing(opens[0][1], ast.Assign) else False,
              'LockFile.__init__:lock-own-handle', '_lock_file receives the freshly opened handle', init, locks[0][1])
    for p in pubs:
        ok = all(g.dominates(n, p) and n != p for n, _ in locks)
        # the assignment must not be reachable through the lock's failure handler
        ctx.check(ok, 'LockFile.__init__:publish-after-lock', 'self._fp is assigned only after _lock_file succeeded', init, g.stmt[p],
                  fail='self._fp is assigned before the lock is held: close() would "release" a lock that was never taken')
    tr = enclosing(locks[0][1], ast.Try)
    ok = tr is not None and all(contains(h, lambda x: is_call(x, 'close')) and isinstance(h.body[-1], ast.Raise) for h in tr.handlers) \
        and bool(tr.handlers)
    ctx.check(ok, 'LockFile.__init__:failure-closes-and-raises', 'when locking fails the handle is closed and the error propagates', init,
              fail='a failed lock attempt does not close the handle and re-raise (the constructor would return an unlocked LockFile)')


def _removes_lock_file(ctx):
    un = ctx.fn(LOCK + ':FileLock.unlock')
    rem = [x for x in un.walk() if is_call(x, 'os.remove', 'os.unlink') and x.args and same(x.args[0], 'self.lock_file')]
    cl = ctx.fn(LOCK + ':cleanup_lockdir')
    rem2 = [x for x in cl.walk() if is_call(x, 'os.remove', 'os.unlink')]
    return un, rem, cl, rem2


@rule('C07.b', floor=1)
def c07b(ctx):
    un, rem, cl, rem2 = _removes_lock_file(ctx)
    if not rem and not rem2:
        ctx.ok('lock:no-release-by-unlink', 'no unlock path removes the lock file: inode re-validation not needed', un)
        ctx.ok('lock:no-cleanup-unlink', 'cleanup_lockdir does not unlink lock files', cl)
        return
    # candidates: the Unix _lock_file after flock, or LockFile.__init__ between _lock_file and self._fp
    lf = _unix_lock_file(ctx)
    init = ctx.fn(LF + ':LockFile.__init__')
    found = None
    for fn, after_pred in ((lf, lambda x: is_call(x, 'fcntl.flock', 'flock')), (init, lambda x: is_call(x, '_lock_file'))):
        g = fn.cfg
        defs = Defs(fn.node)
        anchors = g.find(after_pred)
        if not anchors:
            continue
        an = anchors[0][0]
        for st in fn.walk():
            if not isinstance(st, ast.If):
                continue
            lhs_rhs = [c for c in ast.walk(st.test) if isinstance(c, ast.Compare) or is_call(c, 'samestat')]
            for c in lhs_rhs:
                samestat = isinstance(c, ast.Call)
                if samestat:
                    # os.path.samestat(a, b) == (a.st_ino == b.st_ino and a.st_dev == b.st_dev); mismatch edge = not samestat
                    sides = list(c.args)
                    raise_in = st.body if isinstance(st.test, ast.UnaryOp) and isinstance(st.test.op, ast.Not) and st.test.operand is c else \
                        st.orelse if st.test is c else []
                else:
                    sides = [c.left] + c.comparators
                    raise_in = st.body + st.orelse
                if len(sides) != 2:
                    continue
                a_f = depends(sides[0], lambda x: is_call(x, 'os.fstat', 'fstat'), defs)
                a_s = depends(sides[0], lambda x: is_call(x, 'os.stat', 'stat', 'os.lstat'), defs)
                b_f = depends(sides[1], lambda x: is_call(x, 'os.fstat', 'fstat'), defs)
                b_s = depends(sides[1], lambda x: is_call(x, 'os.stat', 'stat', 'os.lstat'), defs)
                if (a_f and b_s) or (a_s and b_f):
                    n = g.node_of.get(id(st))
                    ino = samestat or all(depends(s, lambda x: isinstance(x, ast.Attribute) and x.attr == 'st_ino', defs) for s in sides)
                    raises = any(isinstance(b, ast.Raise) and contains(b, lambda x: isinstance(x, ast.Name) and x.id == 'LockError')
                                 for b in raise_in)
                    after = n is not None and g.dominates(an, n) and an != n
                    found = (fn, st, ino, raises, after, defs, g)
    construct = 'LockFile:path-identity-after-flock'
    if found is None:
        ctx.bad(construct, 'the lock file is released by unlinking it (FileLock.unlock: os.remove(self.lock_file); '
                'cleanup_lockdir: os.unlink) but the acquisition never compares os.fstat(handle) with os.stat(path) '
                'after flock: a process that opened the old inode before it was unlinked locks an orphaned file while '
                'another process locks a fresh one -- two holders', lf)
        return
    fn, st, ino, raises, after, defs, g = found
    ctx.check(ino and raises and after, construct,
              'after flock the acquisition compares inode (and device) of the handle with the path and raises LockError on mismatch', fn, st,
              fail='identity check after flock is incomplete: compares st_ino=%s, raises LockError=%s, placed after the lock call=%s'
                   % (ino, raises, after))
    # ENOENT of the path stat must become LockError
    stats = [x for x in fn.walk() if is_call(x, 'os.stat', 'os.lstat')]
    ok = bool(stats)
    for s in stats:
        tr = enclosing(s, ast.Try)
        ok = ok and tr is not None and any(contains(h, lambda x: isinstance(x, ast.Raise)) and
                                           contains(h, lambda x: isinstance(x, ast.Name) and x.id == 'LockError') for h in tr.handlers)
    ctx.check(ok, 'LockFile:path-vanished-is-LockError', 'a vanished lock path (stat fails) is reported as LockError, i.e. retried', fn)


LOCK_CTORS = ('FileLock', 'SemLock', 'LockFile')


@rule('C07.c', floor=12)
def c07c(ctx):
    ex = ctx.fn(LOCK + ':FileLock.__exit__')
    g = ex.cfg
    calls = g.find(lambda x: is_call(x, 'self.unlock'))
    ok = bool(calls) and all(g.dominates(n, g.EXIT) for n, _ in calls[:1])
    ctx.check(ok, 'FileLock.__exit__:unlocks', '__exit__ calls unlock() unconditionally', ex)
    en = ctx.fn(LOCK + ':FileLock.__enter__')
    ctx.check(any(is_call(x, 'self.lock') for x in en.walk()), 'FileLock.__enter__:locks', '__enter__ calls lock()', en)
    un = ctx.fn(LOCK + ':FileLock.unlock')
    g = un.cfg
    # every path through the `if self._locked` body releases: remove or close
    rel = [n for n, x in g.find(lambda x: is_call(x, 'os.remove', 'os.unlink', 'self._lock.close'))]
    guard_true = g.guard_edges(lambda at: at.op is None and same(at.expr, 'self._locked'), True)
    ok = bool(rel) and bool(guard_true)
    if ok:
        start = guard_true[0][1]
        ok = not g.reaches_avoiding(guard_true[0][0], g.EXIT, avoid=set(rel) | {d for s, d in g.guard_edges(
            lambda at: at.op is None and same(at.expr, 'self._locked'), False)}, no_exc=True) or \
            not _path_without(g, start, rel)
    ctx.check(ok, 'FileLock.unlock:releases', 'every path of unlock() for a held lock removes the lock file or closes the handle', un,
              fail='unlock() has a path for a held lock that neither removes the file nor closes the handle: the lock is never released')
    # a failed remove falls back to close
    rems = [x for x in un.walk() if is_call(x, 'os.remove', 'os.unlink')]
    for r in rems:
        tr = enclosing(r, ast.Try)
        ok = tr is not None and any(contains(h, lambda x: is_call(x, 'self._lock.close')) for h in tr.handlers)
        ctx.check(ok, 'FileLock.unlock:remove-failure-closes', 'if removing the lock file fails the handle is closed instead', un, r)
    # release-by-unlink happens while the flock is still held: no close() on a path to the remove
    for r in rems:
        rn = g.node_for(r)
        cl = [n for n, x in g.find(lambda x: is_call(x, 'self._lock.close'))]
        early = [c for c in cl if g.reaches_avoiding(c, rn, no_exc=True)]
        ctx.check(not early, 'FileLock.unlock:remove-while-held', 'the lock file is removed while the flock is still held (the handle is not closed before the remove)', un, r,
                  fail='the handle is closed before the lock file is removed: between close and remove another process takes a valid lock on the file that '
                       'is about to be unlinked, and a third one locks a fresh file -- two holders')
    flag = [s for s in un.walk() if isinstance(s, ast.Assign) and unparse(s.targets[0]) == 'self._locked' and const_value(s.value) is False]
    ctx.check(bool(flag), 'FileLock.unlock:clears-flag', 'unlock() clears _locked (a released lock can be taken again)', un)
    # constructor sites
    n = 0
    for rel_, m in sorted(ctx.repo.modules.items()):
        if rel_ in (LF,):
            continue
        for x in ast.walk(m.tree):
            if isinstance(x, ast.Call) and (dotted(x.func) or '').split('.')[-1] in LOCK_CTORS:
                if (dotted(x.func) or '').startswith('FileLock.__init__'):
                    continue
                par = getattr(x, '_parent', None)
                where = (rel_, x.lineno)
                construct = 'lock-site:%s:%s' % (rel_, _enclosing_name(x))
                n += 1
                if isinstance(par, ast.withitem):
                    ctx.ok(construct, '%s(...) is a `with` item' % simple_name(x), where)
                elif isinstance(par, ast.Return) or isinstance(par, ast.Lambda):
                    ctx.ok(construct, '%s(...) is returned to a caller (checked: TileLocker.lock -> TileManager.lock -> '
                           '`with` sites; SemLock lambdas -> `with self.lock()`; _try_lock -> FileLock.lock)' % simple_name(x), where)
                elif isinstance(par, ast.Assign) and len(par.targets) == 1 and isinstance(par.targets[0], ast.Name) and \
                        _local_lock_use(x, par.targets[0].id):
                    ctx.ok(construct, '%s(...) is bound to a local whose every use is a `with` item or a return' % simple_name(x), where)
                else:
                    ctx.bad(construct, '%s(...) is neither a `with` item nor returned to a caller that uses it as one: '
                            'no release on exceptional exits' % simple_name(x), where)
    # the callers that receive returned locks use them as with items
    for qn, pred in (('mapproxy/cache/tile.py:TileCreator._create_single_tile', 'self.tile_mgr.lock'),
                     ('mapproxy/cache/tile.py:TileCreator._create_meta_tile', 'self.tile_mgr.lock'),
                     ('mapproxy/cache/tile.py:TileCreator._create_bulk_meta_tile', 'self.tile_mgr.lock'),
                     ('mapproxy/cache/renderd.py:RenderdTileCreator._create_single_tile', 'self.tile_locker'),
                     ('mapproxy/cache/renderd.py:RenderdTileCreator._create_meta_tile', 'self.tile_locker'),
                     ('mapproxy/client/wms.py:WMSClient.retrieve', 'self.lock')):
        fn = ctx.fn(qn)
        uses = [x for x in fn.walk_all() if is_call(x, pred)]
        ok = bool(uses) and all(isinstance(getattr(x, '_parent', None), ast.withitem) for x in uses)
        if qn.endswith('WMSClient.retrieve') and not uses:
            ok = True
        ctx.check(ok, '%s:lock-used-as-with' % fn.short, '%s(...) is used as a `with` item' % pred, fn,
                  fail='%s(...) is acquired without `with`: not released when the body raises' % pred)


def _path_without(g, start, rel):
    return g.EXIT in g.reachable(start, avoid=set(rel), no_exc=True) and start not in rel


def _local_lock_use(call, name):
    """the local `name` (bound to a lock constructor call) is used only as a `with` item or returned, at least once"""
    f = enclosing(call, (ast.FunctionDef, ast.Lambda))
    if f is None:
        return False
    uses = [x for x in ast.walk(f) if isinstance(x, ast.Name) and x.id == name and isinstance(x.ctx, ast.Load)]
    return bool(uses) and all(isinstance(getattr(u, '_parent', None), (ast.withitem, ast.Return)) for u in uses)


def _enclosing_name(x):
    names = []
    n = getattr(x, '_parent', None)
    while n is not None:
        if isinstance(n, (ast.FunctionDef, ast.ClassDef)):
            names.append(n.name)
        n = getattr(n, '_parent', None)
    return '.'.join(reversed(names)) or '<module>'


@rule('C07.d', floor=3)
def c07d(ctx):
    fn = ctx.fn(LOCK + ':FileLock.lock')
    g = fn.cfg
    raises = g.find_stmts(lambda s: isinstance(s, ast.Raise) and s.exc is not None and contains(s.exc, lambda x: isinstance(x, ast.Name) and x.id == 'LockTimeout'))
    if not raises:
        ctx.bad('FileLock.lock:timeout', 'lock() never raises LockTimeout', fn)
        return
    for n in raises:
        st = g.stmt[n]
        h = enclosing(st, ast.ExceptHandler)
        inh = h is not None and h.type is not None and contains(h.type, lambda x: isinstance(x, ast.Name) and x.id == 'LockError')
        ctx.check(inh, 'FileLock.lock:timeout-in-handler', 'LockTimeout is raised only inside the `except LockError` handler '
                  '(i.e. after a failed attempt)', fn, st)
        def is_now(e):
            return contains(e, lambda x: is_call(x, 'time.time') or (isinstance(x, ast.Name) and 'time' in x.id and 'stop' not in x.id))

        def is_stop(e):
            return contains(e, lambda x: isinstance(x, ast.Name) and 'stop' in x.id)
        # not (now < stop)  or  stop < now   (the boundary instant itself is not fixed by the statement)
        ok = g.guarded(n, lambda at: at.op == '<' and is_now(at.left) and is_stop(at.right), False) or \
            g.guarded(n, lambda at: at.op == '<' and is_stop(at.left) and is_now(at.right), True)
        ctx.check(ok, 'FileLock.lock:timeout-after-deadline', 'LockTimeout only when not (now < stop_time)', fn, st,
                  fail='LockTimeout can be raised before the deadline has passed')
        # "only if the lock was unavailable until the deadline": the give-up follows a failed attempt directly -- no sleep between
        # the last attempt and the raise (a lock released during that sleep would never be tried)
        tries = [m for m, _ in g.find(lambda x: is_call(x, 'self._try_lock'))]
        sleeps = [m for m, _ in g.find(lambda x: is_call(x, 'time.sleep', 'sleep'))]
        ok = bool(tries) and not any(g.reaches_avoiding(sl, n, avoid=set(tries)) for sl in sleeps)
        ctx.check(ok, 'FileLock.lock:no-sleep-before-giving-up', 'between the last failed attempt and LockTimeout the waiter does not sleep', fn, st,
                  fail='the waiter sleeps after its last attempt and then gives up without trying again: a lock released during the last '
                       'interval before the deadline is reported as timed out')
    defs = Defs(fn.node)
    stops = [v for v, sel in defs.of('stop_time')]
    ok = bool(stops) and all(contains(v, lambda x: same(x, 'self.timeout')) and isinstance(v, ast.BinOp) and isinstance(v.op, ast.Add) for v in stops)
    ctx.check(ok, 'FileLock.lock:deadline', 'stop_time = now + self.timeout', fn)
    sets = [s for s in fn.walk() if isinstance(s, ast.Assign) and unparse(s.targets[0]) == 'self._locked' and const_value(s.value) is True]
    ok = bool(sets)
    for s in sets:
        tr = enclosing(s, ast.Try)
        ok = ok and tr is not None and any(inside(s, e) for e in tr.orelse)
    ctx.check(ok, 'FileLock.lock:locked-only-on-success', '_locked = True only in the `else` of the try (the attempt succeeded)', fn,
              fail='_locked is set although the attempt may have failed')
    # retry sleeps then continues (a released lock can be taken again)
    ok = any(isinstance(s, ast.While) and contains(s.test, lambda x: same(x, 'self._locked')) for s in fn.walk())
    ctx.check(ok, 'FileLock.lock:retry-loop', 'attempts are repeated while not self._locked', fn)


@rule('C07.e', floor=5)
def c07e(ctx):
    fn = ctx.fn(LOCK + ':SemLock._try_lock')
    g = fn.cfg
    defs = Defs(fn.node)
    # the locals are found by their role, not by their name: the slot is what is appended to the lock file name, the attempt
    # counter is the local incremented by one in the loop
    lf = [x for x in fn.walk() if is_call(x, 'LockFile')]
    iv = None
    for x in lf:
        a0 = x.args[0] if x.args else None
        if isinstance(a0, ast.BinOp) and isinstance(a0.op, ast.Add) and same(a0.left, 'self.lock_file') and is_call(a0.right, 'str') and \
                isinstance(a0.right.args[0], ast.Name):
            iv = a0.right.args[0].id
    ok = bool(lf) and iv is not None and all(same(x.args[0], 'self.lock_file+str(%s)' % iv) for x in lf)
    ctx.check(ok, 'SemLock._try_lock:slot-file', 'slot files are lock_file + str(slot)', fn)
    iv = iv or 'i'
    incs = [s for s in fn.walk() if isinstance(s, ast.AugAssign) and isinstance(s.target, ast.Name) and isinstance(s.op, ast.Add) and
            const_value(s.value) == 1 and s.target.id != iv]
    tv = incs[0].target.id if incs else 'tries'
    idefs = defs.of(iv)
    init = [v for v, sel in idefs if is_call(v, 'random.randint', 'randint', 'randrange', 'random.randrange')]
    upd = [v for v, sel in idefs if v not in init]
    ok = len(init) == 1
    if ok:
        a = init[0].args
        if simple_name(init[0]) == 'randint':
            ok = const_value(a[0]) == 0 and unparse(a[1]).replace(' ', '') in ('self.n-1',)
        else:
            ok = same(a[-1], 'self.n')
    ctx.check(ok, 'SemLock._try_lock:start-slot', 'the first slot is drawn from 0 .. n-1', fn)
    oku = bool(upd)
    for v in upd:
        form = isinstance(v, ast.BinOp) and isinstance(v.op, ast.Mod) and same(v.right, 'self.n')
        step = None
        if form:
            a = affine(v.left)
            step = a.get(iv) if a else None
            const = a.get('', 0) if a else None
            form = step == 1 and const in (1, -1)
        oku = oku and form
    ctx.check(oku, 'SemLock._try_lock:next-slot', 'the slot advances by +/-1 modulo self.n (all n slots are visited, never more than n names)',
              fn, fail='the slot update %s is not (slot +/- 1) %% self.n: slots are skipped or leave 0..n-1 (more than n holders possible)'
              % [unparse(v) for v in upd])
    # gives up only on an edge implying tries >= self.n
    raises = g.find_stmts(lambda s: isinstance(s, ast.Raise))
    okr = bool(raises)
    for n in raises:
        # accepted guards:  not (tries < self.n)   [tries >= n]   or   self.n < tries  [tries > n]
        a = g.guarded(n, lambda at: at.op == '<' and unparse(at.left) == tv and same(at.right, 'self.n'), False)
        b = g.guarded(n, lambda at: at.op == '<' and same(at.left, 'self.n') and unparse(at.right) == tv, True)
        c = g.guarded(n, lambda at: at.op == '==' and {unparse(at.left), unparse(at.right)} == {tv, 'self.n'}, True)
        okr = okr and (a or b or c)
        h = enclosing(g.stmt[n], ast.ExceptHandler)
        okr = okr and h is not None
    ctx.check(okr, 'SemLock._try_lock:give-up-after-n', 'the attempt is abandoned (LockError re-raised) only when tries >= n', fn,
              fail='the semaphore gives up before all n slots were tried (busy first slot => LockError although other slots are free)')
    loop = [s for s in fn.walk() if isinstance(s, ast.While)]
    ok = len(incs) == 1 and bool(loop) and inside(incs[0], loop[0]) and [v for v, sel in defs.of(tv) if sel is None and const_value(v) == 0]
    ctx.check(bool(ok), 'SemLock._try_lock:counts-tries', 'tries starts at 0 and is incremented once per attempt', fn)
    init_ = ctx.fn(LOCK + ':SemLock.__init__')
    ok = any(isinstance(s, ast.Assign) and unparse(s.targets[0]) == 'self.n' and same(s.value, 'n') for s in init_.walk())
    ctx.check(ok, 'SemLock.__init__:n', 'self.n is the configured number of slots', init_)


@rule('C07.f', floor=2)
def c07f(ctx):
    fn = ctx.fn('mapproxy/cache/base.py:TileLocker.lock')
    calls = [x for x in fn.walk() if is_call(x, 'cleanup_lockdir')]
    if not calls:
        ctx.ok('TileLocker.lock:no-cleanup', 'no stale-lock cleanup on this path', fn)
    for c in calls:
        a = keyword(c, 'max_lock_time', 2)
        af = affine(a) if a is not None else None
        ok = af is not None and af.get('self.lock_timeout') == 1 and af.get('', 0) >= 0 and set(af) <= {'self.lock_timeout', ''}
        ctx.check(ok, 'TileLocker.lock:cleanup-age', 'stale locks are removed only after lock_timeout + c seconds, c >= 0', fn, c,
                  fail='max_lock_time = %s is smaller than the lock timeout: a lock that is still legitimately held is '
                       'unlinked and a second holder gets a fresh inode' % (unparse(a) if a is not None else 'default'))
    cl = ctx.fn(LOCK + ':cleanup_lockdir')
    g = cl.cfg
    defs = Defs(cl.node)
    un = g.find(lambda x: is_call(x, 'os.unlink', 'os.remove'))
    for n, x in un:
        ok = g.guarded(n, lambda at: at.op == '<' and contains(at.left, lambda y: is_call(y, 'os.path.getmtime', 'getmtime') or
                                                                 (isinstance(y, ast.Attribute) and y.attr == 'st_mtime'))
                       and contains(at.right, lambda y: isinstance(y, ast.Name) and y.id == 'expire_time'), True)
        ctx.check(ok, 'cleanup_lockdir:only-older', 'only lock files with mtime < now - max_lock_time are unlinked', cl, x,
                  fail='cleanup_lockdir unlinks lock files that are not older than max_lock_time')
        ok2 = g.guarded(n, lambda at: at.mentions(lambda y: is_call(y, 'endswith')), True)
        ctx.check(ok2, 'cleanup_lockdir:only-suffix', 'only files ending with the lock suffix are unlinked', cl, x)
    ex = [v for v, sel in defs.of('expire_time')]
    ok = bool(ex) and all(isinstance(v, ast.BinOp) and isinstance(v.op, ast.Sub) and is_call(v.left, 'time.time') and
                          same(v.right, 'max_lock_time') for v in ex)
    ctx.check(ok, 'cleanup_lockdir:expire-time', 'expire_time = now - max_lock_time', cl)


@rule('C07.g', floor=5)
def c07g(ctx):
    """acquisition really acquires: _try_lock returns a LockFile on every normal exit, lock() is only left with the lock
    held, close() closes the handle, and locking is only disabled when explicitly asked for"""
    for qn in (LOCK + ':FileLock._try_lock', LOCK + ':SemLock._try_lock'):
        fn = ctx.fn(qn)
        g = fn.cfg
        ok = True
        fdefs = Defs(fn.node)
        for p in g.preds()[g.EXIT]:
            st = g.stmt[p]
            v = st.value if isinstance(st, ast.Return) else None
            if isinstance(v, ast.Name):
                ds = fdefs.of(v.id)
                v = ds[0][0] if ds and all(is_call(d[0], 'LockFile') and d[1] is None for d in ds) else v
            ok = ok and isinstance(st, ast.Return) and is_call(v, 'LockFile')
        ctx.check(ok and bool(g.preds()[g.EXIT]), fn.short + ':returns-lock', 'every normal exit of _try_lock returns a LockFile(...) (no fall-through None)', fn,
                  fail='_try_lock can return without a LockFile: FileLock.lock() marks the lock as held although nothing was locked')
    lk = ctx.fn(LOCK + ':FileLock.lock')
    g = lk.cfg
    ok = True
    for p in g.preds()[g.EXIT]:
        lab = g.label.get((p, g.EXIT))
        held = lab is not None and not isinstance(lab[0], str) and any(at.op is None and same(at.expr, 'self._locked') and pol for at, pol in implied(lab[0], lab[1]))
        ok = ok and held
    ctx.check(ok and bool(g.preds()[g.EXIT]), 'FileLock.lock:exit-only-when-locked', 'lock() returns only over the loop exit `self._locked` (otherwise it raises LockTimeout)', lk,
              fail='lock() can return while self._locked is false: the `with` body runs without the lock')
    tr = [x for x in lk.walk() if is_call(x, 'self._try_lock')]
    ok = bool(tr) and all(g.guarded(g.node_for(x), lambda at: at.op is None and same(at.expr, 'self._locked'), False) for x in tr)
    ctx.check(ok, 'FileLock.lock:tries-while-unlocked', 'lock attempts are made while the lock is not held', lk)
    cl = ctx.fn(LF + ':LockFile.close')
    g = cl.cfg
    closes = g.find(lambda x: is_call(x, 'self._fp.close'))
    ok = bool(closes) and all(g.guarded(n, lambda at: at.op == '==' and 'self._fp' in at.text and 'None' in at.text, False) for n, x in closes)
    reach = bool(closes) and all(n in g.reachable(0) for n, x in closes)
    ctx.check(ok and reach, 'LockFile.close:closes-handle', 'close() closes the handle whenever one is open (closing releases the flock)', cl,
              fail='LockFile.close() does not close an open handle: the lock is never released by close()')
    tl = ctx.fn('mapproxy/cache/base.py:TileLocker.lock')
    g = tl.cfg
    dummies = g.find(lambda x: is_call(x, 'DummyLock'))
    ok = True
    for n, x in dummies:
        guards = [at for at, pol in g.guards_of(n) if pol]
        okd = False
        for at in guards:
            e = at.expr if at.op is None else None
            if e is not None and is_call(e, 'getattr') and len(e.args) == 3 and const_value(e.args[2], 1) is False and \
                    const_value(e.args[1]) == 'locking_disabled':
                okd = True
        ok = ok and okd
    ctx.check(ok, 'TileLocker.lock:dummy-only-if-disabled', 'a DummyLock is handed out only if `locking_disabled` was set explicitly (default False)', tl,
              fail='TileLocker.lock() hands out a DummyLock by default: tiles are created without any lock')
    fl = [x for x in tl.walk() if is_call(x, 'FileLock')]
    ok = bool(fl) and all(same(x.args[0], 'lock_filename') and unparse(keyword(x, 'timeout')) == 'self.lock_timeout' for x in fl)
    ctx.check(ok, 'TileLocker.lock:file-lock', 'otherwise a FileLock on the tile\'s lock file with the configured timeout', tl)


@rule('C07.h', floor=3)
def c07h(ctx):
    """the seed cache lock (one sqlite lock file, holders identified by pid): a holder's entry is removed by somebody else only
    when its process is gone.  is_running(pid) answers "not running" for ESRCH alone -- EPERM means the process exists but belongs
    to another user -- and _poll removes a foreign entry only on that answer"""
    CL = 'mapproxy/seed/cachelock.py'
    fn = ctx.fn(CL + ':is_running')
    g = fn.cfg
    falses = [n for n in g.find_stmts(lambda s: isinstance(s, ast.Return) and const_value(s.value, 1) is False)]
    esrch = lambda at: at.op == '==' and 'errno' in at.text and 'ESRCH' in at.text
    ok = bool(falses) and all(g.guarded(n, esrch, True) for n in falses)
    ctx.check(ok, 'is_running:dead-only-for-ESRCH', 'a process is reported as not running only when kill(pid, 0) fails with ESRCH', fn,
              fail='is_running() answers "not running" for errors other than ESRCH (e.g. EPERM: a live process of another user): the holder\'s '
                   'lock entry is deleted and a second seeder enters the locked section')
    kills = g.find(lambda x: is_call(x, 'os.kill') and len(x.args) == 2 and const_value(x.args[1]) == 0)
    ctx.check(len(kills) == 1, 'is_running:signal-0', 'the probe is os.kill(pid, 0)', fn)
    po = ctx.fn(CL + ':CacheLocker._poll')
    g = po.cfg
    rm = g.find(lambda x: is_call(x, 'self._remove_lock'))
    alive = lambda at: at.op is None and is_call(at.expr, 'is_running')
    ok = bool(rm) and all(g.guarded(n, alive, False) for n, x in rm)
    ctx.check(ok, 'CacheLocker._poll:removes-dead-only', 'entries of other holders are removed only when is_running() is false', po,
              fail='_poll removes the lock entry of a holder without finding its process gone')


@rule('C07.i', floor=2)
def c07i(ctx):
    """shared rule, re-evaluated for this property: taking a lock fails only with a timeout -- the sweep of the lock directory that
    TileLocker.lock runs before it creates its FileLock tolerates lock files that their holders remove (release) while it looks at
    them (C08.f); otherwise a waiter fails with FileNotFoundError although the lock it wanted was free"""
    from ..engine import run_property
    sub = run_property(ctx.repo, 'C08', ctx.tier, only={'C08.f'})
    for er in sub.errors:
        raise Undecided('shared rule %s: %s' % er)
    for o in sub.obs:
        (ctx.ok if o.status == 'ok' else ctx.bad)('%s:%s' % (o.rule, o.construct), o.msg, o.where)
    ctx.stats['functions'] |= sub.stats['functions']


@rule('C07.j', floor=3)
def c07j(ctx):
    """the seed cache lock decides over the *whole* queue: _poll looks at every entry in front of the caller.  The entries are read
    before anything re-uses the cursor -- removing the entry of a dead process executes a statement on the cursor, and a loop that
    iterates over the cursor itself ends right there: entries of live processes further down are never seen and the caller enters
    next to them (D52).  And the caller's own entry means "my turn" only while no live entry was seen before it"""
    CL = 'mapproxy/seed/cachelock.py'
    po = ctx.fn(CL + ':CacheLocker._poll')
    cur = po.params[1]
    loops = [x for x in po.walk() if isinstance(x, (ast.For, ast.comprehension))]
    over_queue = []
    for lp in loops:
        it = lp.iter
        direct = isinstance(it, ast.Name) and it.id == cur or (is_call(it, 'iter') and it.args and same(it.args[0], cur))
        snapshot = (is_call(it, cur + '.fetchall') or (is_call(it, 'list', 'tuple', 'sorted') and it.args and
                    (same(it.args[0], cur) or is_call(it.args[0], cur + '.fetchall'))))
        if not snapshot and isinstance(it, ast.Name):
            d = [s for s in po.walk() if isinstance(s, ast.Assign) and same(s.targets[0], it.id)]
            snapshot = bool(d) and all(is_call(s.value, cur + '.fetchall') or (is_call(s.value, 'list', 'tuple') and s.value.args and
                                       same(s.value.args[0], cur)) for s in d)
        if direct or snapshot:
            over_queue.append((lp, direct))
    if not over_queue:
        raise Undecided('CacheLocker._poll: loop over the lock entries not found')
    for lp, direct in over_queue:
        body = lp.body if isinstance(lp, ast.For) else []
        reuse = [x for st in body for x in ast.walk(st) if isinstance(x, ast.Name) and x.id == cur and isinstance(x.ctx, ast.Load)]
        ctx.check(not (direct and reuse), 'CacheLocker._poll:queue-read-before-cursor-reuse',
                  'the entries are fetched (fetchall/list) before the loop body executes statements on the cursor', po, lp,
                  fail='_poll iterates over the cursor and re-uses it inside the loop (%s): the first removed entry ends the iteration and '
                       'live entries behind it are not seen' % unparse(getattr(reuse[0], '_parent', reuse[0]))[:50] if reuse else '')
    g = po.cfg
    mine = g.find_stmts(lambda s: isinstance(s, ast.Return) and const_value(s.value, 1) is True)
    inloop = [n for n in mine if enclosing(g.stmt[n], ast.For) is not None]
    if not inloop:
        raise Undecided('CacheLocker._poll: the "my turn" return inside the loop was not found')
    flags = {unparse(s.targets[0]) for s in po.walk() if isinstance(s, ast.Assign) and const_value(s.value, 1) is True and
             isinstance(s.targets[0], ast.Name)}
    noact = lambda at: at.op is None and unparse(at.expr) in flags
    for n in inloop:
        ctx.check(g.guarded(n, noact, False), 'CacheLocker._poll:my-turn-only-without-live-entry-before',
                  'the own entry grants the lock only if no live entry came before it', po, g.stmt[n],
                  fail='_poll grants the lock at the caller\'s own entry although a live entry may precede it')
    sets = g.find_stmts(lambda s: isinstance(s, ast.Assign) and unparse(s.targets[0]) in flags and const_value(s.value, 1) is True)
    alive = lambda at: at.op is None and is_call(at.expr, 'is_running')
    ctx.check(bool(sets) and all(g.guarded(n, alive, True) for n in sets), 'CacheLocker._poll:live-entry-recorded',
              'every entry whose process is running is recorded as a live entry', po,
              fail='_poll does not record live entries')
