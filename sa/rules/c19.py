"""C19 -- compact bundles stay structurally valid, and defragmentation loses nothing.
Decided: writers and readers of the bundle format agree -- every struct.unpack reads
exactly calcsize bytes, the record size word has one format on all sides, the V2 index
entry uses one shift constant in writer and reader, V1 entries are 5-byte slices on both
sides, header formats match the header tuples, the in-place header updates of V2 sit on
field boundaries (C19.a); defragmentation copies all 128x128 slots into the temporary
bundle before it removes the original and renames only if something was stored (C19.c);
plus the shared addressing/ordering/locking rules C05.c, C06.c, C06.d, C08.d (re-run here as
C19.d).
Added in round 4: a removed tile leaves an empty index entry (C19.f); bundle files come into
existence through write_atomic (C19.d, shared C06.a).
Added in round 5: the temporary bundle of a defragmentation starts empty (C19.g); the bundle lock
file is removed while held (C19.h, shared C07.c)."""
import ast
import re
import struct

from ..engine import rule, run_property
from ..model import Undecided
from ..cfg import same, dotted, call_name, is_call, simple_name, unparse, const_value, contains, enclosing
from ..flow import Canon, Defs, depends, try_const, consteval, NotConst
from ..util import keyword, returns_of, calls_in, inside, order_key

NOT_DECIDED = ('byte-level validity of a bundle after an arbitrary history; the size accounting behind the '
               'fragmentation estimate (informational only); file growth')

COMPACT = 'mapproxy/cache/compact.py'
DEFRAG = 'mapproxy/script/defrag.py'


def _fmt(e, repo, mod):
    """struct format of an expression: literal, module constant, or Struct object constant"""
    v = try_const(e, repo, mod)
    if isinstance(v, str):
        return v
    if isinstance(e, ast.Name):
        m2, ex = repo.const_expr(mod, e.id)
        if ex is not None and is_call(ex, 'struct.Struct', 'Struct') and ex.args:
            return try_const(ex.args[0], repo, m2)
    if isinstance(e, ast.BinOp) and isinstance(e.op, ast.Mod):
        return None
    return None


def _struct_calls(fn, repo, mod):
    """[(kind, fmt, call)] kind in pack/unpack; handles struct.pack(F, ..), S.pack(..)"""
    out = []
    for c in fn.walk():
        if not isinstance(c, ast.Call) or not isinstance(c.func, ast.Attribute) or c.func.attr not in ('pack', 'unpack'):
            continue
        base = c.func.value
        if isinstance(base, ast.Name) and base.id == 'struct':
            f = _fmt(c.args[0], repo, mod) if c.args else None
            out.append((c.func.attr, f, c, c.args[1:] if c.args else []))
        else:
            f = _fmt(base, repo, mod)
            out.append((c.func.attr, f, c, c.args))
    return out


@rule('C19.a', floor=20)
def c19a(ctx):
    repo = ctx.repo
    mod = repo.mod(COMPACT)
    n_unpack = 0
    size_word_formats = {}
    for fn in sorted(repo.fns_in(COMPACT + ':'), key=lambda f: f.qn):
        for kind, f, c, rest in _struct_calls(fn, repo, mod):
            if kind != 'unpack':
                continue
            n_unpack += 1
            construct = '%s:unpack@%s' % (fn.short, f)
            if f is None:
                ctx.bad(construct, 'unpack with a non-constant format %s' % unparse(c)[:60], fn, c)
                continue
            data = rest[0] if rest else None
            # bytes provided: read(N) [+ b'...' padding]
            nbytes = None
            if data is not None:
                total = 0
                okform = True
                parts = [data]
                if isinstance(data, ast.BinOp) and isinstance(data.op, ast.Add):
                    parts = [data.left, data.right]
                for p in parts:
                    if is_call(p, 'read') and p.args:
                        v = try_const(p.args[0], repo, mod)
                        okform = okform and isinstance(v, int)
                        total += v if isinstance(v, int) else 0
                    elif isinstance(p, ast.Constant) and isinstance(p.value, bytes):
                        total += len(p.value)
                    else:
                        okform = False
                nbytes = total if okform else None
            if nbytes is None:
                ctx.note('%s: unpack argument %s not of the form read(N)' % (fn.qn, unparse(data) if data is not None else '?'))
                continue
            ctx.check(struct.calcsize(f) == nbytes, construct,
                      'unpack(%r) receives exactly calcsize = %d bytes' % (f, struct.calcsize(f)), fn, c,
                      fail='unpack(%r) needs %d bytes but %d are read' % (f, struct.calcsize(f), nbytes))
    if n_unpack < 6:
        raise Undecided('only %d struct.unpack sites found in compact.py' % n_unpack)
    # record size word: same format on all sides
    writers = []
    for qn in (COMPACT + ':BundleDataV1.append_tile', COMPACT + ':BundleV2._append_tile'):
        fn = ctx.fn(qn)
        for kind, f, c, rest in _struct_calls(fn, repo, mod):
            if kind == 'pack' and rest and contains(rest[0], lambda x: (isinstance(x, ast.Name) and x.id == 'size') or is_call(x, 'len')) \
                    and len(rest) == 1 and f and len(f.lstrip('<>=!@')) == 1:
                writers.append((fn, f, c))
    readers = []
    for qn in (COMPACT + ':BundleDataV1.read_size', COMPACT + ':BundleDataV1.read_tile', COMPACT + ':BundleDataV1.append_tile'):
        fn = ctx.fn(qn)
        if fn.name != 'read_size':
            fn = repo.with_inlined(fn, ['read_size'])       # a reader may get the size word through read_size()
        for kind, f, c, rest in _struct_calls(fn, repo, mod):
            if kind == 'unpack' and f and len(f.lstrip('<>=!@')) == 1:
                readers.append((fn, f, c))
    fmts = {f for _, f, _ in writers + readers}
    for fn, f, c in writers + readers:
        ctx.check(len(fmts) == 1 and f.startswith('<') and struct.calcsize(f) == 4, '%s:size-word' % fn.short,
                  'the record size word is a 4-byte little-endian %r on every side' % f, fn, c,
                  fail='record size word formats differ between writers and readers: %s' % sorted(fmts))
    if len(writers) < 2 or len(readers) < 3:
        raise Undecided('size word: %d writers, %d readers found' % (len(writers), len(readers)))
    # V2 index entry: shift constants
    # every place that names the boundary between the offset and the size part: shift amounts and low-bit masks (2**k - 1)
    shifts = []
    roles = set()
    for qn, side in ((COMPACT + ':BundleV2._update_tile_offset', 'write'), (COMPACT + ':BundleV2._tile_offset_size', 'read')):
        fn = ctx.fn(qn)
        for n in fn.walk():
            if isinstance(n, ast.BinOp) and isinstance(n.op, (ast.LShift, ast.RShift)):
                shifts.append((fn, type(n.op).__name__, try_const(n.right, repo, mod), n))
                roles.add((side, 'size' if isinstance(n.op, ast.RShift) or side == 'write' else 'offset'))
            elif isinstance(n, ast.BinOp) and isinstance(n.op, ast.BitAnd):
                for m in (n.left, n.right):
                    mv = try_const(m, repo, mod)
                    if isinstance(mv, int) and mv > 0 and (mv & (mv + 1)) == 0:
                        shifts.append((fn, 'Mask', mv.bit_length(), n))
                        roles.add((side, 'offset'))
    vals = {v for _, _, v, _ in shifts}
    for fn, op, v, n in shifts:
        ctx.check(len(vals) == 1 and isinstance(v, int) and 0 < v < 64, '%s:shift-%s' % (fn.short, op),
                  'V2 index entries split size/offset at bit %s in writer and reader' % v, fn, n,
                  fail='V2 index entry shift constants differ: %s' % sorted(str(x) for x in vals))
    if ('write', 'size') not in roles:
        # no shift on the writer side at all: the entry is not built as offset + (size << k) (reported below as entry-form)
        roles.add(('write', 'size'))
    if not {('write', 'size'), ('read', 'size'), ('read', 'offset')} <= roles:
        raise Undecided('V2 index entry: writer shift, reader shift and reader offset extraction expected, found %s' % sorted(roles))
    # reader: offset = val - (size << k)  (the complement of writer offset + (size << k))
    fn = ctx.fn(COMPACT + ':BundleV2._tile_offset_size')
    # closed form of the (offset, size) result: offset is the entry minus / masked by the size part, size is the entry shifted down
    pairs = [fn.canon.expr(r.value) for r in returns_of(fn.node) if r.value is not None]
    pairs = [p for p in pairs if isinstance(p, ast.Tuple) and len(p.elts) == 2 and not all(isinstance(e, ast.Constant) for e in p.elts)]
    ok = bool(pairs)
    for p in pairs:
        off, size = p.elts
        ok = ok and isinstance(size, ast.BinOp) and isinstance(size.op, ast.RShift)
        entry = unparse(size.left) if ok else None
        ok = ok and isinstance(off, ast.BinOp) and (
            (isinstance(off.op, ast.Sub) and unparse(off.left) == entry and isinstance(off.right, ast.BinOp) and isinstance(off.right.op, ast.LShift)
             and unparse(off.right.left) == unparse(size)) or
            (isinstance(off.op, ast.BitAnd) and entry in (unparse(off.left), unparse(off.right))))
    ctx.check(ok, 'BundleV2._tile_offset_size:offset-complement', 'reader recovers offset = value - (size << k) (or value & low-bit mask), size = value >> k', fn)
    fnw = ctx.fn(COMPACT + ':BundleV2._update_tile_offset')
    # closed form of what is packed: offset + (size << k), in either order, of the parameters offset and size
    packs = [x for x in fnw.walk() if isinstance(x, ast.Call) and isinstance(x.func, ast.Attribute) and x.func.attr == 'pack' and x.args]
    ok = bool(packs)
    for x in packs:
        v = fnw.canon.expr(x.args[-1])
        ok = ok and isinstance(v, ast.BinOp) and isinstance(v.op, (ast.Add, ast.BitOr))
        if ok:
            sides = [v.left, v.right]
            sh = [e for e in sides if isinstance(e, ast.BinOp) and isinstance(e.op, ast.LShift)]
            pl = [e for e in sides if isinstance(e, ast.Name)]
            ok = len(sh) == 1 and len(pl) == 1 and pl[0].id == 'offset' and same(sh[0].left, 'size')
    ctx.check(ok, 'BundleV2._update_tile_offset:entry-form', 'writer stores offset + (size << k)', fnw,
              fail='the V2 index entry is not packed as one 64-bit value offset + (size << k): the reader (value >> k, value & mask) and the overflow '
                   'check of the pack (a size that does not fit its bits is refused, not truncated) assume exactly that form')
    # header tuples vs formats
    for hdr, fmtname in (('BUNDLE_V1_HEADER', 'BUNDLE_V1_HEADER_STRUCT_FORMAT'), ('BUNDLE_V2_HEADER', 'BUNDLE_V2_HEADER_STRUCT_FORMAT')):
        he = mod.constants.get(hdr)
        f = try_const(ast.Name(id=fmtname), repo, mod)
        nfields = len(struct.unpack(f, b'\0' * struct.calcsize(f))) if isinstance(f, str) else None
        n = len(he.elts) if isinstance(he, (ast.List, ast.Tuple)) else None
        ctx.check(n is not None and n == nfields, 'compact:%s-fields' % hdr,
                  '%s has %s entries = fields of %r' % (hdr, n, f), (COMPACT, he.lineno if he is not None else 0),
                  fail='%s has %s entries but %r has %s fields (struct.error on every store)' % (hdr, n, f, nfields))
    # V1 append_tile header read = header size
    fn = ctx.fn(COMPACT + ':BundleDataV1.append_tile')
    # (already covered by unpack/calcsize rule)
    # V2 in-place header updates on field boundaries
    fn = ctx.fn(COMPACT + ':BundleV2._update_metadata')
    f2 = try_const(ast.Name(id='BUNDLE_V2_HEADER_STRUCT_FORMAT'), repo, mod)
    bounds = _field_bounds(f2)
    g = fn.cfg
    seq = sorted([x for x in fn.walk() if is_call(x, 'seek') or (isinstance(x, ast.Call) and isinstance(x.func, ast.Attribute)
                                                                 and x.func.attr in ('pack', 'unpack'))], key=order_key)
    cur = None
    pairs = []
    for x in seq:
        if is_call(x, 'seek'):
            cur = try_const(x.args[0], repo, mod)
        else:
            base = x.func.value        # struct.pack(F, ..) / S.pack(..) with S = struct.Struct(F)
            f = (_fmt(x.args[0], repo, mod) if x.args else None) if isinstance(base, ast.Name) and base.id == 'struct' else _fmt(base, repo, mod)
            pairs.append((cur, f, x))
    want_fields = {'max record size': 2, 'file size': 5}
    for off, f, x in pairs:
        ok = off in bounds and f is not None and struct.calcsize(f) == bounds[off][1]
        ctx.check(ok, 'BundleV2._update_metadata:field@%s' % off,
                  'in-place header update at offset %s with %r sits on field %s of %r' % (off, f, bounds.get(off, ('?',))[0], f2),
                  fn, x, fail='header update at offset %s with %r does not match a field boundary/width of %r (fields: %s)'
                  % (off, f, f2, {k: v for k, v in bounds.items()}))
    offs = {off for off, f, x in pairs}
    ctx.check(offs == {bounds_of_index(bounds, 2), bounds_of_index(bounds, 5)}, 'BundleV2._update_metadata:fields',
              'the updated fields are #2 (max record size) and #5 (file size) of the header tuple', fn,
              fail='the updated header offsets %s are not those of fields #2 and #5' % sorted(offs, key=str))


def _field_bounds(fmt):
    """offset -> (field index, width)"""
    out = {}
    body = fmt.lstrip('<>=!@')
    prefix = fmt[:len(fmt) - len(body)]
    fields = []
    for cnt, ch in re.findall(r'(\d*)([a-zA-Z])', body):
        fields += [ch] * (int(cnt) if cnt else 1)
    off = 0
    for i, ch in enumerate(fields):
        w = struct.calcsize(prefix + ch)
        out[off] = (i, w)
        off += w
    return out


def bounds_of_index(bounds, idx):
    for off, (i, w) in bounds.items():
        if i == idx:
            return off
    return None


@rule('C19.c', floor=6)
def c19c(ctx):
    fn = ctx.fn(DEFRAG + ':defrag_compact_cache')
    repo = ctx.repo
    mod = repo.mod(DEFRAG)
    cmod = repo.mod(COMPACT)
    g = fn.cfg
    defs = Defs(fn.node)
    loads = g.find(lambda x: is_call(x, 'b.load_tiles', 'load_tiles'))
    stores = g.find(lambda x: is_call(x, 'defb.store_tiles', 'store_tiles'))
    removes = g.find(lambda x: is_call(x, 'os.remove', 'os.unlink') and x.args and
                     contains(x.args[0], lambda y: isinstance(y, ast.Name) and y.id == 'bundle_file'))
    renames = g.find(lambda x: is_call(x, 'os.rename', 'os.replace'))
    if not (loads and stores and removes and renames):
        ctx.bad('defrag:shape', 'copy loop / remove / rename not found (loads %d stores %d removes %d renames %d)' % (
            len(loads), len(stores), len(removes), len(renames)), fn)
        return
    # the copy loop is complete before the original is removed: the remove is not inside the loop and the loop
    # statement dominates it
    loop = enclosing(stores[0][1], ast.For)
    outer = loop
    while enclosing(outer, ast.For) is not None and enclosing(outer, ast.For) is not enclosing(removes[0][1], ast.For):
        outer = enclosing(outer, ast.For)
    ln = g.node_of.get(id(outer))
    for n, r in removes:
        ok = not inside(r, outer) and ln is not None and g.dominates(ln, n) and r.lineno > outer.end_lineno
        ctx.check(ok, 'defrag:copy-before-remove', 'the original bundle is removed only after the copy loop has finished', fn, r,
                  fail='the original bundle is removed before/while its tiles are copied: a crash or error loses tiles')
    # full range
    rng = []
    for x in fn.walk():
        if is_call(x, 'range') and (inside(x, outer)):
            rng.append(try_const(x.args[0], repo, mod) if len(x.args) == 1 else None)
    W = try_const(ast.Name(id='BUNDLEX_V1_GRID_WIDTH'), repo, cmod)
    H = try_const(ast.Name(id='BUNDLEX_V1_GRID_HEIGHT'), repo, cmod)
    W2 = try_const(ast.Name(id='BUNDLE_V2_GRID_WIDTH'), repo, cmod)
    ctx.check(len(rng) == 2 and all(r == W == H == W2 for r in rng), 'defrag:full-range',
              'all %sx%s slots of a bundle are visited' % (W, H), fn,
              fail='the copy loop ranges over %s but bundles have %sx%s slots: tiles outside are lost' % (rng, W, H))
    # relative coordinates Tile((x, y, 0))
    tiles = [x for x in fn.walk() if is_call(x, 'Tile') and inside(x, outer)]

    def loopvar(e):
        if not isinstance(e, ast.Name):
            return None
        for n in fn.walk():
            if isinstance(n, (ast.For, ast.comprehension)) and isinstance(n.target, ast.Name) and n.target.id == e.id \
                    and is_call(n.iter, 'range'):
                return n
        return None
    ok = bool(tiles)
    for t in tiles:
        a = t.args[0] if t.args else None
        ok = ok and isinstance(a, ast.Tuple) and len(a.elts) == 3 and loopvar(a.elts[0]) is not None and \
            loopvar(a.elts[1]) is not None and loopvar(a.elts[0]) is not loopvar(a.elts[1]) and const_value(a.elts[2], 1) == 0
    ctx.check(ok, 'defrag:relative-coords', 'slots are addressed as Tile((i, j, 0)) with i, j from two different full-range loops', fn)
    # only loaded tiles are stored, all of them
    # renames guarded by stored_tiles
    for n, r in renames:
        ok = g.guarded(n, lambda at: at.op is None and same(at.expr, 'stored_tiles'), True)
        ctx.check(ok, 'defrag:rename-if-stored', 'the temporary bundle is renamed into place only if tiles were stored', fn, r)
    # first rename: tmp .bundle -> bundle_file
    r0 = renames[0][1]
    ok = contains(r0.args[0], lambda y: isinstance(y, ast.Name) and y.id == 'tmp_bundle') and same(r0.args[1], 'bundle_file')
    ctx.check(ok, 'defrag:rename-direction', 'rename(temporary bundle, original name)', fn, r0)
    # temp bundle created with the original's offset
    dd = [v for v, sel in defs.of('defb')]
    bd = [v for v, sel in defs.of('b')]
    ok = bool(dd) and bool(bd) and all(len(v.args) > 1 and unparse(v.args[1]) == unparse(bd[0].args[1]) for v in dd if isinstance(v, ast.Call))
    ctx.check(ok, 'defrag:same-offset', 'the temporary bundle is created with the original bundle\'s offset', fn)
    # stored_tiles set when storing
    st_true = [n for n in fn.walk() if isinstance(n, ast.Assign) and unparse(n.targets[0]) == 'stored_tiles' and const_value(n.value) is True]
    ok = bool(st_true) and all(enclosing(s, ast.If) is enclosing(stores[0][1], ast.If) for s in st_true)
    ctx.check(ok, 'defrag:stored-flag', 'stored_tiles is set exactly where tiles are stored', fn)


@rule('C19.d', floor=4)
def c19d(ctx):
    """shared rules, re-evaluated for this property"""
    for prop, rules in (('C05', {'C05.c', 'C05.j', 'C05.l'}), ('C06', {'C06.a', 'C06.c', 'C06.d'}), ('C08', {'C08.d'})):
        sub = run_property(ctx.repo, prop, ctx.tier, only=rules)
        for e in sub.errors:
            raise Undecided('shared rule %s: %s' % e)
        for o in sub.obs:
            ob = o
            # (C06.a: who may open a storage file for writing -- a bundle file comes into existence complete, through write_atomic;
            # only the writers of the compact cache are of interest here)
            if o.rule == 'C06.a' and not (o.where and 'compact' in str(o.where)):
                continue
            if o.status == 'ok':
                ctx.ok('%s:%s' % (o.rule, o.construct), o.msg, o.where)
            else:
                ctx.bad('%s:%s' % (o.rule, o.construct), o.msg, o.where)
        ctx.stats['functions'] |= sub.stats['functions']


@rule('C19.e', floor=4)
def c19e(ctx):
    """in-place header rewrite of the V1 data file reads and writes the header at offset 0; defrag renames the index file
    of the temporary bundle onto the original index name"""
    fn = ctx.fn(COMPACT + ':BundleDataV1.append_tile')
    seq = sorted([x for x in fn.walk() if is_call(x, 'self._fh.seek', 'self._fh.read', 'self._fh.write')], key=order_key)
    hdr_ops = []
    cfh = Canon(fn)
    for i, x in enumerate(seq):
        form = cfh.expr(x.args[0]) if is_call(x, 'self._fh.write') and x.args else x
        is_hdr = contains(form, lambda y: isinstance(y, ast.Name) and y.id == 'BUNDLE_V1_HEADER_STRUCT_FORMAT') or \
            (is_call(x, 'self._fh.read') and x.args and try_const(x.args[0], ctx.repo, ctx.repo.mod(COMPACT)) == 60)
        par = getattr(x, '_parent', None)
        while par is not None and not is_hdr and not isinstance(par, ast.stmt):
            if contains(par, lambda y: isinstance(y, ast.Name) and y.id == 'BUNDLE_V1_HEADER_STRUCT_FORMAT'):
                is_hdr = True
            par = getattr(par, '_parent', None)
        if is_hdr and not is_call(x, 'self._fh.seek'):
            prev = seq[i - 1] if i else None
            hdr_ops.append((x, prev))
    ok = len(hdr_ops) == 2
    for x, prev in hdr_ops:
        ok = ok and prev is not None and is_call(prev, 'self._fh.seek') and try_const(prev.args[0]) == 0 and \
            (len(prev.args) == 1 or same(prev.args[1], 'os.SEEK_SET'))
    ctx.check(ok, 'BundleDataV1.append_tile:header-at-zero', 'the header is read from and written back to offset 0 (seek(0) directly before each)', fn,
              fail='the V1 header is read or rewritten at another position than offset 0: the record just appended or the header is overwritten')
    defs = Defs(fn.node)
    upd = [s for s in fn.walk() if isinstance(s, (ast.Assign, ast.AugAssign)) and isinstance(getattr(s, 'targets', [getattr(s, 'target', None)])[0], ast.Subscript)
           and unparse(getattr(s, 'targets', [getattr(s, 'target', None)])[0].value) == 'header']
    idx = sorted({const_value(getattr(s, 'targets', [getattr(s, 'target', None)])[0].slice) for s in upd})
    ctx.check(idx == [2, 4, 5], 'BundleDataV1.append_tile:header-fields', 'fields #2 (largest tile), #4 (tile count) and #5 (bundle size) are maintained', fn)
    ret = returns_of(fn.node)
    ok = bool(ret) and all(isinstance(r.value, ast.Tuple) and [unparse(e) for e in r.value.elts] == ['offset', 'size'] for r in ret)
    offs = [v for v, sel in defs.of('offset') if is_call(v, 'self._fh.tell')]
    ctx.check(ok and bool(offs), 'BundleDataV1.append_tile:returns-record-offset', 'returns (offset of the record = tell() at the end of the file, size)', fn)
    df = ctx.fn(DEFRAG + ':defrag_compact_cache')
    rn = sorted([x for x in df.walk() if is_call(x, 'os.rename', 'os.replace')], key=order_key)
    ok = len(rn) == 2
    if ok:
        cf = Canon(df)
        a, b = (cf.expr(x) for x in rn[1].args)
        tmp = cf.text(rn[0].args[0]).rsplit('+', 1)[0]          # stem of the temporary bundle (source of the data-file rename)
        final = cf.text(rn[0].args[1])                           # the original bundle file (its destination)
        at, bt = unparse(a).replace(' ', ''), unparse(b).replace(' ', '')
        ok = at.startswith(tmp) and 'bundlx' in at and final in bt and tmp not in bt and final not in at
    ctx.check(ok, 'defrag:index-rename-direction', 'the temporary index file is renamed onto the original index name', df,
              fail='defrag renames the index file in the wrong direction')


@rule('C19.f', floor=1)
def c19f(ctx):
    """after a remove the index entry is empty: BundleIndexV1.remove_tile_offset writes the all-zero entry, or the entry a fresh index
    holds for that tile -- the offset of the tile's zero-size record in the initial data area, header + 4 * (x * grid height + y), the
    stride of the 4-byte size records (BundleIndexV1._init_index).  Anything else points into the middle of another record or past the
    end of the file"""
    from ..util import poly_coeffs
    repo, mod = ctx.repo, ctx.repo.mod(COMPACT)
    fn = ctx.fn(COMPACT + ':BundleIndexV1.remove_tile_offset')
    writes = [x for x in fn.walk() if isinstance(x, ast.Call) and isinstance(x.func, ast.Attribute) and x.func.attr == 'write' and x.args]
    ok = bool(writes)
    detail = ''
    H = try_const(ast.Name(id='BUNDLEX_V1_GRID_HEIGHT'), repo, mod)
    hdr = try_const(ast.Name(id='BUNDLE_V1_HEADER_SIZE'), repo, mod)
    for w in writes:
        v = fn.canon.expr(w.args[0])
        c = try_const(v, repo, mod)
        if isinstance(c, bytes):
            good = len(c) == 5 and not any(c)
            detail = detail or ('' if good else 'writes the constant %r' % c)
        else:
            good = False
            e = v
            if isinstance(e, ast.Subscript) and isinstance(e.slice, ast.Slice) and e.slice.lower is None and try_const(e.slice.upper, repo, mod) == 5:
                e = e.value
                if isinstance(e, ast.Call) and isinstance(e.func, ast.Attribute) and e.func.attr == 'pack' and e.args:
                    try:
                        c0, co = poly_coeffs(e.args[-1], [fn.params[1], fn.params[2]], repo, mod)
                        good = c0 == hdr and co[fn.params[1]] == 4 * H and co[fn.params[2]] == 4
                        detail = detail or ('' if good else 'writes offset %s + %s*x + %s*y (fresh index: %s + %s*x + 4*y)' % (c0, co[fn.params[1]], co[fn.params[2]], hdr, 4 * H))
                    except Undecided:
                        pass
            if not good and not detail:
                detail = 'writes %s' % unparse(v)[:60]
        ok = ok and good
    ctx.check(ok, 'BundleIndexV1.remove_tile_offset:entry-empty', 'a removed tile leaves an empty index entry (zeros, or the tile\'s zero-size record)', fn,
              fail='remove_tile_offset %s: the entry of a removed tile points at something that is not an empty record' % detail)


@rule('C19.g', floor=2)
def c19g(ctx):
    """defragmenting changes no tile: the bundle that a rewritten bundle is collected in starts empty.  The temporary bundle has a
    fixed name in the cache directory, and an interrupted run leaves its files there; before the temporary bundle object of an
    iteration stores anything, files under that name have been removed (os.remove / os.unlink of a path built from the temporary
    name dominates the store)"""
    fn = ctx.fn(DEFRAG + ':defrag_compact_cache')
    g = fn.cfg
    defs = Defs(fn.node)
    tmp = [nm for nm, ds in defs.defs.items() if any(isinstance(v, ast.Call) and call_name(v) in ('os.path.join', 'join') and
                                                      any('tmp' in str(const_value(a, '')) for a in v.args) for v, sel in ds)]
    ctor = [(n, x) for n, x in g.find(lambda x: is_call(x, 'cache.bundle_class')) if x.args and unparse(x.args[0]) in tmp]
    if not tmp or not ctor:
        raise Undecided('defrag_compact_cache: temporary bundle not found')
    tb_objs = {unparse(g.stmt[n].targets[0]) for n, x in ctor if isinstance(g.stmt[n], ast.Assign)}
    stores = g.find(lambda x: isinstance(x, ast.Call) and isinstance(x.func, ast.Attribute) and x.func.attr in ('store_tiles', 'store_tile') and
                    unparse(x.func.value) in tb_objs)
    removes = g.find(lambda x: is_call(x, 'os.remove', 'os.unlink') and x.args and
                     (contains(x.args[0], lambda y: isinstance(y, ast.Name) and y.id in tmp) or
                      contains(fn.canon.expr(x.args[0]), lambda y: isinstance(y, ast.Constant) and 'tmp' in str(y.value))))
    # a removal that lies on every path from the construction of the temporary bundle (or the start of the iteration) to its stores:
    # without the removing statements the stores are still reached only through the renames at the end of the previous iteration
    loops = [l for l in fn.walk() if isinstance(l, ast.For) and any(inside(x, l) for n, x in ctor)]
    before = [(n, x) for n, x in removes if loops and inside(x, loops[0]) and any(x.lineno < c.lineno for _, c in ctor)]
    exts = set()
    for n, x in before:
        lp = enclosing(x, ast.For)
        if lp is not None and lp is not loops[0] and isinstance(lp.iter, (ast.Tuple, ast.List)):
            exts |= {const_value(e) for e in lp.iter.elts}
        else:
            exts |= {str(const_value(y)) for y in ast.walk(fn.canon.expr(x.args[0])) if isinstance(y, ast.Constant) and isinstance(const_value(y), str)}
    ok = bool(stores) and bool(before) and any('.bundle' in str(e) for e in exts)
    ctx.check(ok, 'defrag_compact_cache:temporary-bundle-starts-empty', 'left-over files of the temporary bundle are removed before a bundle is rewritten into it', fn,
              fail='defrag_compact_cache stores into <cache_dir>/tmp_defrag without removing what an interrupted run left there: the tiles of '
                   'that bundle turn up at addresses of the next one')
    ok = any('.bundlx' in str(e) for e in exts)
    ctx.check(ok, 'defrag_compact_cache:temporary-index-starts-empty', 'the index file of the temporary (V1) bundle is removed as well', fn)


@rule('C19.h', floor=1)
def c19h(ctx):
    """shared rule C07.c, re-evaluated for this property: the writers of a bundle exclude each other through
    FileLock(<bundle>.lck, remove_on_unlock=True); the lock file is removed *while the lock is still held* (the descriptor is closed by
    the removal path only afterwards / on failure).  Closed first, a second writer locks the old inode in the gap, the file is removed
    under it, a third writer creates and locks a new file -- two writers append to one bundle and one record overwrites the other"""
    from ..engine import share
    share(ctx, 'C07', {'C07.c'})


@rule('C19.h', floor=1)
def c19h(ctx):
    """shared rule C07.b, re-evaluated for this property: two writers never append to one bundle at the same offset -- the bundle lock
    is released by unlinking its file, so the acquisition checks *after* flock that the path still names the locked inode (checked
    before, a writer can lock an orphaned file while another locks the fresh one: both seek to the same end of file and one record
    overwrites the other, the index then holds a size that is not the recorded one)"""
    from ..engine import share
    share(ctx, 'C07', {'C07.b'})
