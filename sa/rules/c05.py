"""C05 -- every cache backend behaves like a map from tile address to bytes.
Decided: the addressing each backend uses is an injective, complete function of
(level, column, row, dimensions) and sibling code paths use the same address:
mixed-radix path digit groups (C05.a), every address component used in the path
(C05.b), compact bundle/slot addressing (C05.c), per-level dispatch (C05.d), SQL
placeholder/column/row-key agreement and batching (C05.e), zero is a valid address
component (C05.f), sibling API agreement (C05.g), replace-before-link for
single-colour tiles (C05.h), sqlite writes are committed (C05.i).
Added in round 4: every operation of a dimension-aware cache hands `dimensions` on to the locations
it computes (C05.o); the sanitiser of dimension values is an injective escape scheme (C05.p); a bulk
load / store of a per-level cache groups the tiles by level (C05.d); a store replaces the whole row
(C05.e).
Added in round 5: a bulk load of the per-level caches asks every level, no short circuit (C05.q).
Added in round 7: the colour that names the shared file of single-colour tiles tells a transparent palette
entry from an opaque one (C05.r, repair D53)."""
import ast
import re

from ..engine import rule, run_property
from ..model import Undecided
from ..cfg import (cexpr, same, dotted, call_name, is_call, simple_name, unparse, const_value, contains, find_all, enclosing,
                   enclosing_stmt, implied, all_atoms)
from ..flow import Canon, Defs, depends, consteval, try_const, NotConst, fmt_all_numeric
from ..decide import expr_table, table, ret_kind
from ..util import (calls_to, call_targets, str_variants, HOLE, keyword, returns_of, calls_in, poly_coeffs, inside, order_key)

NOT_DECIDED = ('history semantics: latest store wins, isolation of interleaved operations, actual bytes on disk, '
               'sqlite transaction behaviour')

PATH = 'mapproxy/cache/path.py'
FILE = 'mapproxy/cache/file.py'
COMPACT = 'mapproxy/cache/compact.py'
MBT = 'mapproxy/cache/mbtiles.py'
GPKG = 'mapproxy/cache/geopackage.py'


# ------------------------------------------------------------------ C05.a
def _digit_group(e, var):
    """match  int(v / B) | v // B | int(v) | int(v // B), optionally % M.
    returns (B, M) or None"""
    M = None
    if isinstance(e, ast.BinOp) and isinstance(e.op, ast.Mod):
        M = try_const(e.right)
        if not isinstance(M, int):
            return None
        e = e.left
    B = None
    if isinstance(e, ast.Call) and call_name(e) == 'int' and len(e.args) == 1:
        e = e.args[0]
        B = 1
    if isinstance(e, ast.BinOp) and isinstance(e.op, (ast.Div, ast.FloorDiv)):
        if B is None and isinstance(e.op, ast.Div):
            return None           # true division without int(): not an integer digit
        b = try_const(e.right)
        if not isinstance(b, int) or b <= 0:
            return None
        B = b
        e = e.left
    if B is None:
        return None
    if isinstance(e, ast.Name) and e.id == var:
        return (B, M)
    return None


def _groups(fn, var):
    out = []
    matched = set()
    for node in sorted([n for n in fn.walk() if isinstance(n, (ast.BinOp, ast.Call))], key=order_key):
        if any(inside(node, m) for m in matched):
            continue
        g = _digit_group(node, var)
        if g and (g[0] != 1 or g[1] is not None or True):
            # bare int(v) only counts as a group when used as a digit (inside a % format)
            out.append((g, node))
            matched.add(node)
    return out


@rule('C05.a', floor=6)
def c05a(ctx):
    """mixed-radix completeness of the digit groups of one coordinate"""
    targets = [(PATH + ':tile_location_tc', 3), (PATH + ':tile_location_mp', 2),
               ('mapproxy/client/tile.py:tilecache_path', 3)]
    for qn, ngroups in targets:
        fn = ctx.fn(qn)
        defs = Defs(fn.node)
        # coordinate locals: 3-unpack of tile.coord / tile_coord parameter
        coordvars = []
        for name, ds in defs.defs.items():
            for v, sel in ds:
                if isinstance(sel, int) and sel in (0, 1) and (unparse(v).endswith('coord')):
                    coordvars.append((sel, name))
        coordvars.sort()
        if len(coordvars) < 2:
            raise Undecided('%s: cannot find the x, y locals unpacked from the tile coordinate' % qn)
        for axis, var in coordvars:
            gs = _groups(fn, var)
            radix = sorted({g for g, n in gs}, key=lambda g: -g[0])
            construct = '%s:%s-digits' % (fn.short, 'xy'[axis])
            if len(radix) < 2:
                ctx.bad(construct, 'expected mixed-radix digit groups for coordinate %r, found %s' % (var, radix), fn)
                continue
            problems = []
            if radix[-1][0] != 1:
                problems.append('lowest group has divisor %d, not 1 (low digits lost)' % radix[-1][0])
            if radix[0][1] is not None:
                problems.append('highest group is taken modulo %d (high digits lost)' % radix[0][1])
            for (B1, M1), (B2, M2) in zip(radix, radix[1:]):
                if B1 % B2 != 0:
                    problems.append('divisor %d does not divide %d' % (B2, B1))
                elif M2 is None:
                    pass    # lower group without modulus already carries everything
                elif M2 < B1 // B2:
                    problems.append('group /%d %% %d covers only %d of the %d values below the next group /%d: '
                                    'two addresses share a path' % (B2, M2, M2, B1 // B2, B1))
            ctx.check(not problems, construct,
                      'digit groups %s of %r are an injective mixed-radix decomposition' % (radix, var), fn,
                      gs[0][1], fail='digit groups %s of %r are not injective: %s' % (radix, var, '; '.join(problems)))
    # fixed-width pieces when concatenated without separator
    fn = ctx.fn(FILE + ':FileCache._single_color_tile_location')
    joins = [c for c in fn.walk() if is_call(c, 'join') and isinstance(c.func, ast.Attribute)
             and isinstance(c.func.value, ast.Constant) and c.func.value.value == '']
    for j in joins:
        fmts = [n for n in ast.walk(j) if isinstance(n, ast.BinOp) and isinstance(n.op, ast.Mod)
                and isinstance(n.left, ast.Constant) and isinstance(n.left.value, str)]
        ok = bool(fmts) and all(re.fullmatch(r'%0[2-9][xX]', f.left.value) for f in fmts)
        ctx.check(ok, fn.short + ':colour-pieces',
                  'colour components concatenated without separator have a fixed zero-padded width', fn, j,
                  fail='colour components are concatenated without separator and without fixed width '
                       '(%s): two colours can share a file name' % [unparse(f) for f in fmts])
    if not joins:
        ctx.bad(fn.short + ':colour-pieces', "no ''.join(...) of fixed-width pieces found", fn)
    # separator-joined pieces must be numeric: lock file name
    fn = ctx.fn('mapproxy/cache/base.py:TileLocker.lock_filename')
    cf = Canon(fn)
    forms = [cf.expr(r.value) for r in returns_of(fn.node) if r.value is not None]
    for j in [c for e in forms for c in ast.walk(e) if is_call(c, 'join') and isinstance(c.func, ast.Attribute)
              and isinstance(c.func.value, ast.Constant) and c.func.value.value not in ('',)]:
        a = j.args[0] if j.args else None
        ok = a is not None and isinstance(a, ast.Call) and call_name(a) == 'map' and len(a.args) == 2 and \
            same(a.args[0], 'str') and unparse(a.args[1]).endswith('.coord')
        ok = ok or (a is not None and isinstance(a, (ast.GeneratorExp, ast.ListComp)) and len(a.generators) == 1 and not a.generators[0].ifs and
                    unparse(a.generators[0].iter).endswith('.coord') and
                    unparse(a.elt) in ('str(%s)' % unparse(a.generators[0].target), "'%%d' %% %s" % unparse(a.generators[0].target)))
        ctx.check(ok, fn.short + ':lock-name-pieces', 'lock name joins str() of all tile.coord elements with a '
                  'separator', fn, j, fail='lock name pieces are not str() of the complete tile.coord: %s' % unparse(j))


# ------------------------------------------------------------------ C05.b
def _location_pairs(ctx):
    lf = ctx.fn(PATH + ':location_funcs')
    pairs = []
    for r in returns_of(lf.node):
        if isinstance(r.value, ast.Tuple) and len(r.value.elts) == 2:
            # layout literal from the enclosing test
            layout = None
            st = enclosing(r, ast.If)
            if st is not None:
                for at, pol in all_atoms(st.test):
                    if at.op == '==':
                        for side in (at.left, at.right):
                            if isinstance(side, ast.Constant):
                                layout = side.value
            t, l = r.value.elts
            pairs.append((layout, t, l, r))
    return lf, pairs


def _coord_locals(defs, idx):
    out = set()
    for name, ds in defs.defs.items():
        for v, sel in ds:
            if sel == idx and unparse(v).endswith('.coord'):
                out.add(name)
    return out


@rule('C05.b', floor=6)
def c05b(ctx):
    """every address component is used in the tile path"""
    lf, pairs = _location_pairs(ctx)
    if len(pairs) < 6:
        raise Undecided('location_funcs returns %d (tile_fn, level_fn) pairs, expected 6' % len(pairs))
    for layout, t, l, r in pairs:
        if not isinstance(t, ast.Name):
            raise Undecided('tile location function of layout %r is not a plain name' % layout)
        fn = ctx.fn(PATH + ':' + t.id)
        defs = Defs(fn.node)
        locs = [v for v, sel in defs.of('tile.location')]
        if not locs:
            ctx.bad(fn.short + ':components', 'no assignment to tile.location found', fn)
            continue
        need = {}
        for k, nm in enumerate(('column', 'row', 'level')):
            names = _coord_locals(defs, k)
            need[nm] = (lambda names, k: (lambda x: (isinstance(x, ast.Name) and x.id in names) or
                                          (isinstance(x, ast.Subscript) and unparse(x.value).endswith('.coord')
                                           and const_value(x.slice) == k)))(names, k)
        need['file_ext'] = lambda x: isinstance(x, ast.Name) and x.id == 'file_ext'
        need['cache_dir'] = lambda x: isinstance(x, ast.Name) and x.id == 'cache_dir'
        need['dimensions'] = lambda x: is_call(x, 'dimensions_part') and x.args and \
            contains(x.args[0], lambda y: isinstance(y, ast.Name) and y.id == 'dimensions')
        for comp, pred in need.items():
            ok = all(depends(v, pred, defs, control=True) for v in locs)
            ctx.check(ok, '%s:uses-%s' % (fn.short, comp),
                      'the tile path of layout %r depends on %s' % (layout, comp), fn, locs[0],
                      fail='the tile path of layout %r does not depend on %s: two addresses that differ only in '
                           '%s share one file' % (layout, comp, comp))


# ------------------------------------------------------------------ C05.c
@rule('C05.c', floor=12)
def c05c(ctx):
    repo = ctx.repo
    mod = repo.mod(COMPACT)
    fn = ctx.fn(COMPACT + ':CompactCacheBase._get_bundle_fname_and_offset')
    defs = Defs(fn.node)
    xyz = {k: _coord_locals_any(defs, k) for k in range(3)}
    # quotient terms  v // W * W
    quot = {}
    for node in fn.walk():
        if isinstance(node, ast.BinOp) and isinstance(node.op, ast.Mult) and isinstance(node.left, ast.BinOp) \
                and isinstance(node.left.op, ast.FloorDiv) and isinstance(node.left.left, ast.Name):
            v = node.left.left.id
            for k in (0, 1):
                if v in xyz[k]:
                    w1, w2 = try_const(node.left.right, repo, mod), try_const(node.right, repo, mod)
                    quot[k] = (w1, w2, node)
    for k in (0, 1):
        if k not in quot:
            ctx.bad('%s:quotient-%s' % (fn.short, 'xy'[k]), 'no quotient term v // W * W for axis %d' % k, fn)
            continue
        w1, w2, node = quot[k]
        ctx.check(isinstance(w1, int) and w1 == w2 and w1 > 0, '%s:quotient-%s' % (fn.short, 'xy'[k]),
                  'bundle origin on axis %d is v // %s * %s (same constant)' % (k, w1, w2), fn, node,
                  fail='bundle origin on axis %d uses v // %s * %s: divisor and multiplier differ' % (k, w1, w2))
    # level goes into the directory name, origin into the file name
    ret = returns_of(fn.node)
    ok = bool(ret) and all(depends(r.value, lambda x: isinstance(x, ast.Name) and x.id in xyz[2], defs) for r in ret)
    ctx.check(ok, fn.short + ':level-in-name', 'bundle file name depends on the level', fn)
    for k in (0, 1):
        qn = quot.get(k)
        ok = bool(ret) and qn is not None and all(depends(r.value, lambda x: x is qn[2], defs) for r in ret)
        ctx.check(ok, '%s:origin-%s-in-name' % (fn.short, 'xy'[k]),
                  'bundle file name depends on the bundle origin of axis %d' % k, fn)
    # remainder terms per bundle class
    rel = {}
    for cls in ('BundleV1', 'BundleV2'):
        f = ctx.fn('%s:%s._rel_tile_coord' % (COMPACT, cls))
        r = returns_of(f.node)
        form = f.canon.expr(r[0].value) if len(r) == 1 and r[0].value is not None else None     # closed form: components may be unpacked first
        if form is None or not isinstance(form, ast.Tuple) or len(form.elts) != 2:
            raise Undecided('%s._rel_tile_coord does not return a 2-tuple' % cls)
        for k, e in enumerate(form.elts):
            okform = isinstance(e, ast.BinOp) and isinstance(e.op, ast.Mod) and isinstance(e.left, ast.Subscript) \
                and const_value(e.left.slice) == k
            m = try_const(e.right, repo, mod) if okform else None
            rel[(cls, k)] = m
            w = quot.get(k, (None,))[0]
            ctx.check(okform and m == w, '%s:remainder-%s' % (f.short, 'xy'[k]),
                      'slot coordinate on axis %d is coord[%d] %% %s, the bundle width used for the file name' % (k, k, w),
                      f, e, fail='slot coordinate on axis %d is %s but bundles are %s wide: tiles of one bundle '
                                 'share a slot or leave the index' % (k, unparse(e), w))
    # index slot formulas
    for cls, fname, width_checks in (('BundleIndexV1', '_tile_index_offset', 5), ('BundleV2', '_tile_idx_offset', 8)):
        f = ctx.fn('%s:%s.%s' % (COMPACT, cls, fname))
        r = returns_of(f.node)
        if len(r) != 1:
            raise Undecided('%s.%s: expected a single return' % (cls, fname))
        c0, co = poly_coeffs(r[0].value, ['x', 'y'], repo, mod)
        slot = min(abs(co['x']), abs(co['y']))
        minor = 'x' if abs(co['x']) == slot else 'y'
        major = 'y' if minor == 'x' else 'x'
        bcls = 'BundleV1' if cls == 'BundleIndexV1' else 'BundleV2'
        rng = rel.get((bcls, 0 if minor == 'x' else 1))
        stride_ok = slot > 0 and rng is not None and abs(co[major]) >= slot * rng
        ctx.check(stride_ok, '%s.%s:stride' % (cls, fname),
                  'index slot = %d + %d*%s + %d*%s: stride %d >= slot %d x range %s of the minor index' % (
                      c0, co[major], major, co[minor], minor, abs(co[major]), slot, rng), f, r[0],
                  fail='index slot = %d + %d*%s + %d*%s: the stride of %s is smaller than slot %d x range %s of %s: '
                       'two tiles share an index slot' % (c0, co[major], major, co[minor], minor, major, slot, rng, minor))
        ctx.check(slot == width_checks, '%s.%s:slot-width' % (cls, fname),
                  'index slot width is %d bytes' % width_checks, f, r[0],
                  fail='index slot width is %d but %d bytes are written/read per entry' % (slot, width_checks))
        hdr_name = 'BUNDLEX_V1_HEADER_SIZE' if cls == 'BundleIndexV1' else 'BUNDLE_V2_HEADER_SIZE'
        hdr = try_const(ast.Name(id=hdr_name), repo, mod)
        ctx.check(c0 == hdr, '%s.%s:header' % (cls, fname), 'index starts after the %d byte header' % hdr, f, r[0],
                  fail='index starts at %s, header is %s bytes' % (c0, hdr))
    # bytes read/written at the slot
    v1 = repo.cls(COMPACT + ':BundleIndexV1')
    for mname in ('tile_offset', 'update_tile_offset', 'remove_tile_offset'):
        f = ctx.fn('%s:BundleIndexV1.%s' % (COMPACT, mname))
        uses = calls_in(f.node, '_tile_index_offset')
        ctx.check(len(uses) == 1, 'BundleIndexV1.%s:one-slot-function' % mname,
                  'index accessor addresses its slot through _tile_index_offset', f)
        widths = []
        for n in f.walk():
            if is_call(n, 'read') and n.args:
                widths.append(try_const(n.args[0]))
            if isinstance(n, ast.Subscript) and isinstance(n.slice, ast.Slice) and n.slice.lower is None \
                    and n.slice.upper is not None and is_call(n.value, 'pack'):
                widths.append(try_const(n.slice.upper))
            if isinstance(n, ast.BinOp) and isinstance(n.op, ast.Mult) and isinstance(n.left, ast.Constant) \
                    and isinstance(n.left.value, bytes) and len(n.left.value) == 1:
                widths.append(try_const(n.right))
            if is_call(n, 'write') and n.args:
                a0 = cexpr(n.args[0])               # (closed form: the entry may be held in a local first)
                if isinstance(a0, ast.Constant) and isinstance(a0.value, bytes):
                    widths.append(len(a0.value))         # the entry written out as a literal
        ctx.check(widths and all(w == 5 for w in widths), 'BundleIndexV1.%s:entry-width' % mname,
                  'V1 index entries are read/written as 5 bytes', f,
                  fail='V1 index entry widths %s differ from the 5-byte slot' % widths)
    f = ctx.fn(COMPACT + ':BundleV2._tile_offset_size')
    reads = [try_const(n.args[0]) for n in f.walk() if is_call(n, 'read') and n.args]
    ctx.check(reads == [8], 'BundleV2._tile_offset_size:entry-width', 'V2 index entries are read as 8 bytes', f,
              fail='V2 index entry read widths %s differ from the 8-byte slot' % reads)
    # header constants
    for size_name, how in (('BUNDLEX_V1_HEADER_SIZE', ('len', 'BUNDLEX_V1_HEADER')),
                           ('BUNDLE_V1_HEADER_SIZE', ('calcsize', 'BUNDLE_V1_HEADER_STRUCT_FORMAT')),
                           ('BUNDLE_V2_HEADER_SIZE', ('calcsize', 'BUNDLE_V2_HEADER_STRUCT_FORMAT'))):
        a = try_const(ast.Name(id=size_name), repo, mod)
        b = try_const(ast.Call(func=ast.Name(id=how[0]), args=[ast.Name(id=how[1])], keywords=[]), repo, mod)
        ctx.check(a is not None and a == b, 'compact:%s' % size_name, '%s == %s(%s) == %s' % (size_name, how[0], how[1], a),
                  (COMPACT, 0), fail='%s is %s but %s(%s) is %s' % (size_name, a, how[0], how[1], b))


def _coord_locals_any(defs, idx):
    out = set()
    for name, ds in defs.defs.items():
        for v, sel in ds:
            if sel == idx and ('coord' in unparse(v)):
                out.add(name)
    return out


# ------------------------------------------------------------------ C05.d
LEVEL_CLASSES = [(MBT, 'MBTilesLevelCache', 'mbtile'), (GPKG, 'GeopackageLevelCache', 'gpkg')]


@rule('C05.d', floor=16)
def c05d(ctx):
    for rel, cname, ext in LEVEL_CLASSES:
        cls = ctx.repo.cls('%s:%s' % (rel, cname))
        for st in cls.node.body:
            if not isinstance(st, ast.FunctionDef):
                continue
            fn = ctx.fn('%s:%s.%s' % (rel, cname, st.name))
            defs = Defs(fn.node)
            for call in calls_in(fn.node, '_get_level'):
                if unparse(call.func) != 'self._get_level' or not call.args:
                    continue
                arg = call.args[0]
                construct = '%s.%s:level-arg' % (cname, st.name)
                # the tile handed on to the level cache
                outer = getattr(getattr(call, '_parent', None), '_parent', None)
                tile_arg = None
                if isinstance(outer, ast.Call) and outer.func is call._parent and outer.args:
                    tile_arg = outer.args[0]
                if st.name == 'remove_level_tiles_before':
                    ok = isinstance(arg, ast.Name) and arg.id == 'level' and 'level' in fn.params
                    ctx.check(ok, construct, 'level database chosen by the `level` parameter', fn, call)
                    continue

                def grouped_by_level(e, tiles_e):
                    """`for L in D: self._get_level(L).x(D[L])` (or `for L, ts in D.items()`) where D is only filled by
                    D.setdefault(t.coord[2], []).append(t) / D[t.coord[2]].append(t): the tiles of a group have the level of its key"""
                    loop = enclosing(call, ast.For)
                    comp = enclosing(call, (ast.ListComp, ast.GeneratorExp))
                    if comp is not None and (loop is None or inside(comp, loop)) and len(comp.generators) == 1 and not comp.generators[0].ifs:
                        loop = comp.generators[0]       # [self._get_level(L).x(ts) for L, ts in D.items()]: one visit per group as well
                    if loop is None or not isinstance(e, ast.Name):
                        return False
                    it = loop.iter
                    if isinstance(it, ast.Call) and isinstance(it.func, ast.Attribute) and it.func.attr in ('items', 'keys') and not it.args:
                        dname, kind = unparse(it.func.value), it.func.attr
                    else:
                        dname, kind = unparse(it), 'keys'
                    if kind == 'items':
                        if not (isinstance(loop.target, ast.Tuple) and len(loop.target.elts) == 2 and unparse(loop.target.elts[0]) == e.id and
                                tiles_e is not None and unparse(tiles_e) == unparse(loop.target.elts[1])):
                            return False
                    else:
                        if not (unparse(loop.target) == e.id and tiles_e is not None and unparse(tiles_e).replace(' ', '') == '%s[%s]' % (dname, e.id)):
                            return False
                    fills = []
                    for x in fn.walk():
                        if isinstance(x, ast.Call) and isinstance(x.func, ast.Attribute) and x.func.attr == 'append' and len(x.args) == 1:
                            recv = x.func.value
                            key = None
                            if isinstance(recv, ast.Call) and isinstance(recv.func, ast.Attribute) and recv.func.attr == 'setdefault' and \
                                    unparse(recv.func.value) == dname and len(recv.args) == 2:
                                key = recv.args[0]
                            elif isinstance(recv, ast.Subscript) and unparse(recv.value) == dname:
                                key = recv.slice
                            if key is not None:
                                fills.append((key, x.args[0]))
                        if isinstance(x, ast.Subscript) and isinstance(x.ctx, ast.Store) and unparse(x.value) == dname:
                            par = getattr(x, '_parent', None)
                            v = par.value if isinstance(par, ast.Assign) else None
                            if not (isinstance(v, (ast.List, ast.Dict)) and not getattr(v, 'elts', getattr(v, 'keys', []))):
                                return False        # something else is stored under a key
                    return bool(fills) and all(isinstance(t, ast.Name) and fn.ctext(k) == '%s.coord[2]' % t.id for k, t in fills)

                def is_level_of(e, tilevar, depth=3):
                    if isinstance(e, ast.Subscript) and const_value(e.slice) == 2 and not unparse(e.value).endswith('.coord') and depth == 3:
                        # the coordinate may have been read into a local first: judge the closed form
                        try:
                            e = fn.canon.expr(e)
                        except Exception:       # noqa
                            pass
                    if isinstance(e, ast.Subscript) and const_value(e.slice) == 2 and unparse(e.value).endswith('.coord'):
                        base = e.value.value
                        return tilevar is None or unparse(base) == tilevar
                    if isinstance(e, ast.Name) and depth > 0:
                        ds = [v for v, sel in defs.of(e.id) if not (isinstance(v, ast.Constant) and v.value is None)]
                        if ds and all(sel is None or isinstance(sel, tuple) or sel in (0,) for v, sel in defs.of(e.id)):
                            pass
                        real = [(v, sel) for v, sel in defs.of(e.id) if not (isinstance(v, ast.Constant) and v.value is None)]
                        if not real:
                            return False
                        ok = True
                        for v, sel in real:
                            if isinstance(v, ast.Call) and call_name(v) == 'groupby':
                                # for level, tiles in groupby(tiles, key=lambda t: t.coord[2])
                                key = keyword(v, 'key', 1)
                                ok = ok and sel == ('elem', 0) and isinstance(key, ast.Lambda) and \
                                    is_level_of(key.body, key.args.args[0].arg, depth - 1)
                            else:
                                ok = ok and sel is None and is_level_of(v, None, depth - 1)
                        return ok
                    return False
                tv = unparse(tile_arg) if isinstance(tile_arg, ast.Name) and st.name not in ('store_tiles', 'load_tiles') else None
                if st.name in ('store_tiles', 'load_tiles'):
                    # a list of tiles goes to one level database: every tile of the list has that level (grouped by coord[2])
                    by_groupby = isinstance(arg, ast.Name) and any(isinstance(v, ast.Call) and call_name(v) == 'groupby' and sel == ('elem', 0)
                                                                   for v, sel in defs.of(arg.id)) and is_level_of(arg, None)
                    ok = by_groupby or grouped_by_level(arg, tile_arg)
                    ctx.check(ok, construct, 'the tiles handed to a level database are grouped by coord[2]', fn, call,
                              fail='%s.%s hands a list of tiles to the database of level %s without grouping them by their level: tiles of other '
                                   'levels are looked up / stored in the wrong file' % (cname, st.name, unparse(arg)))
                    continue
                ok = is_level_of(arg, tv)
                ctx.check(ok, construct, 'level database chosen by coord[2] of the tile that is passed on', fn, call,
                          fail='level database chosen by %s, which is not coord[2] of the forwarded tile' % unparse(arg))
        gl = ctx.fn('%s:%s._get_level' % (rel, cname))
        defs = Defs(gl.node)
        # the file handed to the per-level cache that is stored under self.<table>[level]: closed form of the first constructor argument
        ctor = [st.value for st in gl.walk() if isinstance(st, ast.Assign) and isinstance(st.targets[0], ast.Subscript) and
                same(st.targets[0].slice, 'level') and isinstance(st.value, ast.Call) and st.value.args]
        fnames = [cexpr(c.args[0]) for c in ctor]
        ok = bool(fnames) and all(contains(v, lambda x: isinstance(x, ast.Name) and x.id == 'level') for v in fnames)
        ctx.check(ok, '%s._get_level:file-per-level' % cname, 'level database file name is a function of the level', gl)
        keys = [n for n in gl.walk() if isinstance(n, ast.Subscript) and isinstance(n.ctx, ast.Store)]
        ok = bool(keys) and all(same(k.slice, 'level') for k in keys)
        ctx.check(ok, '%s._get_level:cache-key' % cname, 'level cache dictionary is keyed by the level', gl)


# ------------------------------------------------------------------ C05.e
COLVAR = {'tile_column': 0, 'tile_row': 1, 'zoom_level': 2}
ADDRESS_COLS = ('tile_column', 'tile_row', 'zoom_level')


def _sql_sites(fn):
    out = []
    for c in fn.walk():
        if isinstance(c, ast.Call) and isinstance(c.func, ast.Attribute) and c.func.attr in ('execute', 'executemany') \
                and c.args:
            out.append(c)
    return sorted(out, key=order_key)


def _where_cols(sql):
    """columns compared with a placeholder, in textual order"""
    return re.findall(r'(\w+)\s*(?:=|<|>|<=|>=)\s*(?:datetime\()?\?', sql)


def _insert_cols(sql):
    m = re.search(r'INSERT[^()]*\(([^)]*)\)\s*VALUES\s*\(([^;]*)', sql, re.I | re.S)
    if not m:
        return None, None
    cols = [c.strip() for c in m.group(1).split(',')]
    return cols, m.group(2).count('?')


def _coord_role(e, defs):
    """0/1/2 if e is (a local bound to) element k of a .coord, else None"""
    if isinstance(e, ast.Subscript) and unparse(e.value).endswith('.coord'):
        return const_value(e.slice)
    if isinstance(e, ast.Name):
        roles = {sel for v, sel in defs.of(e.id) if isinstance(sel, int) and unparse(v).endswith('.coord')}
        others = [1 for v, sel in defs.of(e.id) if not (isinstance(sel, int) and unparse(v).endswith('.coord'))]
        if len(roles) == 1 and not others:
            return roles.pop()
        if e.id == 'level' and not defs.of(e.id):
            return 2     # parameter named level of remove_level_tiles_before
    return None


@rule('C05.e', floor=30)
def c05e(ctx):
    classes = [(MBT, 'MBTilesCache'), (GPKG, 'GeopackageCache')]
    for rel, cname in classes:
        cls = ctx.repo.cls('%s:%s' % (rel, cname))
        for mname in ('_store_bulk', 'load_tile', 'load_tiles', 'remove_tile', 'remove_level_tiles_before'):
            fn = ctx.fn('%s:%s.%s' % (rel, cname, mname))
            defs = Defs(fn.node)
            for i, call in enumerate(_sql_sites(fn)):
                stmts = [s for s in str_variants(call.args[0], defs) if s != HOLE]
                if not stmts:
                    raise Undecided('%s: SQL of %s is not a literal' % (fn.qn, unparse(call)[:60]))
                args = call.args[1] if len(call.args) > 1 else None
                base = '%s.%s:sql%d' % (cname, mname, i)
                kind = 'bulk' if any(HOLE + '(' in s or s.endswith(HOLE) and 'OR' in unparse(call.args[0]) for s in stmts) else 'plain'
                dynamic = any(isinstance(n, ast.BinOp) and isinstance(n.op, ast.Mult) and
                              isinstance(n.left, (ast.List, ast.Tuple)) for v in _expand_defs(call.args[0], defs)
                              for n in ast.walk(v))
                if dynamic:
                    _bulk_load(ctx, fn, defs, call, stmts, base)
                    continue
                if call.func.attr == 'executemany' and isinstance(args, ast.Name):
                    _bulk_insert(ctx, fn, call, args, base)
                    continue
                # --- arity
                arity = _arity(args, defs)
                for s in stmts:
                    nq = s.count('?')
                    if arity is not None:
                        ctx.check(nq == arity, base + ':arity', '%d placeholders, %d parameters' % (nq, arity), fn, call,
                                  fail='statement has %d placeholders but %d parameters are passed: %s' % (
                                      nq, arity, ' '.join(s.split())[:90]))
                # --- column convention
                for s in stmts:
                    cols, nvals = _insert_cols(s)
                    if cols:
                        tup = _record_tuple(args, defs)
                        if tup is None:
                            raise Undecided('%s: cannot find the record tuple for %s' % (fn.qn, unparse(args)))
                        for t in tup:
                            for col, e in zip(cols, t.elts):
                                if col in COLVAR:
                                    role = _coord_role(e, defs)
                                    ctx.check(role == COLVAR[col], '%s:insert-%s' % (base, col),
                                              'INSERT column %s receives coord[%d]' % (col, COLVAR[col]), fn, t,
                                              fail='INSERT column %s receives %s (coord[%s]), expected coord[%d]' % (
                                                  col, unparse(e), role, COLVAR[col]))
                    elif re.search(r'\bWHERE\b', s, re.I):
                        wc = _where_cols(s)
                        addr = [c for c in wc if c in COLVAR]
                        if args is not None and unparse(args).endswith('.coord'):
                            ctx.check(addr == list(ADDRESS_COLS) and wc[:3] == list(ADDRESS_COLS), base + ':where-order',
                                      'WHERE placeholders are tile_column, tile_row, zoom_level = coord order', fn, call,
                                      fail='WHERE placeholders are bound to %s but the parameters are the coord tuple '
                                           '(column, row, level)' % wc)
                        elif isinstance(args, ast.Tuple):
                            for col, e in zip(wc, args.elts):
                                if col in COLVAR:
                                    role = _coord_role(e, defs)
                                    ctx.check(role == COLVAR[col], '%s:where-%s' % (base, col),
                                              'WHERE %s = ? receives the %s' % (col, ('column', 'row', 'level')[COLVAR[col]]),
                                              fn, call, fail='WHERE %s = ? receives %s' % (col, unparse(e)))
                        if re.match(r'\s*DELETE', s, re.I) and mname == 'remove_tile':
                            ctx.check(set(addr) == set(ADDRESS_COLS), base + ':delete-full-address',
                                      'single-tile DELETE is bound to column, row and level', fn, call,
                                      fail='single-tile DELETE is bound to %s only' % addr)
                        if re.match(r'\s*SELECT', s, re.I) and mname == 'load_tile':
                            ctx.check(set(addr) == set(ADDRESS_COLS), base + ':select-full-address',
                                      'single-tile SELECT is bound to column, row and level', fn, call,
                                      fail='single-tile SELECT is bound to %s only' % addr)


def _bulk_insert(ctx, fn, call, args, base):
    """executemany(<sql>, <list>): for every truth assignment of the self.<flag> tests of the function (the statement text and the
    record layout usually depend on the same flag) the statement that reaches the call and the records appended on that
    assumption agree in arity and in the column convention"""
    import itertools
    g = fn.cfg
    flags = sorted({at.text for s, d, test, pol in g.branch_edges() for at, p in implied(test, pol) if at.op is None and at.text.startswith('self.')})
    if len(flags) > 4:
        raise Undecided('%s: %d flags control the bulk insert' % (fn.qn, len(flags)))
    n = g.node_for(call)
    appends = [(g.node_for(x), x) for x in fn.walk() if is_call(x, args.id + '.append') and x.args]
    seen = 0
    for vals in itertools.product([True, False], repeat=len(flags)):
        assume = dict(zip(flags, vals))
        cf = Canon(fn, assume=assume)
        if n in cf.infeasible:
            continue
        forms = [v for v in str_variants(cf.expr(call.args[0]), Defs(ast.Module(body=[], type_ignores=[]))) if v != HOLE]
        if len(forms) != 1:
            raise Undecided('%s: SQL of the bulk insert is not a single literal under %s: %s' % (fn.qn, assume, unparse(call.args[0])[:60]))
        sql = ast.Constant(value=forms[0])
        recs = []
        for an, x in appends:
            if an in cf.infeasible:
                continue
            t = cf.as_tuple(cf.expr(x.args[0]))
            if t is None:
                raise Undecided('%s: cannot find the record tuple appended to %s under %s' % (fn.qn, args.id, assume))
            recs.append((x, t))
        if not recs:
            raise Undecided('%s: no record is appended to %s under %s' % (fn.qn, args.id, assume))
        seen += 1
        label = ','.join('%s=%s' % (k.replace('self.', ''), 'T' if v else 'F') for k, v in assume.items()) or '-'
        nq = sql.value.count('?')
        cols, nvals = _insert_cols(sql.value)
        # a store to an address that holds a tile replaces the whole row -- INSERT OR REPLACE, or an upsert whose SET list names every
        # inserted column that is not part of the address: a column left as it was (tile_data without last_modified) makes the new tile
        # look like the old one to everything that reads that column
        flat = ' '.join(sql.value.split())
        if re.search(r'\bON\s+CONFLICT\b', flat, re.I):
            m = re.search(r'\bON\s+CONFLICT\s*\(([^)]*)\)\s*DO\s+UPDATE\s+SET\s+(.*)$', flat, re.I)
            key_cols = [c.strip() for c in m.group(1).split(',')] if m else []
            set_cols = [a.split('=')[0].strip() for a in m.group(2).split(',')] if m else []
            left = [c for c in (cols or []) if c not in key_cols and c not in set_cols]
            whole = bool(m) and not left and bool(cols)
            how = 'upsert leaves %s of an existing row unchanged' % left if m else 'ON CONFLICT clause that does not update'
        else:
            whole = bool(re.match(r'\s*(INSERT\s+OR\s+REPLACE|REPLACE)\s+INTO\b', flat, re.I))
            how = 'plain INSERT: the store of a tile that exists fails'
        ctx.check(whole, '%s:overwrites-whole-row[%s]' % (base, label), 'a store replaces every column of an existing row', fn, call,
                  fail='under %s the store does not replace the whole row of a tile that is already there (%s)' % (label, how))
        for x, t in recs:
            ctx.check(len(t.elts) == nq, '%s:arity[%s]' % (base, label), '%d placeholders, records of %d values' % (nq, len(t.elts)), fn, call,
                      fail='under %s the statement has %d placeholders but the records have %d values: %s' % (
                          label, nq, len(t.elts), ' '.join(sql.value.split())[:90]))
            for col, e in zip(cols or [], t.elts):
                if col in COLVAR:
                    role = _coord_role_cf(e)
                    ctx.check(role == COLVAR[col], '%s:insert-%s' % (base, col),
                              'INSERT column %s receives coord[%d]' % (col, COLVAR[col]), fn, x,
                              fail='INSERT column %s receives %s (coord[%s]), expected coord[%d]' % (col, unparse(e), role, COLVAR[col]))
    if not seen:
        raise Undecided('%s: the bulk insert is not reachable under any flag assignment' % fn.qn)


def _coord_role_cf(e):
    """0/1/2 if the closed form e is element k of a .coord"""
    if isinstance(e, ast.Subscript) and unparse(e.value).endswith('.coord'):
        return const_value(e.slice)
    return None


def _expand_defs(e, defs):
    from ..flow import expand
    return expand(e, defs)


def _arity(args, defs):
    if args is None:
        return 0
    if isinstance(args, ast.Tuple):
        return len(args.elts)
    if unparse(args).endswith('.coord'):
        return 3
    if isinstance(args, ast.Name):
        t = _record_tuple(args, defs)
        if t:
            n = {len(x.elts) for x in t}
            if len(n) == 1:
                return n.pop()
            return None
    return None


def _record_tuple(args, defs):
    """tuples appended to the list variable `args`"""
    if not isinstance(args, ast.Name):
        return None
    out = []
    for n in ast.walk(defs.fn):
        if is_call(n, args.id + '.append') and n.args and isinstance(n.args[0], ast.Tuple):
            out.append(n.args[0])
    return out or None


def _bulk_load(ctx, fn, defs, call, stmts, base):
    """SELECT ... WHERE (c=? AND r=? AND z=?) OR ...  with row -> tile association"""
    cname = fn.short.split('.')[0]
    # per-tile clause
    clause = None
    for v in _expand_defs(call.args[0], defs):
        for n in ast.walk(v):
            if isinstance(n, ast.BinOp) and isinstance(n.op, ast.Mult) and isinstance(n.left, (ast.List, ast.Tuple)) \
                    and len(n.left.elts) == 1 and isinstance(n.left.elts[0], ast.Constant):
                clause = (n.left.elts[0].value, n.right)
    if clause is None:
        raise Undecided('%s: per-tile clause not found' % fn.qn)
    ccols = _where_cols(clause[0])
    ctx.check(sorted(ccols) == sorted(ADDRESS_COLS), base + ':clause-cols',
              'per-tile clause binds column, row and level', fn, call,
              fail='per-tile clause binds %s' % ccols)
    # repetition count len(cur)//k with k == placeholders per clause
    k = None
    for n in ast.walk(clause[1]):
        if isinstance(n, ast.BinOp) and isinstance(n.op, ast.FloorDiv):
            k = try_const(n.right)
    ctx.check(k == len(ccols), base + ':clause-count', 'clause repeated len(params)//%s times, %d placeholders per '
              'clause' % (k, len(ccols)), fn, call)
    # parameter order: coords.append(<role>) sequence in loop
    plist = call.args[1]
    src = None
    if isinstance(plist, ast.Name):
        for v, sel in defs.of(plist.id):
            if isinstance(v, ast.Subscript) and isinstance(v.value, ast.Name):
                src = v.value.id
    appended = []
    for n in sorted(ast.walk(fn.node), key=lambda n: (getattr(n, 'lineno', 0), getattr(n, 'col_offset', 0))):
        if src and is_call(n, src + '.append') and n.args:
            appended.append(n.args[0])
        elif src and is_call(n, src + '.extend') and n.args and isinstance(n.args[0], (ast.Tuple, ast.List)):
            appended.extend(n.args[0].elts)
        elif src and isinstance(n, ast.AugAssign) and unparse(n.target) == src and isinstance(n.op, ast.Add) and isinstance(n.value, (ast.Tuple, ast.List)):
            appended.extend(n.value.elts)
    cf = Canon(fn)
    roles = [_coord_role_cf(cf.expr(a)) if _coord_role(a, defs) is None else _coord_role(a, defs) for a in appended]
    want = [COLVAR[c] for c in ccols if c in COLVAR]
    ctx.check(roles == want, base + ':param-order', 'parameters are appended in the order of the clause columns %s' % ccols,
              fn, call, fail='parameters are appended as coord%s but the clause binds %s' % (roles, ccols))
    # batching constants
    slices = []
    for n in ast.walk(fn.node):
        if isinstance(n, ast.Subscript) and isinstance(n.slice, ast.Slice) and isinstance(n.value, ast.Name) \
                and n.value.id == src:
            lo, up = n.slice.lower, n.slice.upper
            slices.append((try_const(lo) if lo is not None else None, try_const(up) if up is not None else None, n))
    heads = [s[1] for s in slices if s[0] is None and s[1] is not None]
    tails = [s[0] for s in slices if s[1] is None and s[0] is not None]
    okb = len(heads) == 1 and len(tails) == 1 and heads[0] == tails[0]
    if not heads and not tails:
        # stride form: for off in range(0, len(src), N): cur = src[off:off + N]
        for lp in [n for n in ast.walk(fn.node) if isinstance(n, ast.For) and isinstance(n.target, ast.Name) and is_call(n.iter, 'range') and len(n.iter.args) == 3]:
            a0, a1, a2 = lp.iter.args
            step = try_const(a2, ctx.repo, fn.mod)
            if not (try_const(a0) == 0 and is_call(a1, 'len') and same(a1.args[0], src) and isinstance(step, int)):
                continue
            v = lp.target.id
            widths = []
            for lo, up, n in slices:
                lo_e, up_e = n.slice.lower, n.slice.upper
                if isinstance(lo_e, ast.Name) and lo_e.id == v and isinstance(up_e, ast.BinOp) and isinstance(up_e.op, ast.Add):
                    sides = [up_e.left, up_e.right]
                    if any(isinstance(x, ast.Name) and x.id == v for x in sides):
                        w = [try_const(x, ctx.repo, fn.mod) for x in sides if not (isinstance(x, ast.Name) and x.id == v)]
                        widths.append(w[0] if w else None)
                    else:
                        widths.append(None)
                else:
                    widths.append(None)
            if widths and all(w == step for w in widths):
                okb, heads, tails = True, [step], [step]
    ctx.check(okb, base + ':batch-advance', 'the batch taken [:N] and the rest kept [N:] use the same N (%s)' % heads, fn,
              fail='batch slices differ: taken [:%s], kept [%s:]: parameters are skipped or repeated' % (heads, tails))
    if heads:
        N = heads[0]
        ctx.check(isinstance(N, int) and N % len(ccols) == 0, base + ':batch-multiple',
                  'batch size %s is a multiple of %d parameters per tile' % (N, len(ccols)), fn)
        ctx.check(isinstance(N, int) and N <= 999, base + ':batch-limit',
                  'batch size %s does not exceed SQLite\'s 999 host parameters' % N, fn,
                  fail='batch size %s exceeds SQLite\'s default limit of 999 host parameters' % N)
    # SELECT list and row association
    sel = None
    for s in stmts:
        m = re.match(r'\s*SELECT\s+(.*?)\s+FROM\b', s, re.I | re.S)
        if m:
            cols = [c.strip() for c in m.group(1).split(',')]
            sel = cols if sel is None else sel
            if cols[:len(sel)] != sel[:len(cols)] and set(cols) - set(sel):
                pass
            _row_assoc(ctx, fn, defs, cols, base, s)


def _row_index(e, defs, depth=3):
    """index of the result column an expression reads: row[i], a name bound to row[i], or the k-th name of `a, b, .. = row[:n]` /
    `a, b, .. = row`, where row is the loop variable over the cursor"""
    def is_row(x):
        return isinstance(x, ast.Name) and any(sel == 'elem' for v, sel in defs.of(x.id))
    if isinstance(e, ast.Subscript) and is_row(e.value):
        i = const_value(e.slice)
        return i if isinstance(i, int) else None
    if isinstance(e, ast.Name) and depth > 0:
        ds = defs.of(e.id)
        if len(ds) != 1:
            return None
        v, sel = ds[0]
        if sel is None:
            return _row_index(v, defs, depth - 1)
        if isinstance(sel, int):
            if is_row(v):
                return sel
            if isinstance(v, ast.Subscript) and is_row(v.value) and isinstance(v.slice, ast.Slice) and v.slice.step is None:
                lo = 0 if v.slice.lower is None else const_value(v.slice.lower)
                return lo + sel if isinstance(lo, int) and lo >= 0 else None
    return None


def _row_assoc(ctx, fn, defs, cols, base, stmt):
    # key used to store tiles: tile_dict[KEY] = tile
    stores = [n for n in ast.walk(fn.node) if isinstance(n, ast.Subscript) and isinstance(n.ctx, ast.Store)
              and isinstance(n.value, ast.Name) and isinstance(enclosing_stmt(n), ast.Assign)]
    loads = []
    for st in stores:
        dname = st.value.id
        key = st.slice
        kelts = key.elts if isinstance(key, ast.Tuple) else [key]
        cf = Canon(fn)
        kroles = [_coord_role(e, defs) if _coord_role(e, defs) is not None else _coord_role_cf(cf.expr(e)) for e in kelts]
        ctx.check(sorted(r for r in kroles if r is not None) == [0, 1, 2], base + ':row-key-complete',
                  'rows are associated with tiles by (column, row, level)', fn, st,
                  fail='rows are associated with tiles by the key %s = coord%s although the query selects by column, '
                       'row and level: tiles that differ in the missing component are confused' % (unparse(key), kroles))
        for n in ast.walk(fn.node):
            if isinstance(n, ast.Subscript) and isinstance(n.ctx, ast.Load) and isinstance(n.value, ast.Name) \
                    and n.value.id == dname:
                lk = n.slice.elts if isinstance(n.slice, ast.Tuple) else [n.slice]
                idx = [_row_index(e, defs) if _row_index(e, defs) is not None else _row_index(cf.expr(e), defs) for e in lk]
                want = []
                okk = len(lk) == len(kelts)
                names = []
                for r, i in zip(kroles, idx):
                    col = ADDRESS_COLS[r] if r is not None else None
                    names.append(cols[i] if isinstance(i, int) and i < len(cols) else None)
                    okk = okk and col is not None and isinstance(i, int) and i < len(cols) and cols[i] == col
                ctx.check(okk, base + ':row-key-columns',
                          'lookup key is built from result columns %s in the order of the store key' % names, fn, n,
                          fail='lookup key %s reads result columns %s of SELECT %s; the store key is coord%s' % (
                              unparse(n.slice), names, cols, kroles))
    # data / timestamp column indices
    for n in ast.walk(fn.node):
        if is_call(n, 'BytesIO') and n.args and (_row_index(n.args[0], defs) is not None or _row_index(Canon(fn).expr(n.args[0]), defs) is not None):
            i = _row_index(n.args[0], defs)
            i = i if i is not None else _row_index(Canon(fn).expr(n.args[0]), defs)
            ctx.check(isinstance(i, int) and i < len(cols) and cols[i] == 'tile_data', base + ':data-column',
                      'tile bytes are read from the tile_data column (row[%s])' % i, fn, n,
                      fail='tile bytes are read from row[%s] = %s of SELECT %s' % (i, cols[i] if isinstance(i, int) and i < len(cols) else '?', cols))
        if is_call(n, 'sqlite_datetime_to_timestamp') and n.args and _row_index(n.args[0], defs) is not None and 'last_modified' in cols:
            i = _row_index(n.args[0], defs)
            ctx.check(isinstance(i, int) and i < len(cols) and cols[i] == 'last_modified', base + ':timestamp-column',
                      'timestamp is read from the last_modified column (row[%s])' % i, fn, n,
                      fail='timestamp is read from row[%s] = %s' % (i, cols[i] if isinstance(i, int) and i < len(cols) else '?'))


# ------------------------------------------------------------------ C05.f
SCOPE_F = ('mapproxy/cache/', 'mapproxy/service/', 'mapproxy/seed/', 'mapproxy/grid.py')


def _truthy_names(test, out):
    if isinstance(test, ast.BoolOp):
        for v in test.values:
            _truthy_names(v, out)
    elif isinstance(test, ast.UnaryOp) and isinstance(test.op, ast.Not):
        _truthy_names(test.operand, out)
    elif isinstance(test, ast.Name):
        out.append(test)


@rule('C05.f', floor=12)
def c05f(ctx):
    """zero is a valid address component: no truthiness test on a tile coordinate component"""
    n_funcs = 0
    for qn, fn in sorted(ctx.repo.funcs.items()):
        if not qn.startswith(SCOPE_F) or '#' in qn:
            continue
        defs = Defs(fn.node)
        comp = {}
        for name, ds in defs.defs.items():
            for v, sel in ds:
                if isinstance(v, ast.Lambda):
                    continue
                src = unparse(v)
                if isinstance(sel, int) and src.endswith('.coord'):
                    comp[name] = 'coord[%d]' % sel
                elif sel is None and isinstance(v, ast.Subscript) and unparse(v.value).endswith('.coord') \
                        and isinstance(const_value(v.slice), int):
                    comp[name] = 'coord[%d]' % const_value(v.slice)
        # the keys of a mapping that is filled under `<tile>.coord[k]` are coordinate components as well: `for level in by_level:`
        keyed = {}
        for x in fn.walk():
            if isinstance(x, ast.Call) and isinstance(x.func, ast.Attribute) and x.func.attr == 'setdefault' and len(x.args) == 2:
                k_ = x.args[0]
            elif isinstance(x, ast.Subscript) and isinstance(x.ctx, ast.Store):
                k_ = x.slice
                x = ast.Call(func=ast.Attribute(value=x.value, attr='setdefault', ctx=ast.Load()), args=[], keywords=[])
            else:
                continue
            kt = fn.ctext(k_) if getattr(k_, '_parent', None) is not None or hasattr(k_, 'lineno') else ''
            m_ = re.match(r'^(\w+)\.coord\[(\d)\]$', kt)
            if m_:
                keyed[unparse(x.func.value)] = 'coord[%s]' % m_.group(2)
        for lp in [l for l in fn.walk() if isinstance(l, ast.For)]:
            it = lp.iter
            d = unparse(it.func.value) if isinstance(it, ast.Call) and isinstance(it.func, ast.Attribute) and it.func.attr in ('keys', 'items') else unparse(it)
            if d in keyed:
                tgt = lp.target.elts[0] if isinstance(lp.target, ast.Tuple) and isinstance(it, ast.Call) and it.func.attr == 'items' else lp.target
                if isinstance(tgt, ast.Name):
                    comp[tgt.id] = keyed[d]
        if not comp:
            continue
        n_funcs += 1
        ctx.stats['functions'].add(fn.qn)
        flagged = set()
        for node in fn.walk():
            tests = []
            if isinstance(node, (ast.If, ast.While, ast.IfExp, ast.Assert)):
                _truthy_names(node.test, tests)
            elif isinstance(node, ast.BoolOp):
                for v in node.values[:-1]:
                    _truthy_names(v, tests)
            elif isinstance(node, ast.comprehension):
                for i in node.ifs:
                    _truthy_names(i, tests)
            for t in tests:
                if t.id in comp and (t.id, node.lineno) not in flagged:
                    flagged.add((t.id, node.lineno))
                    ctx.bad('%s:truthiness-of-%s' % (fn.short, t.id),
                            'address component %r (%s) is tested by truthiness: level/column/row 0 is treated as '
                            '"no tile"' % (t.id, comp[t.id]), fn, node)
        if not flagged:
            ctx.ok('%s:zero-valid' % fn.short, 'no truthiness test on the address components %s' % sorted(comp), fn)


# ------------------------------------------------------------------ C05.g
API = ['load_tile', 'load_tiles', 'store_tile', 'store_tiles', 'remove_tile', 'remove_tiles', 'is_cached',
       'load_tile_metadata']
QUICK_BACKENDS = ('mapproxy/cache/file.py', COMPACT, MBT, GPKG)


@rule('C05.g', floor=6)
def c05g(ctx):
    base = ctx.repo.cls('mapproxy/cache/base.py:TileCacheBase')
    subs = sorted(base.subclasses(), key=lambda c: c.qn)
    for c in subs:
        if not ctx.thorough and c.file not in QUICK_BACKENDS:
            continue
        if c.node.name in ('CompactCacheBase',):
            continue
        missing = []
        for m in API:
            f = c.method(m)
            if f is None:
                missing.append(m + ' (undefined)')
                continue
            if 'dimensions' not in f.params and not f.node.args.kwarg:
                missing.append(m)
        ctx.check(not missing, '%s:api' % c.name, 'all 8 cache API methods accept `dimensions`', (c.file, c.node.lineno),
                  fail='API methods that cannot take dimensions=: %s (TypeError from the tile manager)' % missing)


# ------------------------------------------------------------------ C05.h
@rule('C05.h', floor=3)
def c05h(ctx):
    fn = ctx.fn(FILE + ':FileCache._store_single_color_tile')
    g = fn.cfg
    unlinks = [(n, c) for n, c in g.find(lambda x: is_call(x, 'os.unlink', 'os.remove')) if c.args and same(c.args[0], 'tile_loc')]
    links = calls_to(g, Defs(fn.node), 'os.link', 'os.symlink')
    if not links:
        raise Undecided('no os.link/os.symlink in _store_single_color_tile')
    if not unlinks:
        ctx.bad(fn.short + ':unlink-before-link', 'the existing tile is never removed before linking; EEXIST is '
                'swallowed, so the old bytes stay', fn)
        return
    un, uc = unlinks[0]
    st = enclosing(uc, ast.If)
    okform = st is not None
    if okform:
        tab = ctx.rows(expr_table(st.test))
        ex = tab.find_atoms('exists(tile_loc)') + tab.find_atoms('lexists(tile_loc)')
        il = tab.find_atoms('islink(tile_loc)')
        lex = tab.find_atoms('lexists(tile_loc)')
        if lex:
            good = all(v == asg[lex[0]] for asg, v, _ in tab.assignments())
        elif ex and il:
            good = all(v == (asg[ex[0]] or asg[il[0]]) for asg, v, _ in tab.assignments())
        else:
            good = False
        body_has = inside(uc, st) and any(inside(uc, s) for s in st.body)
        ctx.check(good and body_has, fn.short + ':unlink-iff-present',
                  'the old entry is unlinked iff exists(tile_loc) or islink(tile_loc)', fn, st,
                  fail='the old entry is unlinked under `%s`, not under exists(tile_loc) OR islink(tile_loc): a regular '
                       'tile or a dangling link survives and the new link is silently not created' % unparse(st.test))
    else:
        ctx.ok(fn.short + ':unlink-iff-present', 'unconditional unlink', fn, uc)
    hdefs = Defs(fn.node)
    for n, c in links:
        for t in call_targets(c, hdefs):
            ctx.check(g.reaches_avoiding(0, n, avoid=()) and not _reach_without(g, n, st, un), fn.short + ':unlink-before-' + t.split('.')[-1],
                      'the unlink statement precedes %s on every path' % t, fn, c,
                      fail='%s can be reached without passing the unlink statement' % t)


def _reach_without(g, target, ifstmt, unlink_node):
    """can `target` be reached from entry avoiding the If statement that guards the unlink"""
    ifn = g.node_of.get(id(ifstmt)) if ifstmt is not None else unlink_node
    return target in g.reachable(0, avoid={ifn}) and ifn != target


# ------------------------------------------------------------------ C05.i
WRITE_SQL = re.compile(r'^\s*(INSERT|DELETE|UPDATE|CREATE|REPLACE|DROP|ALTER)\b', re.I)


@rule('C05.i', floor=12)
def c05i(ctx):
    mods = [MBT, GPKG]
    n = 0
    for rel in mods:
        for fn in sorted(ctx.repo.fns_in(rel + ':'), key=lambda f: f.qn):
            if '#' in fn.qn:
                continue
            sites = _sql_sites(fn)
            if not sites:
                continue
            defs = Defs(fn.node)
            g = fn.cfg
            for i, call in enumerate(sites):
                stmts = [s for s in str_variants(call.args[0], defs)]
                if not any(WRITE_SQL.match(s.replace(HOLE, '')) for s in stmts):
                    continue
                n += 1
                node = g.node_for(call)
                construct = '%s:write%d-committed' % (fn.short, i)
                # (a) inside `with sqlite3.connect(...) as db` -> commits on exit
                w = enclosing(call, ast.With)
                in_with = False
                while w is not None:
                    if any(is_call(it.context_expr, 'sqlite3.connect', 'connect') for it in w.items):
                        in_with = True
                    w = enclosing(w, ast.With)
                if in_with:
                    ctx.ok(construct, 'write runs inside `with sqlite3.connect(...)`, which commits on exit', fn, call)
                    continue
                commits = [c for c, x in g.find(lambda x: is_call(x, 'commit'))]
                # every normal path from the write to the function exit passes a commit
                ok = bool(commits) and not g.reaches_avoiding(node, g.EXIT, avoid=set(commits), no_exc=True)
                ctx.check(ok, construct, 'every normal path from the write to the return passes commit()', fn, call,
                          fail='a normal path from this write statement to the return does not pass commit(): the '
                               'change is lost when the connection is closed (%s)' % ' '.join(stmts[0].replace(HOLE, '?').split())[:70])


# ------------------------------------------------------------------ C05.j
SLOT_FUNCS = ('tile_offset', 'update_tile_offset', 'remove_tile_offset', '_tile_index_offset', '_tile_idx_offset',
              '_tile_offset_size', '_update_tile_offset')


@rule('C05.j', floor=10)
def c05j(ctx):
    """writer and reader address an index slot with the same (column, row) argument order; slot coefficients are positive"""
    from ..util import poly_coeffs
    repo = ctx.repo
    mod = repo.mod(COMPACT)
    for cname in ('BundleV1', 'BundleV2', 'BundleIndexV1'):
        cls = repo.cls('%s:%s' % (COMPACT, cname))
        for st in cls.node.body:
            if not isinstance(st, ast.FunctionDef):
                continue
            fn = ctx.fn('%s:%s.%s' % (COMPACT, cname, st.name))
            defs = Defs(fn.node)
            for c in sorted([x for x in fn.walk() if isinstance(x, ast.Call) and simple_name(x) in SLOT_FUNCS], key=order_key):
                args = [a for a in c.args if not (isinstance(a, ast.Name) and a.id in ('fh',))][:2]
                if len(args) < 2:
                    continue

                def role(e):
                    if isinstance(e, ast.Name):
                        for v, sel in defs.of(e.id):
                            if isinstance(sel, int) and is_call(v, 'self._rel_tile_coord'):
                                return sel
                            if sel == 'elem' and is_call(v, 'range') and v.args:
                                return 'loop:' + e.id      # full-range scan: both orders visit every slot
                        if e.id in fn.params:
                            p = [q for q in fn.params if q != 'self' and q != 'fh']
                            return p.index(e.id) if e.id in p[:2] else None
                    return None
                r = [role(a) for a in args]
                if all(isinstance(x, str) and x.startswith('loop:') for x in r) and r[0] != r[1]:
                    r = [0, 1]
                k = sum(1 for o in ctx.obs if o.construct.startswith('%s.%s:slot-args' % (cname, st.name)))
                ctx.check(r == [0, 1], '%s.%s:slot-args%d' % (cname, st.name, k),
                          '%s(...) receives (column, row) in that order' % simple_name(c), fn, c,
                          fail='%s(%s) does not receive (column, row) of _rel_tile_coord in order: writer and reader address '
                               'different index slots' % (simple_name(c), ', '.join(unparse(a) for a in args)))
    for cname, fname in (('BundleIndexV1', '_tile_index_offset'), ('BundleV2', '_tile_idx_offset')):
        f = ctx.fn('%s:%s.%s' % (COMPACT, cname, fname))
        r = returns_of(f.node)
        c0, co = poly_coeffs(r[0].value, ['x', 'y'], repo, mod)
        ctx.check(co['x'] > 0 and co['y'] > 0 and c0 > 0, '%s.%s:positive' % (cname, fname), 'slot offsets grow with column and row and start after the header', f,
                  fail='index slot formula has non-positive coefficients (%s, %s, %s): slots run into the header' % (c0, co['x'], co['y']))


@rule('C05.k', floor=3)
def c05k(ctx):
    """dimension directory = key + '-' + value looked up by that key; the shared single-colour file is written before it is linked"""
    fn = ctx.fn(PATH + ':dimensions_part')
    lookups = [x for x in fn.walk_all() if (is_call(x, 'dims.get') or is_call(x, 'dimensions.get')) and x.args]
    lam = [x for x in fn.walk_all() if isinstance(x, ast.Lambda)]
    ok = bool(lookups)
    for x in lookups:
        k = x.args[0]
        owner = enclosing(x, (ast.Lambda, ast.GeneratorExp, ast.ListComp))
        if isinstance(owner, ast.Lambda):
            var = owner.args.args[0].arg
        elif owner is not None:
            var = unparse(owner.generators[0].target)
        else:
            var = None
        ok = ok and isinstance(k, ast.Name) and var is not None and k.id == var
    ctx.check(ok, 'dimensions_part:value-of-key', 'each directory name pairs a dimension key with the value looked up by that key', fn,
              fail='the dimension value is not looked up by the key of the same directory name: different dimension values share a directory')
    srt = [x for x in fn.walk() if is_call(x, 'sorted')]
    ctx.check(len(srt) >= 2, 'dimensions_part:sorted-keys', 'keys are sorted (the directory does not depend on the parameter order)', fn)
    sc = ctx.fn(FILE + ':FileCache._store_single_color_tile')
    g = sc.cfg
    stores = g.find(lambda x: is_call(x, 'self._store') and len(x.args) >= 2 and same(x.args[1], 'real_tile_loc'))
    links = calls_to(g, Defs(sc.node), 'os.link', 'os.symlink')
    ok = bool(stores) and bool(links)
    for n, x in stores:
        ok = ok and g.guarded(n, lambda at: at.mentions(lambda y: is_call(y, 'os.path.exists') and same(y.args[0], 'real_tile_loc')), False)
    # on the "does not exist" edge the store lies before every link
    edges = g.guard_edges(lambda at: at.mentions(lambda y: is_call(y, 'os.path.exists') and y.args and same(y.args[0], 'real_tile_loc')), False)
    for s, d in edges:
        for n, x in links:
            if stores and g.reaches_avoiding(s, n, avoid={stores[0][0]}) and d == stores[0][0]:
                pass
        ok = ok and all(not _reach_from(g, d, n, {m for m, _ in stores}) for n, x in links)
    ctx.check(ok, 'FileCache._store_single_color_tile:real-tile-before-link', 'a missing shared single-colour file is written before a link to it is created', sc,
              fail='a link to the shared single-colour file can be created although the file was never written (dangling link: the tile reads as missing)')


def _reach_from(g, start, target, avoid):
    if start in avoid:
        return False
    seen, stack = set(), [start]
    while stack:
        k = stack.pop()
        if k == target:
            return True
        if k in seen or k in avoid:
            continue
        seen.add(k)
        stack.extend(g.succ[k])
    return False


@rule('C05.l', floor=8)
def c05l(ctx):
    """bulk operations visit every tile: no return/break inside the per-tile loop of a bulk load/store/remove; the compact
    single-bundle shortcut is keyed by the bundle file (which contains the level)"""
    sites = [(MBT, 'MBTilesCache'), (GPKG, 'GeopackageCache'), (COMPACT, 'BundleV1'), (COMPACT, 'BundleV2'), (COMPACT, 'CompactCacheBase'),
             ('mapproxy/cache/base.py', 'TileCacheBase'), (MBT, 'MBTilesLevelCache'), (GPKG, 'GeopackageLevelCache')]
    for rel, cname in sites:
        for m in ('load_tiles', 'store_tiles', 'remove_tiles'):
            f = ctx.repo.funcs.get('%s:%s.%s' % (rel, cname, m))
            if f is None:
                continue
            ctx.stats['functions'].add(f.qn)
            loops = [s for s in f.walk() if isinstance(s, ast.For) and unparse(s.iter) in ('tiles', 'tiles_data')]
            if not loops:
                continue
            bad = []
            for lp in loops:
                for x in ast.walk(ast.Module(body=lp.body, type_ignores=[])):
                    if isinstance(x, ast.Return):
                        bad.append(x)
                    if isinstance(x, ast.Break) and enclosing(x, (ast.For, ast.While)) is lp:
                        # `break` after picking the first usable tile is the per-level dispatch idiom: allowed only there
                        if not (cname.endswith('LevelCache') and m == 'load_tiles'):
                            bad.append(x)
            ctx.check(not bad, '%s.%s:visits-every-tile' % (cname, m), 'the per-tile loop has no early return/break: a missing or failing tile does not end the bulk operation', f,
                      fail='%s.%s leaves its per-tile loop early (line %s): the tiles after the first missing/failing one are never loaded/stored' % (
                          cname, m, [b.lineno for b in bad]))
    base = ctx.repo.cls(COMPACT + ':CompactCacheBase')
    for m in ('load_tiles', 'store_tiles'):
        f = ctx.fn('%s:CompactCacheBase.%s' % (COMPACT, m))
        g = f.cfg
        # the set of bundle files: whatever local receives .add(<bundle file name>)
        adds = [x for x in f.walk() if isinstance(x, ast.Call) and isinstance(x.func, ast.Attribute) and x.func.attr == 'add' and
                isinstance(x.func.value, ast.Name) and x.args]
        cfm = Canon(f)
        keyed = [x for x in adds if contains(cfm.expr(x.args[0]), lambda y: is_call(y, 'self._get_bundle_fname_and_offset'))]
        S = keyed[0].func.value.id if keyed else 'bundle_files'
        adds = [x for x in adds if x.func.value.id == S]
        ok = bool(adds)
        for x in adds:
            a = cfm.expr(x.args[0])
            ok = ok and isinstance(a, ast.Subscript) and const_value(a.slice) == 0 and is_call(a.value, 'self._get_bundle_fname_and_offset') and \
                unparse(a.value.args[0]).endswith('coord')
        ctx.check(ok, 'CompactCacheBase.%s:shortcut-key' % m, 'the single-bundle shortcut collects bundle file names (level + bundle origin) of all tiles', f,
                  fail='the single-bundle shortcut is not keyed by the bundle file name: tiles of different levels/bundles are sent to one bundle')

        def ev(st, m=m):
            # closed form: the bundle may be held in a local before its bulk method is called
            if isinstance(st, (ast.Return, ast.Expr, ast.Assign)) and st.value is not None and id(st) in g.node_of and \
                    contains(cfm.expr(st.value, at=g.node_of[id(st)]), lambda x: isinstance(x, ast.Call) and isinstance(x.func, ast.Attribute) and
                             x.func.attr == m and is_call(x.func.value, 'self._get_bundle')):
                return 'shortcut'
            return None
        tab = ctx.rows(table(f.node.body, ret_kind, event_of=ev))
        one = [t for t in tab.atoms if tab.atom_objs[t].op == '==' and 'len(%s)' % S in t and
               1 in (const_value(tab.atom_objs[t].left), const_value(tab.atom_objs[t].right))]
        taken = [asg for asg, out, events in tab.assignments() if 'shortcut' in events]
        ok = len(one) == 1 and bool(taken) and all(asg[one[0]] for asg in taken)
        ctx.check(ok, 'CompactCacheBase.%s:shortcut-guard' % m, 'the shortcut is taken only when exactly one bundle file is involved (%d rows)' % len(tab.rows), f)
        fb = [x for x in f.walk() if is_call(x, 'self.load_tile' if m == 'load_tiles' else 'self.store_tile')]
        def per_tile(x):
            # inside a statement loop over the tiles, or the element of a *list* comprehension over them (a list is built completely
            # before all() looks at it: no tile is skipped; a generator inside all() would stop at the first failure)
            lp = enclosing(x, ast.For)
            if isinstance(lp, ast.For) and same(lp.iter, 'tiles'):
                return True
            comp = enclosing(x, (ast.ListComp,))
            return isinstance(comp, ast.ListComp) and len(comp.generators) == 1 and same(comp.generators[0].iter, 'tiles') and not comp.generators[0].ifs
        ok = bool(fb) and all(per_tile(x) for x in fb)
        ctx.check(ok, 'CompactCacheBase.%s:fallback-per-tile' % m, 'otherwise every tile is handled individually', f)


@rule('C05.m', floor=10)
def c05m(ctx):
    """a store to one address never destroys another address of the same bundle: every bundle mutation, and the construction of
    the V1 data/index objects that create missing files, happens under the bundle lock (shared rule C08.d)"""
    from ..engine import run_property
    sub = run_property(ctx.repo, 'C08', ctx.tier, only={'C08.d'})
    for er in sub.errors:
        raise Undecided('shared rule %s: %s' % er)
    for o in sub.obs:
        (ctx.ok if o.status == 'ok' else ctx.bad)('%s:%s' % (o.rule, o.construct), o.msg, o.where)
    ctx.stats['functions'] |= sub.stats['functions']


@rule('C05.n', floor=4)
def c05n(ctx):
    """shared rule, re-evaluated for this property: what the bundle writers pack the readers unpack -- the same struct formats, the
    same split of the V2 index entry into offset and size bits (C19.a): an offset read back with another width is another tile's data"""
    sub = run_property(ctx.repo, 'C19', ctx.tier, only={'C19.a'})
    for er in sub.errors:
        raise Undecided('shared rule %s: %s' % er)
    for o in sub.obs:
        if o.status == 'ok':
            ctx.ok('%s:%s' % (o.rule, o.construct), o.msg, o.where)
        else:
            ctx.bad('%s:%s' % (o.rule, o.construct), o.msg, o.where)
    ctx.stats['functions'] |= sub.stats['functions']


@rule('C05.o', floor=6)
def c05o(ctx):
    """tiles that differ only in a dimension value live at different places for *every* operation: each method of a cache that
    keeps dimension values apart (supports_dimensions) hands its `dimensions` argument on to every location it computes and to every
    sibling operation it delegates to -- an existence check, a load or a remove that computes the location without them addresses the
    tile of another (or no) dimension value"""
    for cls in ctx.repo.classes.values():
        if not cls.file.startswith('mapproxy/cache/') or '/test/' in cls.file:
            continue
        sd = cls.attr_value('supports_dimensions')
        if const_value(sd) is not True:
            continue
        n = 0
        for st in cls.node.body:
            if not isinstance(st, ast.FunctionDef) or 'dimensions' not in [a.arg for a in st.args.args + st.args.kwonlyargs]:
                continue
            if st.name in ('tile_location', 'level_location'):
                continue            # the location builders themselves (C05.b / C09.b)
            fn = ctx.fn('%s:%s.%s' % (cls.file, cls.name, st.name))
            for c in fn.walk():
                if not (isinstance(c, ast.Call) and isinstance(c.func, ast.Attribute) and isinstance(c.func.value, ast.Name) and c.func.value.id == 'self'):
                    continue
                callee = c.func.attr
                target = None
                for k in cls.mro():
                    for m in k.node.body:
                        if isinstance(m, ast.FunctionDef) and m.name == callee:
                            target = m
                            break
                    if target is not None:
                        break
                if target is None or 'dimensions' not in [a.arg for a in target.args.args + target.args.kwonlyargs]:
                    continue
                n += 1
                pos = [a.arg for a in target.args.args].index('dimensions') - 1 if 'dimensions' in [a.arg for a in target.args.args] else None
                d = keyword(c, 'dimensions', pos)
                ok = d is not None and same(d, 'dimensions')
                k_ = sum(1 for o in ctx.obs if o.construct.startswith('%s.%s:%s#' % (cls.name, st.name, callee)))
                ctx.check(ok, '%s.%s:%s#%d-gets-dimensions' % (cls.name, st.name, callee, k_),
                          'self.%s(...) receives the dimensions of the operation' % callee, fn, c,
                          fail='%s.%s calls self.%s without handing on `dimensions`: the operation addresses the tile of another dimension '
                               'value' % (cls.name, st.name, callee))
        if n == 0:
            raise Undecided('%s: no location computation with dimensions found' % cls.name)


@rule('C05.p', floor=1)
def c05p(ctx):
    """tiles that differ only in a dimension value never share a directory: the function that makes a dimension value safe for use as
    one directory name is injective.  Decided for the escape-character scheme: the value goes through a chain of single-character
    replacements c_i -> E + s_i where the escape character E itself is replaced first, the suffixes s_i have one length, are pairwise
    different and contain neither E nor any replaced character -- the original value can be read back from the result, so two
    different values give two different names.  (Mapping the separators to an ordinary character such as '_' is safe as a path, but
    'a/b' and 'a_b' then share a directory.)"""
    fn = ctx.fn(PATH + ':_dimension_dirname')
    rets = returns_of(fn.node)
    ok = len(rets) == 1
    detail = 'no single return'
    if ok:
        e = fn.canon.expr(rets[0].value)
        chain = []
        while isinstance(e, ast.Call) and isinstance(e.func, ast.Attribute) and e.func.attr == 'replace' and len(e.args) == 2:
            chain.append((const_value(e.args[0]), const_value(e.args[1])))
            e = e.func.value
        chain.reverse()
        base_ok = (is_call(e, 'str') and len(e.args) == 1 and unparse(e.args[0]) == fn.params[0]) or unparse(e) == fn.params[0]
        ok = base_ok and len(chain) >= 2 and all(isinstance(c, str) and len(c) == 1 and isinstance(r, str) and len(r) >= 2 for c, r in chain)
        detail = 'chain %s on %s' % (chain, unparse(e))
        if ok:
            E = chain[0][1][0]
            chars = [c for c, r in chain]
            sufs = [r[1:] for c, r in chain]
            ok = chain[0][0] == E and all(r[0] == E for c, r in chain) and len(set(chars)) == len(chars) and \
                len({len(x) for x in sufs}) == 1 and len(set(sufs)) == len(sufs) and \
                not any(ch in x for x in sufs for ch in chars) and {'/', '\\'} <= set(chars)
    ctx.check(ok, '_dimension_dirname:injective', 'dimension values are escaped with an escape character that is escaped first: different values, different names', fn,
              fail='the sanitiser of dimension values is not an injective escape scheme (%s): different dimension values can share a cache directory' % detail)


@rule('C05.q', floor=4)
def c05q(ctx):
    """a bulk load looks for every tile: the per-level caches ask the database of each level that occurs in the request.  The loads
    are not the operands of a short-circuit -- `all(<generator of loads>)`, `a and b`, or a loop that returns / breaks at the first level
    with a missing tile -- or the levels after it are never asked and their stored tiles are reported missing"""
    n = 0
    for rel, cname in (('mapproxy/cache/mbtiles.py', 'MBTilesLevelCache'), ('mapproxy/cache/geopackage.py', 'GeopackageLevelCache')):
        for m in ('load_tiles', 'store_tiles'):
            fn = ctx.fn('%s:%s.%s' % (rel, cname, m))
            calls = [x for x in fn.walk() if isinstance(x, ast.Call) and isinstance(x.func, ast.Attribute) and x.func.attr == m and
                     is_call(x.func.value, 'self._get_level')]
            if not calls:
                raise Undecided('%s.%s: no per-level call found' % (cname, m))
            for x in calls:
                n += 1
                why = None
                par, child = getattr(x, '_parent', None), x
                while par is not None and not isinstance(par, ast.stmt):
                    if isinstance(par, ast.GeneratorExp):
                        user = getattr(par, '_parent', None)
                        if isinstance(user, ast.Call) and call_name(user) in ('all', 'any', 'next'):
                            why = '%s(<generator>) stops at the first level that decides it' % call_name(user)
                    if isinstance(par, ast.BoolOp) and par.values[0] is not child:
                        why = 'a later operand of and / or is only evaluated when the earlier ones do not decide'
                    if isinstance(par, ast.IfExp) and par.test is not child:
                        why = 'one arm of a conditional expression'
                    child, par = par, getattr(par, '_parent', None)
                loop = enclosing(x, (ast.For, ast.While))
                if why is None and loop is not None:
                    # leaving the loop because of the answer of a level
                    for s_ in ast.walk(loop):
                        if isinstance(s_, (ast.Break, ast.Return)) and enclosing(s_, (ast.For, ast.While)) is loop:
                            why = 'the loop over the levels is left early (%s)' % type(s_).__name__.lower()
                ctx.check(why is None, '%s.%s:every-level-is-asked' % (cname, m), 'the database of every level in the request is asked', fn, x,
                          fail='%s.%s does not ask every level: %s' % (cname, m, why))
    if n < 4:
        raise Undecided('only %d per-level bulk calls found' % n)


@rule('C05.r', floor=3)
def c05r(ctx):
    """a tile that is stored once and linked from many addresses (`link_single_color_images`) is shared only between tiles that are the
    same image: the name of the shared file is the colour is_single_color_image reports, so that colour has to tell apart everything
    the pixels can differ in.  For a paletted image that is the palette entry *and* its transparency (image.info['transparency'], an
    index or an alpha table): with the RGB entry alone a fully transparent tile and an opaque one share a file, and an address returns
    bytes that were stored under another address (D53)"""
    fn = ctx.fn('mapproxy/image/__init__.py:is_single_color_image')
    g = fn.cfg
    defs = Defs(fn.node)
    is_p = lambda at: at.op == '==' and 'mode' in at.text and "'P'" in at.text
    rets = g.find_stmts(lambda s: isinstance(s, ast.Return) and s.value is not None and const_value(s.value, 1) is not False)
    p_rets = [n for n in rets if g.guarded(n, is_p, True)]
    if not p_rets:
        raise Undecided('is_single_color_image: no return under the mode == "P" test')
    reads_tr = lambda x: isinstance(x, ast.Constant) and x.value == 'transparency'
    reads_pal = lambda x: is_call(x, 'image.getpalette') or (isinstance(x, ast.Attribute) and x.attr == 'palette')
    ok_pal = all(depends(g.stmt[n].value, reads_pal, defs, control=True) for n in p_rets)
    ctx.check(ok_pal, 'is_single_color_image:paletted-colour-from-palette', 'the colour of a paletted image is looked up in its palette', fn,
              fail='is_single_color_image reports the palette index of a paletted image as its colour')
    ok_tr = any(depends(g.stmt[n].value, reads_tr, defs, control=True) for n in p_rets)
    ctx.check(ok_tr, 'is_single_color_image:paletted-colour-names-transparency',
              'the colour reported for a paletted image depends on the transparency of the palette entry', fn, g.stmt[p_rets[0]],
              fail='the colour of a paletted image ignores the transparency of its palette entry: a transparent and an opaque '
                   'single-colour tile share one linked file')
    # the consumer: the shared file is named by every component of that colour
    loc = ctx.fn('mapproxy/cache/file.py:FileCache._single_color_tile_location')
    p_color = loc.params[1]
    whole = [x for x in loc.walk() if isinstance(x, (ast.GeneratorExp, ast.ListComp)) and same(x.generators[0].iter, p_color)
             and not x.generators[0].ifs]
    ctx.check(bool(whole), 'FileCache._single_color_tile_location:all-components', 'the file name is built from every component of the colour', loc,
              fail='the shared file of a single-colour tile is not named by all components of the colour')
