"""C02 -- tile addresses mean what the capabilities documents say they mean.
Decided: public tile coordinates (what request objects carry) reach grid/tile-manager APIs
only through the converters (C02.a); the origin conventions of the request family and the
flip decision tables of _internal_tile_coord and origin_tile (C02.b); WMTS only advertises
grids it can address from the north-west and takes the top-left corner from the flipped
origin tile (C02.c); the public<->internal level mapping is applied consistently by
internal_tile_coord, external_tile_coord and tile_sets (C02.d); the addressing elements of the
TMS / WMTS / WMS-C capabilities templates are grid-derived and axis-correct (C02.e); the unit
constants behind scale denominators are defined consistently (C02.f).
Added in round 4: a tile put together from tiles of another level keeps every tile at its own grid
slot (C02.k, shared C01.f).
Added in round 6: the bbox and the cutting pattern of a meta tile describe the same block (C02.l,
shared C04.l)."""
import ast
import math
import re

from ..engine import rule, run_property
from ..model import Undecided, template_placeholders, xml_context
from ..cfg import same, dotted, call_name, is_call, simple_name, unparse, const_value, contains, enclosing
from ..flow import Canon, Defs, depends, consteval, try_const, NotConst
from ..decide import table, ret_kind
from ..util import component_expr, resolve1, keyword, returns_of, calls_in, inside, order_key

NOT_DECIDED = ('numeric agreement of the advertised numbers (units-per-pixel, scale denominators, matrix sizes, corners) '
               'with the served rectangles; the flip arithmetic for every grid')

CONVERTERS = {'internal_tile_coord', '_internal_tile_coord'}
INTERNAL_SINKS = {'tile_bbox', 'limit_tile', 'load_tile_coord', 'load_tile_coords', 'get_affected_level_tiles',
                  'flip_tile_coord', '_tiles_bbox', '_get_bbox', 'is_cached', 'lock'}
SERVICES = ['mapproxy/service/tile.py', 'mapproxy/service/wmts.py', 'mapproxy/service/kml.py', 'mapproxy/service/wms.py']


def _use_verdict(node, fn, defs, depth=4):
    """follow the value of expression `node` (a public tile coordinate or a component of it) to its uses.
    returns list of (verdict, where-node, text) with verdict in ok/bad"""
    out = []
    par = getattr(node, '_parent', None)
    cur = node
    while par is not None:
        if isinstance(par, ast.Call) and cur is not par.func:
            nm = simple_name(par)
            if nm in CONVERTERS:
                return [('ok', par, 'argument of converter %s' % nm)]
            if nm in INTERNAL_SINKS:
                # calls on a TileLayer take the *request* (converted inside); calls that receive the coordinate itself are sinks
                return [('bad', par, 'public coordinate passed to %s, which expects an internal tile coordinate' % unparse(par.func))]
            return [('ok', par, 'public use in %s(...)' % nm)]
        if isinstance(par, (ast.If, ast.While, ast.IfExp)) and cur is par.test:
            return [('ok', par, 'truthiness test')]
        if isinstance(par, ast.Compare):
            return [('ok', par, 'comparison')]
        if isinstance(par, ast.Assign) and cur is par.value and depth > 0:
            res = []
            for t in par.targets:
                if isinstance(t, ast.Name):
                    for u in fn.walk_all():
                        if isinstance(u, ast.Name) and u.id == t.id and isinstance(u.ctx, ast.Load) and \
                                (u.lineno, u.col_offset) > (par.lineno, par.col_offset):
                            res += _use_verdict(u, fn, defs, depth - 1)
                elif isinstance(t, ast.Tuple):
                    res.append(('ok', par, 'unpacked into components'))
                else:
                    res.append(('ok', par, 'stored'))
            return res or [('ok', par, 'bound, never used')]
        if isinstance(par, ast.Return):
            return [('ok', par, 'returned')]
        if isinstance(par, (ast.stmt,)):
            return [('ok', par, 'statement')]
        cur, par = par, getattr(par, '_parent', None)
    return out


@rule('C02.a', floor=5)
def c02a(ctx):
    n = 0
    for rel in SERVICES:
        for fn in sorted(ctx.repo.fns_in(rel + ':'), key=lambda f: f.qn):
            reqparams = {p for p in fn.params if 'request' in p}
            if not reqparams:
                continue
            defs = Defs(fn.node)
            for x in sorted([y for y in fn.walk_all() if isinstance(y, ast.Attribute) and y.attr == 'tile' and
                             isinstance(y.ctx, ast.Load) and isinstance(y.value, ast.Name) and y.value.id in reqparams], key=order_key):
                n += 1
                verdicts = _use_verdict(x, fn, defs)
                bad = [v for v in verdicts if v[0] == 'bad']
                k = sum(1 for o in ctx.obs if o.construct.startswith(fn.short + ':public-tile-read'))
                ctx.check(not bad, '%s:public-tile-read%d' % (fn.short, k),
                          'the public coordinate %s is only converted, tested or used as a public name (%s)' % (
                              unparse(x), '; '.join(sorted({v[2] for v in verdicts}))), fn, x,
                          fail='%s: the public (request) tile coordinate is used as an internal one without conversion '
                               '(origin flip / level mapping / bounds are skipped): %s' % (unparse(x), '; '.join(v[2] for v in bad)))


def _class_origin(ctx, cq):
    """final value of .origin for instances of request class cq: class attribute through MRO, overridden by
    `self.origin = <const>` at the end of __init__/make_request"""
    cls = ctx.repo.cls(cq)
    val = None
    v = cls.attr_value('origin')
    if v is not None:
        val = const_value(v, 'nonconst')
    dyn = False
    state = {'val': val, 'dyn': False}

    def scan(m, depth=0):
        ctx.stats['functions'].add(m.qn)
        for st in sorted([x for x in m.walk() if isinstance(x, (ast.Assign, ast.Expr))], key=order_key):
            if isinstance(st, ast.Expr) and isinstance(st.value, ast.Call) and isinstance(st.value.func, ast.Attribute) \
                    and st.value.func.attr == m.name and depth < 4:
                base = st.value.func.value
                q = ctx.repo.resolve_name(m.mod, base) if isinstance(base, ast.Name) else None
                if q in ctx.repo.classes:
                    bm = ctx.repo.classes[q].method(m.name)
                    if bm is not None:
                        scan(bm, depth + 1)
                elif is_call(base, 'super') and m.cls is not None and len(m.cls.mro()) > 1:
                    for c2 in m.cls.mro()[1:]:
                        bm = c2.own_method(m.name)
                        if bm is not None:
                            scan(bm, depth + 1)
                            break
            if isinstance(st, ast.Assign) and any(same(t, 'self.origin') for t in st.targets):
                c = const_value(st.value, 'nonconst')
                if c == 'nonconst':
                    state['dyn'] = True
                else:
                    state['val'] = c
                    state['dyn'] = False
    for mname in ('__init__', 'make_request', '_init_request'):
        m = cls.method(mname)
        if m is not None:
            scan(m)
    val, dyn = state['val'], state['dyn']
    return val, dyn


@rule('C02.b', floor=10)
def c02b(ctx):
    W = 'mapproxy/request/wmts.py:'
    for cname in ('WMTS100TileRequest', 'WMTS100FeatureInfoRequest', 'WMTS100RestTileRequest', 'WMTS100RestFeatureInfoRequest'):
        val, dyn = _class_origin(ctx, W + cname)
        c = ctx.repo.cls(W + cname)
        if dyn and cname.startswith('WMTS100Rest'):
            # TileRequest.__init__ reads ?origin= after _init_request; the REST classes have their own __init__
            init = c.method('__init__')
            dyn = init is not None and init.cls.name == 'TileRequest'
        ctx.check(val == 'nw' and not dyn, '%s:origin-nw' % cname, 'WMTS requests address tiles from the north-west (origin == "nw")',
                  (c.file, c.node.lineno),
                  fail='%s.origin is %r: WMTS rows count from the top, the tile layer would not flip (or flip wrongly) for this request class' % (cname, val))
    val, dyn = _class_origin(ctx, 'mapproxy/request/tile.py:TMSRequest')
    c = ctx.repo.cls('mapproxy/request/tile.py:TMSRequest')
    ctx.check(val == 'sw', 'TMSRequest:origin-sw', 'TMS requests address tiles from the south-west', (c.file, c.node.lineno))
    init = ctx.fn('mapproxy/request/tile.py:TileRequest.__init__')
    # the constructor is specialised for sample values of ?origin=: what it leaves in self.origin is the value itself for sw / nw /
    # nothing, and None for anything else (whatever way the whitelist is written)
    bad = []
    for v in ('sw', 'nw', None, 'ul', 'll', 'xx', ''):
        sp = ctx.repo.specialise(init, {"self.http.args.get('origin')": v})
        final = getattr(sp.node, '_final_env', {}).get('self.origin')
        want = v if v in ('sw', 'nw') else None
        if final is None or not isinstance(final, ast.Constant) or final.value != want:
            bad.append((v, unparse(final) if final is not None else 'undetermined'))
    ok = not bad
    ctx.check(ok, 'TileRequest.__init__:origin-whitelist', '?origin= accepts only sw / nw (7 sample values)', init,
              fail='TileRequest keeps an ?origin= value other than sw / nw (or drops a valid one): %s' % bad[:2])
    for m in ('map', 'kml'):
        fn = ctx.fn('mapproxy/service/kml.py:KMLServer.' + m)
        g = fn.cfg
        sets = g.find_stmts(lambda s: isinstance(s, ast.Assign) and unparse(s.targets[0]).endswith('.origin') and const_value(s.value) == 'sw')
        uses = g.find(lambda x: is_call(x, 'self.layer', 'render', 'tile_bbox', '_tile_wgs_bbox', '_get_subtiles'))
        ok = bool(sets) and bool(uses) and all(any(g.dominates(s, n) for s in sets) for n, _ in uses)
        ctx.check(ok, 'KMLServer.%s:origin-sw-first' % m, 'KML forces origin "sw" before the layer is addressed', fn)
    tm = ctx.fn('mapproxy/service/tile.py:TileServer.map')
    g = tm.cfg
    sets = g.find_stmts(lambda s: isinstance(s, ast.Assign) and unparse(s.targets[0]) == 'tile_request.origin')
    ok = all(same(g.stmt[n].value, 'self.origin') and
             g.guarded(n, lambda at: at.op is None and same(at.expr, 'tile_request.origin'), False) for n in sets)
    ctx.check(ok, 'TileServer.map:configured-origin-only-as-default', 'the configured origin is only a default for requests without ?origin=', tm)
    # flip decision table
    fn = ctx.fn('mapproxy/service/tile.py:TileLayer._internal_tile_coord')

    def ev(st):
        if isinstance(st, (ast.Assign, ast.Return, ast.Expr)) and contains(st, lambda x: is_call(x, 'flip_tile_coord')):
            return 'flip'
        return None
    # the function is specialised for every pair (requested origin, grid origin); what is left must flip exactly when the two
    # number the rows from different edges -- whatever way the dispatch is written (if-chain, lookup table, named condition)
    NORTH, SOUTH = ('ul', 'nw'), ('ll', 'sw', None)
    bad, rows = [], 0
    for ro in ('nw', 'sw', 'other', None):
        for go in NORTH + SOUTH:
            sp = ctx.repo.specialise(fn, {'tile_request.origin': ro, 'self.grid.origin': go})
            tab = table(sp.node.body, lambda n: 'raise' if isinstance(n, ast.Raise) else 'return', event_of=ev)
            rows += len(tab.rows)
            a_none = [a for a in tab.atoms if 'None' in a and 'tile_coord' in a]
            if len(a_none) != 1 or len(tab.atoms) != 1:
                bad.append((ro, go, 'undecided tests left: %s' % tab.atoms))
                continue
            flip = (ro == 'nw' and go not in NORTH) or (ro == 'sw' and go not in SOUTH)
            for asg, out, events in tab.assignments():
                want = ('raise', ()) if asg[a_none[0]] else ('return', ('flip',) if flip else ())
                if (out, events) != want:
                    bad.append((ro, go, out, events))
    ctx.rows_seen = getattr(ctx, 'rows_seen', 0)
    ctx.check(not bad, 'TileLayer._internal_tile_coord:flip-table',
              'flip <=> (request nw and grid not in {ul,nw}) or (request sw and grid not in {ll,sw,None}); None -> TileOutOfRange '
              '(20 origin pairs, %d rows)' % rows,
              fn, fail='the origin flip is applied for the wrong combinations of (request origin, grid origin): %s' % (bad[:2],))
    defs = Defs(fn.node)
    conv = [v for v, sel in defs.of('tile_coord') if is_call(v, 'internal_tile_coord')]
    ok = len(conv) == 1 and depends(conv[0].args[0], lambda x: isinstance(x, ast.Attribute) and x.attr == 'tile', defs)
    ctx.check(ok, 'TileLayer._internal_tile_coord:converts-first', 'the public coordinate is first mapped by grid.internal_tile_coord (level mapping + bounds)', fn)
    # capabilities side: origin_tile
    ot = ctx.fn('mapproxy/grid.py:TileGrid.origin_tile')
    # closed form of the result under either outcome of the comparison requested origin == grid origin
    tab0 = table(ot.node.body, lambda n: 'x')
    eq = [a for a in tab0.atoms if 'origin_from_string' in a and 'self.origin' in a]
    ok = len(eq) == 1
    if ok:
        for val, want in ((True, '(0,0,level)'), (False, 'self.flip_tile_coord((0,0,level))')):
            cf = Canon(ot, assume={eq[0]: val})
            forms = {cf.text(r.value) for r in returns_of(ot.node) if r.value is not None and ot.cfg.node_of.get(id(r)) not in cf.infeasible}
            ok = ok and forms == {want}
    ctx.check(ok, 'TileGrid.origin_tile:flip-table', 'origin_tile flips (0,0,level) iff the requested origin differs from the grid origin', ot,
              fail='origin_tile flips exactly when the origins are EQUAL: the advertised TopLeftCorner of every grid whose origin '
                   'differs from "ul" is the corner of the bottom-left tile')
    ok = any(isinstance(s, ast.Assert) and contains(s.test, lambda x: is_call(x, 'supports_access_with_origin')) for s in ot.walk())
    ctx.check(ok, 'TileGrid.origin_tile:asserts-compatible', 'origin_tile asserts that the grid can be addressed from that origin', ot)
    ofs = ctx.fn('mapproxy/grid.py:origin_from_string')
    tab = ctx.rows(table(ofs.node.body, ret_kind, event_of=lambda st: unparse(st.value) if isinstance(st, ast.Assign) and unparse(st.targets[0]) == 'origin' else None))
    ok = True
    for asg, out, events in tab.assignments():
        a_n = [a for a in tab.atoms if 'None' in a]
        a_l = [a for a in tab.atoms if "'ll'" in a]
        a_u = [a for a in tab.atoms if "'ul'" in a]
        if not (len(a_n) == len(a_l) == len(a_u) == 1):
            ok = False
            break
        if asg[a_n[0]] or asg[a_l[0]]:
            ok = ok and events == ('ORIGIN_LL',)
        elif asg[a_u[0]]:
            ok = ok and events == ('ORIGIN_UL',)
    pname = ofs.params[0]
    if not ok and not any(isinstance(x, ast.Name) and x.id == pname and isinstance(x.ctx, ast.Store) for x in ofs.walk()):
        # another spelling (alias table, guard clauses): decided by partial evaluation for sample values of the argument
        ok = True
        for v, want in ((None, 'ORIGIN_LL'), ('ll', 'ORIGIN_LL'), ('sw', 'ORIGIN_LL'), ('ul', 'ORIGIN_UL'), ('nw', 'ORIGIN_UL'), ('SW', 'ORIGIN_LL'),
                        ('Nw', 'ORIGIN_UL'), ('xx', None), ('', None)):
            sp = ctx.repo.specialise(ofs, {pname: v})
            live = [s_ for s_ in sp.node.body if not (isinstance(s_, ast.Expr) and isinstance(s_.value, ast.Constant))]
            last = live[-1] if live else None
            if want is None:
                ok = ok and isinstance(last, ast.Raise)
            else:
                ok = ok and isinstance(last, ast.Return) and last.value is not None and unparse(Canon(sp).expr(last.value)) == want and \
                    not any(isinstance(x, ast.Raise) for x in live)
    ctx.check(ok, 'origin_from_string:table', 'None/ll/sw -> lower left, ul/nw -> upper left', ofs)


@rule('C02.c', floor=5)
def c02c(ctx):
    fn = ctx.fn('mapproxy/service/wmts.py:WMTSServer._matrix_sets')
    g = fn.cfg
    support = lambda at: at.mentions(lambda x: is_call(x, 'supports_access_with_origin') and x.args and const_value(x.args[0]) in ('nw', 'ul'))
    tms = g.find(lambda x: is_call(x, 'TileMatrixSet'))
    regs = g.find_stmts(lambda s: isinstance(s, ast.Assign) and isinstance(s.targets[0], ast.Subscript) and same(s.value, 'layer'))
    for n, x in tms:
        ctx.check(g.guarded(n, support, True), 'WMTSServer._matrix_sets:matrix-set-only-if-nw', 'a TileMatrixSet is only built for a grid that '
                  'supports_access_with_origin("nw")', fn, x,
                  fail='a TileMatrixSet is advertised for grids that cannot be addressed from the north-west: advertised rows do not '
                       'line up with the served tiles')
    for n in regs:
        ctx.check(g.guarded(n, support, True), 'WMTSServer._matrix_sets:layer-only-if-nw', 'a layer/grid pair is only registered for such grids', fn, g.stmt[n])
    if not tms or not regs:
        ctx.bad('WMTSServer._matrix_sets:shape', 'TileMatrixSet(...) / layer registration not found', fn)
    tm = ctx.fn('mapproxy/service/wmts.py:TileMatrixSet._tile_matrices')
    defs = Defs(tm.node)
    g = tm.cfg
    ys0 = [x for x in tm.walk() if is_call(x, 'bunch')]
    tlarg = keyword(ys0[0], 'topleft') if ys0 else None
    # every binding of the corner: a pair whose components come from tile_bbox(origin_tile(level, 'ul'))
    if isinstance(tlarg, ast.Name):
        tls = [(n, g.stmt[n].value) for n in g.find_stmts(lambda s: isinstance(s, ast.Assign) and unparse(s.targets[0]) == tlarg.id)]
    elif isinstance(tlarg, ast.IfExp):
        tls = []
    else:
        tls = [(g.node_for(tlarg), tlarg)] if tlarg is not None else []
    comps, ok_o, ok_b = [], bool(tls), bool(tls)
    for n, v in tls:
        cs = [component_expr(e, defs) for e in v.elts] if isinstance(v, ast.Tuple) and len(v.elts) == 2 else [None, None]
        comps.append((n, cs))
        for c in cs:
            ok_b = ok_b and c is not None and is_call(c[0], 'tile_bbox') and len(c[0].args) == 1
            if ok_b:
                t = resolve1(c[0].args[0], defs)
                ok_o = ok_o and is_call(t, 'origin_tile') and len(t.args) == 2 and const_value(t.args[1]) in ('ul', 'nw') and same(t.args[0], 'level')
    ctx.check(ok_o and ok_b, 'TileMatrixSet._tile_matrices:origin-tile-ul', 'the corner tile is grid.origin_tile(level, "ul")', tm)
    ctx.check(ok_b, 'TileMatrixSet._tile_matrices:corner-from-tile-bbox', 'the corner is taken from tile_bbox(origin tile)', tm)
    ok = len(tls) == 2 and ok_b
    for n, cs in comps:
        idx = [c[1] if c else None for c in cs]
        swapped = g.guarded(n, lambda at: at.op is None and 'is_axis_order_ne' in unparse(at.expr), True)
        ok = ok and idx == ([3, 0] if swapped else [0, 3])
    ok = ok and any(g.guarded(n, lambda at: at.op is None and 'is_axis_order_ne' in unparse(at.expr), True) for n, _ in tls)
    ctx.check(ok, 'TileMatrixSet._tile_matrices:topleft', 'topleft = (minx, maxy), swapped to (maxy, minx) only for north/east axis order', tm,
              fail='TopLeftCorner is not (bbox[0], bbox[3]) (swapped only under is_axis_order_ne)')
    ys = [x for x in tm.walk() if is_call(x, 'bunch')]
    ok = bool(ys) and keyword(ys[0], 'grid_size') is not None and same(keyword(ys[0], 'tile_size'), 'self.grid.tile_size') \
        and same(keyword(ys[0], 'identifier'), 'level')
    ok = ok and same(keyword(ys[0], 'grid_size'), 'self.grid.grid_sizes[level]')
    ctx.check(ok, 'TileMatrixSet._tile_matrices:per-level-values', 'identifier, grid size, tile size and corner of one matrix come from the same level', tm)


@rule('C02.d', floor=5)
def c02d(ctx):
    T = 'mapproxy/service/tile.py:TileServiceGrid.'
    itc = ctx.fn(T + 'internal_tile_coord')
    etc = ctx.fn(T + 'external_tile_coord')

    import itertools
    FLAGS = ['use_profiles', 'self._skip_first_level', 'self._skip_odd_level']

    def norm(txt):
        return ast.unparse(ast.parse(txt, mode='eval').body).replace(' ', '')

    def level_forms(fn, pick):
        """closed form of the level component of the result under every truth assignment of the three flags"""
        out = {}
        for vals in itertools.product([False, True], repeat=3):
            cf = Canon(fn, assume=dict(zip(FLAGS, vals)))
            forms = set()
            for r in returns_of(fn.node):
                if r.value is None or const_value(r.value, 1) is None or fn.cfg.node_of.get(id(r)) in cf.infeasible:
                    continue
                e = pick(cf.expr(r.value))
                forms.add(ast.unparse(e).replace(' ', '') if e is not None else '?')
            out[vals] = forms
        return out

    def triple_level(e):
        if is_call(e, 'self.grid.limit_tile', 'limit_tile') and e.args:
            e = e.args[0]
        return e.elts[2] if isinstance(e, ast.Tuple) and len(e.elts) == 3 else None
    fi, fe = level_forms(itc, triple_level), level_forms(etc, triple_level)
    Z = 'tile_coord[2]'
    bad_i, bad_e = [], []
    for (up, first, odd), forms in sorted(fi.items()):
        z = Z
        if up and first:
            z = '(%s+1)' % z
        if odd:
            z = '%s*2' % z
        if forms != {norm(z)}:
            bad_i.append(((up, first, odd), sorted(forms), norm(z)))
    ctx.check(not bad_i, 'TileServiceGrid:internal-order', 'internal level = (z + first-level skip) * odd-level factor, the first-level skip only with profiles', itc,
              fail='internal level mapping is not (z + skip) * factor: flags (profiles, first, odd) -> got / want: %s' % bad_i[:2])
    for (up, first, odd), forms in sorted(fe.items()):
        a = 1 if (up and first) else 0
        # both inverses of (z + a) * m on its image
        w1 = '(%s-1)' % Z if a else Z
        w1 = '%s//2' % w1 if odd else w1
        w2 = '%s//2' % Z if odd else Z
        w2 = '%s-1' % w2 if a else w2
        if not forms or not forms <= {norm(w1), norm(w2)}:
            bad_e.append(((up, first, odd), sorted(forms), norm(w1)))
    ctx.check(not bad_e, 'TileServiceGrid:level-ops-inverse', 'the external mapping applies the inverse operations (-1 where the internal adds 1, //2 where it doubles) '
              'under the same flags', etc, fail='external level mapping does not invert the internal one: flags (profiles, first, odd) -> got / want: %s' % bad_e[:2])
    ctx.check(not bad_i and not bad_e, 'TileServiceGrid:level-guards-agree', 'internal_tile_coord and external_tile_coord adjust the level under the same two guards', itc,
              fail='level mapping guards differ between internal_tile_coord and external_tile_coord')
    # result goes through limit_tile
    g = itc.cfg
    rets = g.find_stmts(lambda s: isinstance(s, ast.Return))
    ok = bool(rets) and all(const_value(g.stmt[n].value, 1) is None or is_call(g.stmt[n].value, 'self.grid.limit_tile', 'limit_tile') for n in rets)
    ctx.check(ok, 'TileServiceGrid.internal_tile_coord:limited', 'every result is None or grid.limit_tile(...)', itc)
    negs = [n for n in rets if const_value(g.stmt[n].value, 1) is None]
    ok = bool(negs) and all(g.guarded(n, lambda at: at.op == '<' and 'z' in unparse(at.left) and const_value(at.right) == 0, True) for n in negs)
    ctx.check(ok, 'TileServiceGrid.internal_tile_coord:negative-level', 'a negative level yields None', itc)
    # tile_sets start/step table over the two flags
    ts = ctx.fn(T + 'tile_sets')

    # decided by partial evaluation: the function is specialised for the four values of the two flags and the range(...) that is
    # left is read (an if-nest, a conditional expression and a table indexed by the flags all leave the same constants)
    bad, ok = [], True
    for first in (False, True):
        for odd in (False, True):
            sp = ctx.repo.specialise(ts, {'self._skip_first_level': first, 'self._skip_odd_level': odd})
            rngs = [x for x in sp.walk() if is_call(x, 'range')]
            if len(rngs) != 1 or not 1 <= len(rngs[0].args) <= 3:
                ok = False
                continue
            cs = Canon(sp)
            args = [const_value(cs.expr(a), "?") for a in rngs[0].args]
            start = 0 if len(args) == 1 else args[0]
            step = 1 if len(args) < 3 else args[2]
            want_start = (1 if first else 0) * (2 if odd else 1)
            want_step = 2 if odd else 1
            if (start, step) != (want_start, want_step) or type(start) is not int or type(step) is not int:
                bad.append((first, odd, {'start': unparse(rngs[0].args[0]) if len(args) > 1 else 0,
                                         'step': unparse(rngs[0].args[2]) if len(args) > 2 else 1}))
    ctx.check(ok and not bad, 'TileServiceGrid.tile_sets:start-step', 'advertised tile sets start at (first-level skip)*(odd factor) and step by the odd factor, '
              'the image of public levels 0,1,2,... under internal_tile_coord', ts,
              fail='tile_sets advertises levels that internal_tile_coord does not map to: %s' % bad[:2])
    # the pairing loop (statement or comprehension): for order, level in enumerate(range(start, <levels>, step)) -> (order, resolutions[level])
    cft = Canon(ts)
    its = [(x.target, x.iter, None) for x in ts.walk() if isinstance(x, ast.For)] + \
          [(gen.target, gen.iter, x.elt) for x in ts.walk() if isinstance(x, (ast.ListComp, ast.GeneratorExp)) for gen in x.generators]
    ok = False
    for tgt, it, elt in its:
        it = resolve1(it, Defs(ts.node))
        if not (is_call(it, 'enumerate') and it.args and isinstance(tgt, ast.Tuple) and len(tgt.elts) == 2):
            continue
        rng = resolve1(it.args[0], Defs(ts.node))
        if not is_call(rng, 'range') or len(rng.args) != 3:
            continue
        a0, a1, a2 = [unparse(x) for x in rng.args]
        if cft.text(rng.args[1], at=ts.cfg.node_for(rng)) not in ('self.grid.levels',):
            continue
        order, level = [unparse(e) for e in tgt.elts]
        if elt is None:
            app = [x for x in ts.walk() if isinstance(x, ast.Call) and simple_name(x) == 'append' and x.args]
            elt = app[0].args[0] if app else None
        ok = elt is not None and same(elt, '(%s,self.grid.resolutions[%s])' % (order, level))
    ctx.check(ok, 'TileServiceGrid.tile_sets:order-resolution', 'order k is paired with the resolution of internal level start + k*step', ts)


# element/attribute -> (required root, index or None)
GRID_ROOTS = ('layer.grid.', 'matrix.', 'tile_matrix_set.', 'grid.')
TEMPLATE_RULES = {
    'mapproxy/service/templates/tms_tilemap_capabilities.xml': [
        ('Origin', 'x', 'grid', 0), ('Origin', 'y', 'grid', 1),
        ('TileFormat', 'width', 'grid', 0), ('TileFormat', 'height', 'grid', 1),
        ('TileSets', 'profile', 'grid', None), ('TileSet', 'units-per-pixel', 'loop:layer.grid.tile_sets', None),
        ('BoundingBox', 'minx', 'any', 0), ('BoundingBox', 'miny', 'any', 1), ('BoundingBox', 'maxx', 'any', 2), ('BoundingBox', 'maxy', 'any', 3),
    ],
    'mapproxy/service/templates/wmts100capabilities.xml': [
        ('TopLeftCorner', None, 'grid', (0, 1)), ('TileWidth', None, 'grid', 0), ('TileHeight', None, 'grid', 1),
        ('MatrixWidth', None, 'grid', 0), ('MatrixHeight', None, 'grid', 1), ('ScaleDenominator', None, 'grid', None),
    ],
    'mapproxy/service/templates/wms111capabilities.xml': [
        ('Resolutions', None, 'loop:layer.grid.tile_sets', None), ('Width', None, 'grid', 0), ('Height', None, 'grid', 1),
        ('BoundingBox', 'minx', 'any', 0), ('BoundingBox', 'miny', 'any', 1), ('BoundingBox', 'maxx', 'any', 2), ('BoundingBox', 'maxy', 'any', 3),
    ],
}
ATTR_FIELD = {'TopLeftCorner': 'topleft', 'TileWidth': 'tile_size', 'TileHeight': 'tile_size', 'MatrixWidth': 'grid_size',
              'MatrixHeight': 'grid_size', 'ScaleDenominator': 'scale_denom', 'Width': 'tile_size', 'Height': 'tile_size',
              ('TileFormat', 'width'): 'tile_size', ('TileFormat', 'height'): 'tile_size', ('Origin', 'x'): 'bbox', ('Origin', 'y'): 'bbox'}


@rule('C02.e', floor=24)
def c02e(ctx):
    for rel, rules in TEMPLATE_RULES.items():
        text = ctx.repo.template(rel)
        ph = template_placeholders(text)
        loops = {}
        for kind, body, flt, pos, line in ph:
            if kind == 'directive' and body.startswith('for '):
                m = re.match(r'for\s+(.+?)\s+in\s+(.+)$', body)
                if m:
                    for v in re.split(r'\s*,\s*', m.group(1)):
                        loops[v.strip()] = m.group(2).strip()
        found = {}
        for kind, body, flt, pos, line in ph:
            if kind != 'expr':
                continue
            el, attr = xml_context(text, pos)
            found.setdefault((el, attr), []).append((body, line))
        for el, attr, root, idx in rules:
            exprs = found.get((el, attr), [])
            construct = '%s:%s%s' % (rel.split('/')[-1], el, '@' + attr if attr else '')
            if not exprs:
                ctx.bad(construct, 'no placeholder found for <%s%s>' % (el, ' ' + attr if attr else ''), (rel, 0))
                continue
            idxs = list(idx) if isinstance(idx, tuple) else [idx] * len(exprs)
            if isinstance(idx, tuple) and len(exprs) != len(idx):
                ctx.bad(construct, '<%s> has %d placeholders, expected %d' % (el, len(exprs), len(idx)), (rel, exprs[0][1]))
                continue
            for (body, line), want_idx in zip(exprs, idxs):
                e = body.strip()
                try:
                    node = ast.parse(e, mode='eval').body
                except SyntaxError:
                    ctx.bad(construct, 'placeholder %r is not an expression' % e, (rel, line))
                    continue
                # space
                base = node
                got_idx = None
                if isinstance(base, ast.Subscript):
                    got_idx = const_value(base.slice)
                    base = base.value
                path = unparse(base)
                if root == 'grid':
                    ok_space = path.startswith(GRID_ROOTS) or path + '.' in GRID_ROOTS
                    why = 'is rooted at %s, not at the tile grid (layer.grid / matrix): it describes the layer extent, not the tile addressing' % path
                elif root.startswith('loop:'):
                    src = loops.get(path)
                    ok_space = src is not None and src.replace(' ', '') == root[5:]
                    why = 'is not the loop variable over %s' % root[5:]
                else:
                    ok_space = True
                    why = ''
                ctx.check(ok_space, construct + ':space', '{{%s}} in <%s%s> is grid-derived' % (e, el, ' ' + attr if attr else ''),
                          (rel, line), fail='{{%s}} in <%s%s> %s' % (e, el, ' ' + attr if attr else '', why))
                if want_idx is not None:
                    ctx.check(got_idx == want_idx, construct + ':axis', '{{%s}} uses index %s for <%s%s>' % (e, want_idx, el, ' ' + attr if attr else ''),
                              (rel, line), fail='{{%s}} fills <%s%s> with index %s, expected index %s (x/width/minx/Matrix-/TileWidth = 0, '
                              'y/height/miny = 1, maxx = 2, maxy = 3)' % (e, el, ' ' + attr if attr else '', got_idx, want_idx))
                fld = ATTR_FIELD.get((el, attr)) or ATTR_FIELD.get(el)
                if fld:
                    last = path.split('.')[-1]
                    ctx.check(last == fld, construct + ':field', '<%s%s> is filled from .%s' % (el, ' ' + attr if attr else '', fld), (rel, line),
                              fail='<%s%s> is filled from %s, expected the grid\'s %s' % (el, ' ' + attr if attr else '', path, fld))


@rule('C02.f', floor=3)
def c02f(ctx):
    repo = ctx.repo
    gm = repo.mod('mapproxy/grid.py')
    wm = repo.mod('mapproxy/service/wmts.py')
    px = try_const(ast.Name(id='OGC_PIXEL_SIZE'), repo, gm)
    tm = ctx.fn('mapproxy/service/wmts.py:TileMatrixSet._tile_matrices')
    defs = Defs(tm.node)
    bn = [x for x in tm.walk() if is_call(x, 'bunch')]
    sdarg = keyword(bn[0], 'scale_denom') if bn else None
    sd = [resolve1(sdarg, defs)] if sdarg is not None else []
    ok = False
    got = None
    if len(sd) == 1:
        v = sd[0]
        # res / <pixel size> * meter_per_unit(...)
        for x in ast.walk(v):
            if isinstance(x, ast.BinOp) and isinstance(x.op, ast.Div) and same(x.left, 'res'):
                got = try_const(x.right, repo, wm)
        ok = got is not None and px is not None and abs(got - px) <= 1e-12 * abs(px) and \
            contains(v, lambda x: is_call(x, 'meter_per_unit')) and isinstance(v, ast.BinOp) and isinstance(v.op, ast.Mult)
    ctx.check(ok, 'TileMatrixSet._tile_matrices:pixel-size', 'scale denominator = res / %s * metres per unit, with the pixel size of grid.OGC_PIXEL_SIZE' % px, tm,
              fail='the scale denominator uses pixel size %s, grid.py uses OGC_PIXEL_SIZE = %s (or the formula is not res / pixel * metres-per-unit)' % (got, px))
    mpd = try_const(ast.Name(id='METERS_PER_DEEGREE'), repo, wm)
    d2m = ctx.fn('mapproxy/grid.py:deg_to_m')
    r = returns_of(d2m.node)
    try:
        val = consteval(r[0].value, repo, gm, env={'deg': 1}) if r else None
    except NotConst:
        val = None
    ok = mpd is not None and val is not None and abs(val - mpd) <= 1e-9 * mpd
    ctx.check(ok, 'wmts:meters-per-degree', 'METERS_PER_DEEGREE (%s) agrees with grid.deg_to_m(1) (%s)' % (mpd, val), (wm.rel, 0),
              fail='METERS_PER_DEEGREE = %s but grid.deg_to_m(1) = %s' % (mpd, val))
    mpu = ctx.fn('mapproxy/service/wmts.py:meter_per_unit')
    g = mpu.cfg
    rets = g.find_stmts(lambda s: isinstance(s, ast.Return))
    ok = len(rets) == 2
    for n in rets:
        v = g.stmt[n].value
        if same(v, 'METERS_PER_DEEGREE'):
            ok = ok and g.guarded(n, lambda at: at.op is None and 'is_latlong' in unparse(at.expr), True)
        else:
            ok = ok and const_value(v) == 1 and not g.guarded(n, lambda at: at.op is None and 'is_latlong' in unparse(at.expr), True)
    ctx.check(ok, 'meter_per_unit:table', 'degrees -> METERS_PER_DEEGREE, everything else -> 1', mpu)


@rule('C02.g', floor=1)
def c02g(ctx):
    """the image delivered for an address shows its rectangle: tiles cut at a truncated meta-tile border keep their overhang
    offset (shared rule C04.e)"""
    sub = run_property(ctx.repo, 'C04', ctx.tier, only={'C04.e'})
    for er in sub.errors:
        raise Undecided('shared rule %s: %s' % er)
    for o in sub.obs:
        (ctx.ok if o.status == 'ok' else ctx.bad)('%s:%s' % (o.rule, o.construct), o.msg, o.where)
    ctx.stats['functions'] |= sub.stats['functions']


C02H = ['mapproxy/grid.py:TileGrid.tile_bbox', 'mapproxy/grid.py:TileGrid._tiles_bbox', 'mapproxy/grid.py:TileGrid.tile',
        'mapproxy/grid.py:TileGrid.origin_tile', 'mapproxy/grid.py:TileGrid.flip_tile_coord', 'mapproxy/grid.py:TileGrid._calc_bbox',
        'mapproxy/grid.py:TileGrid._calc_grids']


@rule('C02.h', floor=5)
def c02h(ctx):
    """the rectangle computed for an address uses the tile width on the x axis and the tile height on the y axis in every branch
    (also for north-west grids): axis discipline of the address <-> rectangle functions (qualifier system of C03.a)"""
    from ..axis import axis_reports
    for q in C02H:
        f = ctx.fn(q)
        reps = axis_reports(f)
        if not reps:
            ctx.ok('%s:axis-clean' % f.short, 'no expression mixes X and Y quantities (qualifier system of C03.a)', f)
        for k, (node, msg) in enumerate(reps):
            ctx.bad('%s:axis-mix%d' % (f.short, k), msg + ' -- with non-square tiles the advertised TileWidth/TileHeight no longer describe the '
                    'rectangle that is served', f, node)


@rule('C02.i', floor=2)
def c02i(ctx):
    """KML: the LatLonBox advertised for a linked sub tile is the full rectangle of that tile address (the one the tile is rendered
    for) -- grid.tile_bbox(coord) of the same coordinate, not clipped to the grid extent"""
    fn = ctx.fn('mapproxy/service/kml.py:KMLServer._get_subtiles')
    cf = Canon(fn)
    defs = Defs(fn.node)
    subs = [x for x in fn.walk() if is_call(x, 'SubTile')]
    if not subs:
        raise Undecided('KMLServer._get_subtiles: no SubTile(...)')
    for x in subs:
        box = cf.expr(x.args[1]) if len(x.args) > 1 else None
        tb = [c for c in ast.walk(box) if is_call(c, 'tile_bbox')] if box is not None else []
        lim = [keyword(c, 'limit', 1) for c in tb]
        ok = len(tb) == 1 and all(l is None or const_value(l, 1) is False for l in lim)
        ctx.check(ok, 'KMLServer._get_subtiles:box-not-clipped', 'the advertised box of a sub tile is grid.tile_bbox(coord) without limit', fn, x,
                  fail='the LatLonBox advertised for a sub tile is clipped to the grid extent (limit=True) while the linked tile is rendered for the '
                       'full tile rectangle: at the border of a grid whose extent is not a multiple of the tile size the image is draped over the wrong box')
        # box and address belong to the same coordinate of the loop
        if tb:
            cvar = tb[0].args[0] if tb[0].args else None
            same = cvar is not None and depends(x.args[0], lambda y: isinstance(y, ast.Name) and unparse(y) == unparse(cvar), defs) or \
                (cvar is not None and unparse(cvar) in {n.id for n in ast.walk(cf.expr(x.args[0])) if isinstance(n, ast.Name)})
            ctx.check(bool(same), 'KMLServer._get_subtiles:box-of-same-address', 'the box and the address of a sub tile come from the same grid coordinate', fn, x)


@rule('C02.j', floor=4)
def c02j(ctx):
    """one address space per tile matrix set: a directory-based cache that is configured for several grids stores each grid in its
    own directory -- the cache directory gets a grid-specific component (grid name / SRS), or, where the directory is taken as
    configured, a cache with several grids is refused.  (Tile files are addressed by z/x/y only: two matrix sets in one directory
    answer each other's addresses.)"""
    L = 'mapproxy/config/loader.py:CacheConfiguration.'
    # backend builder -> the local that holds where the tiles of this (cache, grid) pair are stored
    # (geopackage: one table per grid in a shared file, and the table is verified against the grid when it is opened -- not armed here)
    for m, where in (('_file_cache', 'cache_dir'), ('_compact_cache', 'cache_dir'), ('_mbtiles_cache', 'mbfile_path'), ('_sqlite_cache', 'cache_dir')):
        fn = ctx.fn(L + m)

        fdefs = Defs(fn.node)

        def ev(st, fdefs=fdefs, where=where):
            # the new directory depends on the grid configuration (directly or through a local such as the SRS suffix)
            if isinstance(st, ast.Assign) and any(isinstance(t, ast.Name) and t.id == where for t in st.targets):
                parts = st.value.args if isinstance(st.value, ast.Call) else [st.value]
                # (the old value of the variable itself does not count: it would lead back to the other assignments)
                if any(depends(a, lambda x: isinstance(x, ast.Name) and x.id == 'grid_conf', fdefs) for a in parts
                       if not (isinstance(a, ast.Name) and a.id == where)):
                    return 'grid-specific'
            return None
        # the part of the function that decides the directory: up to the first statement that does not mention the configuration
        tab = ctx.rows(table(fn.node.body, lambda n: 'refuse' if isinstance(n, ast.Raise) and 'multiple grids' in unparse(n) else
                             'other-raise' if isinstance(n, ast.Raise) else 'build', event_of=ev))
        multi = [a for a in tab.atoms if 'has_multiple_grids' in a]
        bad = []
        for asg, out, events in tab.assignments():
            if out != 'build' or 'grid-specific' in events:
                continue
            if multi and not asg[multi[0]]:
                continue            # a single grid: nothing to keep apart
            bad.append(asg)
        ctx.check(not bad, 'CacheConfiguration.%s:directory-per-grid' % m,
                  'a cache with several grids is built only with a grid-specific directory (%d rows)' % len(tab.rows), fn,
                  fail='a cache with several grids can be built on one directory: tile addresses of different matrix sets collide '
                       '(e.g. %s)' % (dict((k, v) for k, v in list(bad[0].items())[:3]) if bad else ''))


@rule('C02.k', floor=2)
def c02k(ctx):
    """shared rule, re-evaluated for this property: a tile that is put together from stored tiles of another level (rescaled tiles) or
    that a map answer is composed from shows the ground of its own address only if every stored tile is pasted at its own grid slot --
    the list handed to TiledImage has one entry per tile (missing ones as None), in the row-major order of the lookup (C01.f)"""
    from ..engine import run_property
    sub = run_property(ctx.repo, 'C01', ctx.tier, only={'C01.f'})
    for er in sub.errors:
        raise Undecided('shared rule %s: %s' % er)
    for o in sub.obs:
        (ctx.ok if o.status == 'ok' else ctx.bad)('%s:%s' % (o.rule, o.construct), o.msg, o.where)
    ctx.stats['functions'] |= sub.stats['functions']


@rule('C02.l', floor=3)
def c02l(ctx):
    """shared rule C04.l, re-evaluated for this property: the tile served for an address is cut from the place of the meta tile
    picture that belongs to it -- the bbox of a meta tile and its cutting pattern describe the same (unclamped) block"""
    from ..engine import share
    share(ctx, 'C04', {'C04.l'})
