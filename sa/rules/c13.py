"""C13 -- expiry rules decide precisely which tiles are refreshed.
Decided: the staleness boundary -- a tile whose integer timestamp is at or before the
threshold is not "cached", evaluated after the metadata was loaded; is_stale = exists and
not cached (C13.a); thresholds are evaluated per use and with the precedence time > mtime >
deltas, seed and clean-up tasks set the manager's threshold from the task (C13.b); a failed
refresh keeps the old tile: what is stored is the fetch result and nothing else, the error
path cannot reach the store, creators never remove tiles (C13.c); the re-check of a meta tile
uses the staleness-aware test for all its tiles (C13.d).
Added in round 4: a refresh rule of the configuration is evaluated per request, only the seed /
clean-up tools set a fixed threshold; the bulk creator keeps the do-not-cache mark (C13.i).
Added in round 5: task time before the refresh_before option of the cache (C13.j); zoned thresholds
(C13.k); redis write time (C13.l); per-cache refresh_all (C13.m, shared C12.l); sqlite time
convention (C13.n, shared C12.e); a single-colour tile is always linked anew (C13.o).
Added in round 6: the sqlite cache reads the age of a tile with image from the database (C13.p)."""
import ast

from ..engine import rule
from ..model import Undecided
from ..cfg import same, cexpr, implied, dotted, call_name, is_call, simple_name, unparse, const_value, contains, enclosing
from ..flow import Canon, Defs, depends
from ..decide import table, ret_kind
from ..util import keyword, returns_of, calls_in, inside, order_key

NOT_DECIDED = 'clock behaviour, histories of writes and threshold changes, timestamp precision of the backends'

TILE = 'mapproxy/cache/tile.py'


@rule('C13.a', floor=4)
def c13a(ctx):
    fn = ctx.fn(TILE + ':TileManager.is_cached')
    g = fn.cfg
    defs = Defs(fn.node)
    # decision table of the whole predicate: result <=> exists and (no threshold or written after the threshold)
    tab = ctx.rows(table(fn.node.body, ret_kind, bool_returns=True))
    objs = tab.atom_objs

    def is_ts(e):
        return e is not None and contains(e, lambda x: isinstance(x, ast.Attribute) and x.attr == 'timestamp')
    a_ts = [a for a in tab.atoms if objs[a].op in ('<', '==') and (is_ts(objs[a].left) or is_ts(objs[a].right))]
    a_ex = [a for a in tab.atoms if objs[a].op is None and contains(objs[a].expr, lambda x: is_call(x, 'self.cache.is_cached'))]
    ok = len(a_ts) == 1 and objs[a_ts[0]].op == '<'
    detail = 'no single timestamp comparison found'
    thr = None
    ok_int = False
    if ok:
        at = objs[a_ts[0]]
        # canonical atom `thr < ts`: fresh <=> thr < int(ts); stale <=> int(ts) <= thr
        ok = is_ts(at.right) and not is_ts(at.left)
        thr = unparse(at.left if ok else at.right)
        detail = 'the staleness test is built on `%s`: a tile written exactly at the threshold is served from the cache' % at.text
        ts_side = at.right if is_ts(at.right) else at.left
        ok_int = is_call(ts_side, 'int')
    a_none = [a for a in tab.atoms if thr is not None and objs[a].op == '==' and {unparse(objs[a].left), unparse(objs[a].right)} == {thr, 'None'}]
    a_coord = [a for a in tab.atoms if '.coord' in a and 'None' in a]
    rows_ok = False
    if ok and len(a_ex) == 1 and len(a_none) == 1:
        rows_ok = True
        for asg, out, _ in tab.assignments():
            if a_coord and asg[a_coord[0]]:
                continue        # out-of-grid coordinate: inert (C16.d)
            want = asg[a_ex[0]] and (asg[a_none[0]] or asg[a_ts[0]])
            if out != ('return True' if want else 'return False'):
                rows_ok = False
                detail = 'for %s the predicate gives %s' % ({k: v for k, v in asg.items() if k in (a_ex[0], a_none[0], a_ts[0])}, out)
    ctx.check(ok and rows_ok, 'TileManager.is_cached:boundary', 'cached <=> exists and (no threshold or threshold < int(tile.timestamp)): a tile written at or before '
              'the threshold is fetched again (%d rows)' % len(tab.rows), fn, fail=detail)
    if a_ts:
        ctx.check(ok_int, 'TileManager.is_cached:integer-timestamp', 'the tile timestamp is truncated to whole seconds before the comparison '
                  '(thresholds come from mktime/timetuple, which drop fractions)', fn,
                  fail='the tile timestamp is compared without int(): a tile written in the same second as the threshold counts as newer')
    md = g.find(lambda x: is_call(x, 'load_tile_metadata'))
    tsn = g.find(lambda x: isinstance(x, ast.Compare) and is_ts(x))
    ok = bool(md) and bool(tsn) and all(g.dominates(md[0][0], n) and md[0][0] != n for n, x in tsn)
    ctx.check(ok, 'TileManager.is_cached:metadata-before-compare', 'load_tile_metadata dominates the timestamp comparison', fn,
              fail='the timestamp is compared before the metadata was loaded (timestamp is still None/old)')
    ctx.check(ok and rows_ok, 'TileManager.is_cached:stale-is-uncached', 'a stale tile is reported as not cached', fn)
    # the metadata is only loaded (and compared) for existing tiles with a threshold
    ok = bool(md) and all(g.guarded(n, lambda at: at.op is None and contains(at.expr, lambda y: is_call(y, 'self.cache.is_cached')), True) or
                          g.guarded(n, lambda at: at.op is None and unparse(at.expr) in [k for k, ds in defs.defs.items() if any(
                              is_call(v, 'self.cache.is_cached') for v, sel in ds)], True) for n, x in md) and \
        all(thr is not None and g.guarded(n, lambda at: at.op == '==' and {unparse(at.left), unparse(at.right)} == {thr, 'None'}, False) for n, x in md)
    ctx.check(ok, 'TileManager.is_cached:only-with-threshold', 'the staleness test runs only for existing tiles and a threshold that is not None', fn)
    mm = [v for v, sel in defs.of(thr)] if thr else []
    ok = len(mm) == 1 and is_call(mm[0], 'self.expire_timestamp')
    ctx.check(ok, 'TileManager.is_cached:threshold-source', 'the threshold is self.expire_timestamp(tile)', fn)
    # is_stale table
    fs = ctx.fn(TILE + ':TileManager.is_stale')
    body = [s for s in fs.node.body if not (isinstance(s, ast.If) and 'isinstance' in unparse(s.test))]
    tab = ctx.rows(table(body, ret_kind, bool_returns=True))
    a_ex = [a for a in tab.atoms if 'self.cache.is_cached' in a]
    a_ok = [a for a in tab.atoms if 'self.is_cached' in a]
    ok = len(a_ex) == 1 and len(a_ok) == 1 and all((out == 'return True') == (asg[a_ex[0]] and not asg[a_ok[0]]) for asg, out, _ in tab.assignments())
    ctx.check(ok, 'TileManager.is_stale:table', 'is_stale <=> the tile exists in the cache and is not (staleness-aware) cached', fs,
              fail='is_stale is not "exists and expired"')


@rule('C13.b', floor=4)
def c13b(ctx):
    fn = ctx.fn(TILE + ':TileManager.expire_timestamp')
    g = fn.cfg
    calls = g.find(lambda x: is_call(x, 'before_timestamp_from_options'))
    ok = bool(calls) and all(isinstance(getattr(x, '_parent', None), ast.Return) and fn.ctext(x.args[0]) == 'self._refresh_before' for n, x in calls)
    stores = [s for s in fn.walk() if isinstance(s, (ast.Assign, ast.AugAssign)) and any(unparse(t).startswith('self.') for t in (s.targets if isinstance(s, ast.Assign) else [s.target]))]
    ctx.check(ok and not stores, 'TileManager.expire_timestamp:per-use', 'a relative refresh rule is evaluated on every call (nothing is memoised in an attribute)', fn,
              fail='the refresh threshold is computed once and stored: a relative age ("older than 1 hour") stops moving with the clock')
    rets = g.find_stmts(lambda s: isinstance(s, ast.Return))
    ok = any(same(g.stmt[r].value, 'self._expire_timestamp') and not g.guarded(r, lambda at: at.op is None and same(at.expr, 'self._refresh_before'), True) for r in rets)
    ctx.check(ok, 'TileManager.expire_timestamp:fallback', 'without a refresh rule the task/manager threshold _expire_timestamp is used', fn)
    bt = ctx.fn('mapproxy/seed/config.py:before_timestamp_from_options')

    def cls(node):
        if node is None:
            return 'fall'
        if isinstance(node, ast.Return):
            v = unparse(node.value)
            return 'time' if 'timestamp_from_isodate' in v else 'mtime' if 'getmtime' in v else 'deltas' if 'timestamp_before' in v else v
        if isinstance(node, ast.Raise):
            return 'raise'
        return type(node).__name__
    tab = ctx.rows(table(bt.node.body, cls))
    a_t = [a for a in tab.atoms if a.startswith("'time' in")]
    a_m = [a for a in tab.atoms if a.startswith("'mtime' in")]
    ok = len(a_t) == 1 and len(a_m) == 1
    if ok:
        for asg, out, _ in tab.assignments():
            want = 'time' if asg[a_t[0]] else 'mtime' if asg[a_m[0]] else 'deltas'
            ok = ok and out == want
    ctx.check(ok, 'before_timestamp_from_options:precedence', 'precedence: absolute time, then mtime of a file, then relative deltas', bt,
              fail='before_timestamp_from_options does not resolve time > mtime > deltas')
    tb = ctx.fn('mapproxy/util/times.py:timestamp_before')
    ok = any(isinstance(x, ast.BinOp) and isinstance(x.op, ast.Sub) and is_call(x.left, 'datetime.datetime.now', 'now') for x in tb.walk())
    ctx.check(ok, 'timestamp_before:now-minus-delta', 'a relative age is now() minus the delta', tb,
              fail='timestamp_before does not subtract the delta from the current time')
    for qn, attr in (('mapproxy/seed/seeder.py:seed_task', 'task.refresh_timestamp'), ('mapproxy/seed/cleanup.py:tilewalker_cleanup', 'task.remove_timestamp')):
        f = ctx.fn(qn)
        sets = [s for s in f.walk() if isinstance(s, ast.Assign) and unparse(s.targets[0]) == 'task.tile_manager._expire_timestamp']
        ok = bool(sets) and all(unparse(s.value) == attr for s in sets)
        ctx.check(ok, '%s:threshold-from-task' % f.short, 'the manager threshold is set from %s' % attr, f)


CREATORS = [TILE + ':TileCreator._create_single_tile', TILE + ':TileCreator._create_meta_tile', TILE + ':TileCreator._create_bulk_meta_tile']


@rule('C13.c', floor=6)
def c13c(ctx):
    fn = ctx.fn(CREATORS[0])
    g = fn.cfg
    defs = Defs(fn.node)
    stores = g.find(lambda x: is_call(x, 'self.cache.store_tile', 'self.cache.store_tiles'))
    handlers = [h for h in fn.walk() if isinstance(h, ast.ExceptHandler) and h.type is not None and 'SourceError' in unparse(h.type)]
    if not stores or not handlers:
        ctx.bad('TileCreator._create_single_tile:shape', 'store call / SourceError handler not found', fn)
    else:
        hn = g.node_of[id(handlers[0])]
        for n, x in stores:
            # the store is guarded by the truthiness of the fetch result
            ok = g.guarded(n, lambda at: at.op is None and same(at.expr, 'source'), True)
            ctx.check(ok, 'TileCreator._create_single_tile:store-needs-fetch-result',
                      'the store only runs when the fetch returned an image (`if not source: return []`)', fn, x,
                      fail='the store is reachable when the fetch produced nothing (failed refresh overwrites the old tile)')
            ok = not any(inside(x, h) for h in handlers)
            ctx.check(ok, 'TileCreator._create_single_tile:no-store-in-handler', 'nothing is stored inside the SourceError handler', fn, x,
                      fail='the SourceError handler stores a tile: a failed refresh destroys/replaces the cached tile')
        src = [v for v, sel in defs.of('source')]
        ok = all((isinstance(v, ast.Constant) and v.value is None) or is_call(v, 'self._query_sources') for v in src) and \
            any(is_call(v, 'self._query_sources') for v in src)
        ctx.check(ok, 'TileCreator._create_single_tile:source-is-fetch-result', '`source` is None or the value returned by _query_sources', fn)
        ts = [s for s in fn.walk() if isinstance(s, ast.Assign) and unparse(s.targets[0]) == 'tile.source']
        ok = bool(ts) and all(same(s.value, 'source') for s in ts)
        ctx.check(ok, 'TileCreator._create_single_tile:stores-fetch-result', 'the tile that is stored carries the fetch result', fn)
        # handler: load stale tile or re-raise
        h = handlers[0]
        tabh = table(h.body, lambda n: 'raise' if n is None and False else ('fall' if n is None else type(n).__name__),
                     event_of=lambda st: 'reraise' if isinstance(st, ast.Expr) and is_call(st.value, 'reraise_exception', 'reraise') else None)
        a_st = [a for a in tabh.atoms if 'is_stale' in a]
        ok = len(a_st) == 1 and all(ev == (() if asg[a_st[0]] else ('reraise',)) for asg, out, ev in tabh.assignments())
        ctx.rows(tabh)
        ctx.check(ok, 'TileCreator._create_single_tile:handler', 'a SourceError is swallowed only when a stale tile exists in the cache, otherwise it is re-raised (whether the stale tile is loaded is irrelevant: the following `if not source` returns nothing)', fn,
                  fail='the SourceError handler neither serves the stale tile nor re-raises')
        # authorize_stale branch returns the cached tile without storing
        auth = [s for s in fn.walk() if isinstance(s, ast.If) and 'authorize_stale' in unparse(s.test)]
        ok = bool(auth) and all(isinstance(s.body[-1], ast.Return) and not contains(ast.Module(body=s.body, type_ignores=[]), lambda x: is_call(x, 'store_tile', 'store_tiles')) for s in auth)
        ctx.check(ok, 'TileCreator._create_single_tile:authorize-stale-no-store', 'the authorize_stale branch returns the cached tile and stores nothing', fn)
    # meta creators: stored tiles come from the fetch
    fn = ctx.fn(CREATORS[1])
    g = fn.cfg
    defs = Defs(fn.node)
    for n, x in g.find(lambda x: is_call(x, 'self.cache.store_tiles')):
        ok = g.guarded(n, lambda at: at.op is None and same(at.expr, 'meta_tile_image'), True) and \
            depends(x.args[0], lambda y: is_call(y, 'split_meta_tiles') and y.args and same(y.args[0], 'meta_tile_image'), defs)
        ctx.check(ok, 'TileCreator._create_meta_tile:stores-fetch-result', 'the stored tiles are cut out of the image just fetched, and only if one was fetched', fn, x)
    # who may remove: no creator calls remove_tile(s)
    for qn in CREATORS + ['mapproxy/cache/renderd.py:RenderdTileCreator._create_single_tile', 'mapproxy/cache/renderd.py:RenderdTileCreator._create_meta_tile',
                          TILE + ':TileCreator._query_sources', TILE + ':TileCreator.create_tiles']:
        f = ctx.fn(qn)
        rm = [x for x in f.walk_all() if isinstance(x, ast.Call) and simple_name(x) in ('remove_tile', 'remove_tiles', 'remove_tile_coords')]
        ctx.check(not rm, '%s:never-removes' % f.short, 'the creator never removes tiles', f,
                  fail='%s removes tiles: a refresh that fails afterwards has destroyed the old tile' % f.short)


@rule('C13.d', floor=2)
def c13d(ctx):
    for qn in CREATORS[1:]:
        fn = ctx.fn(qn)
        tests = [s.test for s in fn.walk() if isinstance(s, ast.If) and contains(s.test, lambda x: is_call(x, 'is_cached'))]
        ok = bool(tests) and all(contains(t, lambda x: is_call(x, 'all')) and contains(t, lambda x: is_call(x, 'self.is_cached')) for t in tests)
        ctx.check(ok, '%s:recheck-staleness-aware-all' % fn.short, 'the re-check uses the staleness-aware self.is_cached for all tiles of the meta tile', fn,
                  fail='the re-check of the meta tile does not use self.is_cached (staleness aware) for all tiles')
    ic = ctx.fn(TILE + ':TileCreator.is_cached')
    ok = any(is_call(x, 'self.tile_mgr.is_cached') for x in ic.walk())
    ctx.check(ok, 'TileCreator.is_cached:delegates-to-manager', 'TileCreator.is_cached delegates to the staleness-aware TileManager.is_cached', ic,
              fail='TileCreator.is_cached bypasses the staleness test of the tile manager')


@rule('C13.e', floor=2)
def c13e(ctx):
    """the staleness comparison runs exactly for existing tiles with a threshold"""
    fn = ctx.fn(TILE + ':TileManager.is_cached')
    g = fn.cfg
    md = g.find(lambda x: is_call(x, 'load_tile_metadata'))
    ok = bool(md)
    for n, x in md:
        ok = ok and g.guarded(n, lambda at: at.op is None and same(at.expr, 'cached'), True) and \
            g.guarded(n, lambda at: at.op == '==' and 'max_mtime' in at.text and 'None' in at.text, False)
    ctx.check(ok, 'TileManager.is_cached:test-iff-cached-and-threshold', 'the timestamp is loaded and compared only if the tile exists and a threshold is set', fn,
              fail='the staleness test runs for missing tiles or without a threshold (or never)')
    c = g.find(lambda x: is_call(x, 'self.cache.is_cached'))
    rets = g.find_stmts(lambda s: isinstance(s, ast.Return) and same(s.value, 'cached'))
    ok = len(c) == 1 and bool(rets)
    ctx.check(ok, 'TileManager.is_cached:starts-from-backend', 'the answer starts from cache.is_cached() and is only ever lowered by the staleness test', fn)


@rule('C13.f', floor=1)
def c13f(ctx):
    """the age of a tile is the age of its own directory entry: single-colour tiles are links to a shared file that is
    written once, so the metadata must come from lstat (not stat, which follows the link)"""
    fm = ctx.fn('mapproxy/cache/file.py:FileCache.load_tile_metadata')
    st = [x for x in fm.walk() if is_call(x, 'os.stat', 'os.lstat', 'os.path.getmtime')]
    ok = bool(st)
    for x in st:
        nofollow = const_value(keyword(x, 'follow_symlinks')) is False
        ok = ok and (is_call(x, 'os.lstat') or (is_call(x, 'os.stat') and nofollow))
    ctx.check(ok, 'FileCache.load_tile_metadata:lstat', 'tile timestamp and size are taken with lstat (the link itself, not the shared single-colour file)', fm,
              fail='tile metadata is read through the symlink: a single-colour tile refreshed after the threshold keeps the old timestamp of the '
                   'shared file and is fetched again on every request')


@rule('C13.g', floor=1)
def c13g(ctx):
    """"refreshed" means "written after the threshold": a store records the time of the store.  The sqlite backend binds
    time.time() to last_modified (not the timestamp the tile object carried from an earlier load, which would keep a refreshed
    tile expired for ever); the file backends get their time from the file system (mtime of the rename)"""
    import itertools
    fn = ctx.fn('mapproxy/cache/mbtiles.py:MBTilesCache._store_bulk')
    g = fn.cfg
    flags = sorted({at.text for s, d, test, pol in g.branch_edges() for at, p in implied(test, pol) if at.op is None and at.text == 'self.supports_timestamp'})
    apps = [(g.node_for(x), x) for x in fn.walk() if isinstance(x, ast.Call) and isinstance(x.func, ast.Attribute) and x.func.attr == 'append' and x.args]
    seen = 0
    ok = True
    for vals in itertools.product([True], repeat=len(flags)):
        cf = Canon(fn, assume=dict(zip(flags, vals)))
        for n, x in apps:
            if n in cf.infeasible:
                continue
            t = cf.expr(x.args[0])
            if isinstance(t, ast.Tuple) and len(t.elts) == 5:
                seen += 1
                ok = ok and is_call(t.elts[4], 'time.time')
    ctx.check(ok and seen > 0, 'MBTilesCache._store_bulk:stores-now', 'the last_modified value of a stored record is time.time() at the store', fn,
              fail='the modification time written with a tile is not the time of the store (e.g. the timestamp the tile object carried from a '
                   'previous load): a refreshed tile keeps its old time and stays expired')
    tb = ctx.fn('mapproxy/cache/base.py:tile_buffer')
    g2 = tb.cfg
    sets = g2.find_stmts(lambda s: isinstance(s, ast.Assign) and unparse(s.targets[0]) == 'tile.timestamp')
    ok = bool(sets) and all(is_call(g2.stmt[n].value, 'time.time') for n in sets)
    ctx.check(ok, 'tile_buffer:timestamp-is-now', 'a tile without timestamp gets the current time when it is stored', tb)


@rule('C13.h', floor=1)
def c13h(ctx):
    """a refresh that fails does not destroy the old tile (file cache): the new image is decoded (`as_image()`, for the single-colour
    test) before anything of the old tile is removed -- no path leads from an unlink / remove of the tile location to the decoding
    step, so an undecodable or truncated upstream answer raises while the old tile (also a link to a single-colour tile) is still
    in place"""
    F = 'mapproxy/cache/file.py:FileCache.'
    fn = ctx.repo.with_inlined(ctx.fn(F + 'store_tile'), ['_store', '_store_single_color_tile'])
    g = fn.cfg
    rms = g.find(lambda x: is_call(x, 'os.unlink', 'os.remove'))
    decs = g.find(lambda x: isinstance(x, ast.Call) and isinstance(x.func, ast.Attribute) and x.func.attr == 'as_image')
    if not rms:
        raise Undecided('FileCache.store_tile: no unlink found (helpers inlined)')
    bad = [(x, y) for n, x in rms for m, y in decs if n == m or g.reaches_avoiding(n, m)]
    ctx.check(not bad, 'FileCache.store_tile:decode-before-unlink', 'the new image is decoded before the old tile / link is removed (%d unlink sites, %d decoding '
              'sites)' % (len(rms), len(decs)), fn, fail='the old tile (link) is removed before the new image is decoded: a damaged upstream answer '
              'leaves the cache without the tile it had')


@rule('C13.i', floor=5)
def c13i(ctx):
    """the threshold is the one in force when the tile is needed: a refresh rule of the configuration (`refresh_before`) is handed to
    the tile manager as it was written and evaluated for every request (TileManager.expire_timestamp) -- `mtime: <file>` follows the
    file while the server runs, `hours: 1` moves with the clock.  Only the seed / clean-up tools evaluate a rule once, for their own
    run, and only they set the fixed `_expire_timestamp` of a manager.  A failed refresh does not destroy the old tile on the bulk
    path either: the tiles of a bulk meta tile carry the "do not cache" mark of their image (shared rule C20.f)"""
    EVAL_OK = {'mapproxy/cache/tile.py:TileManager.expire_timestamp': 'per request',
               'mapproxy/seed/config.py:SeedConfiguration.__init__': 'once per seed run', 'mapproxy/seed/config.py:CleanupConfiguration.__init__': 'once per clean-up run'}
    WRITE_OK = {'mapproxy/cache/tile.py:TileManager.__init__', 'mapproxy/seed/seeder.py:seed_task', 'mapproxy/seed/cleanup.py:tilewalker_cleanup'}
    n = 0
    for rel, mod in sorted(ctx.repo.modules.items()):
        if '/test/' in rel or not rel.startswith('mapproxy/'):
            continue
        for fn in ctx.repo.fns_in(rel + ':'):
            if '#' in fn.qn:
                continue
            for x in fn.walk():
                if isinstance(x, ast.Call) and simple_name(x) == 'before_timestamp_from_options':
                    n += 1
                    ctx.check(fn.qn in EVAL_OK, '%s:evaluates-refresh-rule' % fn.short, 'the rule is evaluated %s' % EVAL_OK.get(fn.qn, ''), fn, x,
                              fail='%s turns a refresh rule into a fixed time stamp outside the request path and the seed tools: the threshold '
                                   'of a running server no longer follows the rule (mtime of the marker file, the clock)' % fn.short)
                if isinstance(x, ast.Attribute) and x.attr == '_expire_timestamp' and isinstance(x.ctx, ast.Store):
                    n += 1
                    ctx.check(fn.qn in WRITE_OK, '%s:sets-fixed-threshold' % fn.short, 'the fixed threshold is set by the seed / clean-up run (or reset in the constructor)', fn, x,
                              fail='%s sets the fixed threshold `_expire_timestamp` of a tile manager' % fn.short)
    if n < 5:
        raise Undecided('only %d evaluations / writes of the threshold found' % n)
    ld = ctx.fn('mapproxy/config/loader.py:CacheConfiguration.caches')
    g = ld.cfg
    sets = g.find_stmts(lambda s: isinstance(s, ast.Assign) and any(isinstance(t, ast.Attribute) and t.attr == '_refresh_before' for t in s.targets))
    ok = bool(sets)
    for nn in sets:
        st = g.stmt[nn]
        v = cexpr(st.value)
        ok = ok and is_call(v, 'get') and contains(v, lambda y: isinstance(y, ast.Constant) and y.value == 'refresh_before')
        guards = [at.text for at, p in g.guards_of(nn)]
        ok = ok and not any('refresh_before' in t or "'time'" in t or "'mtime'" in t for t in guards)
    ctx.check(ok, 'CacheConfiguration.caches:rule-handed-on-unevaluated', 'mgr._refresh_before = <the refresh_before mapping of the cache>, whatever the rule contains', ld,
              fail='the loader does not hand every refresh rule to the tile manager as written')
    from ..engine import run_property
    sub = run_property(ctx.repo, 'C20', ctx.tier, only={'C20.f'})
    for er in sub.errors:
        raise Undecided('shared rule %s: %s' % er)
    for o in sub.obs:
        (ctx.ok if o.status == 'ok' else ctx.bad)('%s:%s' % (o.rule, o.construct), o.msg, o.where)
    ctx.stats['functions'] |= sub.stats['functions']


@rule('C13.j', floor=2)
def c13j(ctx):
    """the rule in force is the one of the task at hand: while a seed or clean-up task runs, its time (`_expire_timestamp`, set by
    the tools for their own run) decides -- the refresh_before option of the cache, which rules the serving side, is consulted only when
    no task time is set.  (With the cache option first, a clean-up `remove_before: 30 days` over a cache with `refresh_before: 1 hour`
    removes everything older than an hour, and a seed's refresh_before is ignored.)"""
    fn = ctx.fn(TILE + ':TileManager.expire_timestamp')
    g = fn.cfg
    rets = g.find_stmts(lambda s: isinstance(s, ast.Return))
    conf = [n for n in rets if g.stmt[n].value is not None and contains(fn.canon.expr(g.stmt[n].value), lambda x: is_call(x, 'before_timestamp_from_options'))]
    task = [n for n in rets if g.stmt[n].value is not None and unparse(fn.canon.expr(g.stmt[n].value)) == 'self._expire_timestamp']

    def unset(at):
        return at.op == '==' and {unparse(at.left), unparse(at.right)} == {'self._expire_timestamp', 'None'}
    ok = bool(conf) and all(g.guarded(n, unset, True) for n in conf)
    ctx.check(ok, 'TileManager.expire_timestamp:task-time-first', 'the refresh_before option of the cache is evaluated only when no task time is set', fn,
              fail='TileManager.expire_timestamp prefers the refresh_before option of the cache to the time of the running seed / clean-up '
                   'task: the task removes or refreshes by the wrong threshold')
    ok = bool(task) or all(g.guarded(n, unset, True) for n in rets)
    ctx.check(ok, 'TileManager.expire_timestamp:task-time-returned', 'a task time that is set is the answer', fn)


@rule('C13.k', floor=1)
def c13k(ctx):
    """the threshold is the moment that was written down: a time with a zone (YAML `2009-06-09T10:57:00Z`) is converted as that
    moment; only a time without a zone is read as local time of the server (mktime of its fields)"""
    fn = ctx.fn('mapproxy/util/times.py:timestamp_from_isodate')
    g = fn.cfg
    mk = g.find(lambda x: is_call(x, 'mktime', 'time.mktime') and x.args and contains(x.args[0], lambda y: is_call(y, 'timetuple')))
    if not mk:
        ctx.ok('timestamp_from_isodate:zone-honoured', 'no wall-clock conversion', fn)
        return
    ok = all(g.guarded(n, lambda at: at.op == '==' and 'tzinfo' in at.text and 'None' in at.text, True) for n, x in mk)
    ctx.check(ok, 'timestamp_from_isodate:zone-honoured', 'mktime(timetuple()) is only used for times without a zone', fn,
              fail='timestamp_from_isodate reads the wall-clock fields of a time with a zone as local time: the threshold is off by the UTC '
                   'offset of the server')


@rule('C13.l', floor=1)
def c13l(ctx):
    """the age a backend reports is the age of the tile: the redis cache has no modification time and derives it from the key's
    remaining time to live -- written = now - ttl + remaining (the key expires ttl seconds after it was written)"""
    fn = ctx.fn('mapproxy/cache/redis.py:RedisCache.load_tile_metadata')
    asg = [s for s in fn.walk() if isinstance(s, ast.Assign) and unparse(s.targets[0]) == 'tile.timestamp']
    if not asg:
        raise Undecided('RedisCache.load_tile_metadata: tile.timestamp is not assigned')
    ok = True
    for s in asg:
        # sign of each additive term of the closed form
        terms = []

        def walk(e, sign):
            if isinstance(e, ast.BinOp) and isinstance(e.op, (ast.Add, ast.Sub)):
                walk(e.left, sign)
                walk(e.right, sign if isinstance(e.op, ast.Add) else -sign)
            else:
                terms.append((sign, e))
        walk(fn.canon.expr(s.value), 1)
        ttl = [sg for sg, e in terms if unparse(e) == 'self.ttl']
        now = [sg for sg, e in terms if contains(e, lambda y: is_call(y, 'mktime', 'time.mktime', 'time.time', 'time', 'now'))]
        # the remaining time to live: the term that is neither the clock nor the configured ttl (read from the server)
        rem = [sg for sg, e in terms if unparse(e) != 'self.ttl' and not contains(e, lambda y: is_call(y, 'mktime', 'time.mktime', 'time.time', 'time', 'now'))]
        ok = ok and now == [1] and ttl == [-1] and rem == [1]
    ctx.check(ok, 'RedisCache.load_tile_metadata:written-time', 'tile.timestamp = now - ttl + remaining', fn,
              fail='RedisCache.load_tile_metadata does not compute now - ttl + remaining: the tile looks older (or younger) than it is by '
                   'twice the remaining time to live')


@rule('C13.m', floor=1)
def c13m(ctx):
    """shared rule C12.l, re-evaluated for this property: `refresh_all` is decided for each cache of a seed entry, it is not stored on
    the entry while its tasks are built (a cache with time stamps that follows one without would be fetched again completely)"""
    from ..engine import run_property
    sub = run_property(ctx.repo, 'C12', ctx.tier, only={'C12.l'})
    for e in sub.errors:
        raise Undecided('shared rule %s: %s' % e)
    for o in sub.obs:
        if 'seed_tasks' not in o.construct:
            continue
        if o.status == 'ok':
            ctx.ok('%s:%s' % (o.rule, o.construct), o.msg, o.where)
        else:
            ctx.bad('%s:%s' % (o.rule, o.construct), o.msg, o.where)
    ctx.stats['functions'] |= sub.stats['functions']


@rule('C13.n', floor=2)
def c13n(ctx):
    """shared rule C12.e, re-evaluated for this property: the age of a tile in the sqlite backends is read with the time convention it
    was written with (the writer stores local time, the reader converts with time.mktime) -- read as UTC, every age is off by the UTC
    offset of the server and tiles are refreshed too early or too late"""
    from ..engine import share
    share(ctx, 'C12', {'C12.e'})


@rule('C13.o', floor=2)
def c13o(ctx):
    """a refresh renews the age of the tile: the age of a linked single-colour tile is the modification time of the link itself, so
    storing such a tile always makes the link anew (remove + link / symlink) -- also when the tile already points at the same colour.
    There is no way out of _store_single_color_tile before the link call (an "already linked" shortcut leaves the old age in place
    and the tile is fetched again on every request after the threshold)"""
    fn = ctx.fn('mapproxy/cache/file.py:FileCache._store_single_color_tile')
    g = fn.cfg
    fdefs = Defs(fn.node)

    def is_link(x):
        if is_call(x, 'os.link', 'os.symlink'):
            return True
        # the function picked into a local first (`make = os.link if hard else os.symlink; make(target, loc)`)
        if isinstance(x, ast.Call) and isinstance(x.func, ast.Name):
            ds = fdefs.of(x.func.id)
            return bool(ds) and all(sel is None and unparse(v) in ('os.link', 'os.symlink') for v, sel in ds)
        return False
    links = [n for n, x in g.find(is_link)]
    if len(links) < 1:
        raise Undecided('_store_single_color_tile: %d link calls found' % len(links))
    rets = g.find_stmts(lambda s: isinstance(s, ast.Return))
    # every explicit return comes after one of the link calls (on each path to it a link call was made)
    free = g.reachable(0, avoid=links)
    ok = all(n not in free for n in rets)
    ctx.check(ok, 'FileCache._store_single_color_tile:always-links-anew', 'no return is reachable without passing os.link / os.symlink', fn,
              fail='_store_single_color_tile can return without making the link anew: a refreshed tile of the same colour keeps its old age')
    unl = [n for n, x in g.find(lambda x: is_call(x, 'os.unlink', 'os.remove'))]
    ok = bool(unl) and all(any(u in g.reachable(0) and l in g.reachable(u) for u in unl) for l in links)
    ctx.check(ok, 'FileCache._store_single_color_tile:old-link-removed-first', 'an existing link is removed before the new one is made', fn)


@rule('C13.p', floor=3)
def c13p(ctx):
    """a tile written after the threshold is served from the cache -- also for the request that waited: the creators ask again under
    the tile lock whether the tile is cached and fresh, with the tile object they loaded *before* the lock.  "How old is it" must then
    be answered from the store, not from the object: the sqlite cache reads last_modified again for a tile that already carries its
    image (load_tile returns at once for such a tile and leaves the old age in place), and the per-level cache asks its level
    database the same question"""
    fn = ctx.fn('mapproxy/cache/mbtiles.py:MBTilesCache.load_tile_metadata')
    g = fn.cfg
    loads = g.find(lambda x: is_call(x, 'self.load_tile'))
    has_img = lambda at: at.op is None and unparse(at.expr) == 'tile.source'       # noqa: E731
    # load_tile is only the answer for a tile without image
    no_coord = lambda at: at.op == '==' and 'tile.coord' in at.text and 'None' in at.text      # noqa: E731  (nothing to look up)
    ok = all(g.guarded_any(n, [(has_img, False), (no_coord, True)]) for n, x in loads)
    ctx.check(ok, 'MBTilesCache.load_tile_metadata:load_tile-only-without-image', 'load_tile (a no-op for a tile with image) is not the answer for a tile that has one', fn,
              fail='MBTilesCache.load_tile_metadata answers with load_tile also for a tile that already has its image: the age read before the tile '
                   'lock is used for the re-check under the lock and a tile refreshed in the meantime is fetched again')
    sets = g.find_stmts(lambda s: isinstance(s, ast.Assign) and unparse(s.targets[0]) == 'tile.timestamp' and
                        contains(s.value, lambda x: is_call(x, 'sqlite_datetime_to_timestamp')))
    q = [x for x in fn.walk() if isinstance(x, ast.Call) and isinstance(x.func, ast.Attribute) and x.func.attr == 'execute' and x.args and
         'last_modified' in str(const_value(x.args[0], ''))]
    ok = bool(sets) and bool(q) and any(g.guarded(n, has_img, True) for n in sets)
    ctx.check(ok, 'MBTilesCache.load_tile_metadata:age-read-from-the-database', 'for a tile with image the time stamp is read from the tiles table', fn)
    lv = ctx.fn('mapproxy/cache/mbtiles.py:MBTilesLevelCache.load_tile_metadata')
    ok = any(isinstance(x, ast.Call) and isinstance(x.func, ast.Attribute) and x.func.attr == 'load_tile_metadata' and is_call(x.func.value, 'self._get_level')
             for x in lv.walk()) and not any(is_call(x, 'self.load_tile') for x in lv.walk())
    ctx.check(ok, 'MBTilesLevelCache.load_tile_metadata:asks-the-level-database', 'the per-level cache hands the question to load_tile_metadata of its level cache', lv,
              fail='MBTilesLevelCache.load_tile_metadata is load_tile: a no-op for a tile that already has its image')


@rule('C13.q', floor=1)
def c13q(ctx):
    """shared rule C20.i, re-evaluated for this property: a stale tile counts as refreshed only when a storable answer replaced it --
    the wrapper a cache used as source puts around the answer of its own tile manager inherits that answer's `cacheable` flag;
    with the default (cacheable) an error image of the inner cache (`on_error ... cache: False`) overwrites the stale tile of the
    outer cache with a fresh timestamp and is served until the next expiry"""
    from ..engine import share
    share(ctx, 'C20', {'C20.i'})
