"""C18 -- every request gets a well-formed answer and cannot inject markup.
Decided: the catch-all structure -- the handler call of the WSGI app sits in try/except
Exception whose non-debug branch answers a constant 500 text and writes the traceback to
wsgi.errors only, unknown paths get 404, RequestError is converted by render() on every
server, render() always has a response (C18.a); the message reaches every XML exception
template only through html.escape (C18.b); everything else in the exception templates is
constant: placeholders and keywords agree, and `code`/`locator` are string literals at every
RequestError construction site (C18.c); request-derived values reach HTML pages only through
escape_html, which removes both quote characters (C18.d); plain-text fall-backs are
text/plain (C18.e); image errors carry the requested content type and a default size (C18.f);
every literal status code has a reason phrase (C18.g).
Added in round 4: no client-visible error is built from the text of a caught I/O level exception
except through the helper that strips file references (C18.o).
Added in round 5: every KML href is escaped (C18.p).
Added in round 6: optional CGI variables are read with a default (C18.q); the checked format reaches
the response (C18.r, shared C16.b)."""
import ast
import re

from ..engine import rule
from ..model import Undecided, template_placeholders
from ..cfg import same, dotted, call_name, is_call, simple_name, unparse, const_value, contains, enclosing
from ..flow import Defs, depends, try_const, scoped_defs
from ..util import resolve1, factors, sum_of_products, keyword, returns_of, calls_in, inside, order_key

NOT_DECIDED = ('that no request whatsoever raises outside the catch-all; decodability and pixel size of image responses; '
               'capabilities documents (service.url) are outside the statement about error documents')

APP = 'mapproxy/wsgiapp.py'
EXC = 'mapproxy/exception.py'


@rule('C18.a', floor=7)
def c18a(ctx):
    fn = ctx.fn(APP + ':MapProxyApp.__call__')
    g = fn.cfg
    calls = [x for x in fn.walk() if is_call(x, 'handle') and contains(x.func, lambda y: unparse(y).startswith('self.handlers'))]
    if not calls:
        ctx.bad('MapProxyApp.__call__:handler-call', 'no self.handlers[...].handle(req) call', fn)
        return
    for c in calls:
        tr = enclosing(c, ast.Try)
        inbody = tr is not None and any(inside(c, s) for s in tr.body)
        h = [x for x in tr.handlers if x.type is None or unparse(x.type) in ('Exception', 'BaseException')] if tr is not None else []
        ctx.check(inbody and bool(h), 'MapProxyApp.__call__:catch-all', 'the service handler runs inside try/except Exception', fn, c,
                  fail='an exception of a service handler is not caught by the application: the WSGI server answers with its own error page/trace')
        if not h:
            continue
        hb = h[0]
        # non-debug branch: Response(<const>, status=500)
        resp = [x for x in ast.walk(hb) if is_call(x, 'Response')]
        ok = bool(resp) and all(isinstance(x.args[0], ast.Constant) and const_value(keyword(x, 'status', 1)) == 500 for x in resp)
        ctx.check(ok, 'MapProxyApp.__call__:constant-500', 'the fallback answer is Response(<constant text>, status=500)', fn, hb,
                  fail='the 500 response body is built from the exception/request (%s): stack traces or paths can leak' % [unparse(x.args[0])[:50] for x in resp])
        rr = [x for x in ast.walk(hb) if isinstance(x, ast.Raise)]
        gg = g
        ok = all(gg.guarded(gg.node_of[id(r)], lambda at: at.op is None and 'debug_mode' in unparse(at.expr), True) for r in rr)
        ctx.check(ok, 'MapProxyApp.__call__:reraise-only-debug', 're-raising is limited to debug mode', fn, hb,
                  fail='the catch-all re-raises outside debug mode')
        tb = [x for x in ast.walk(hb) if is_call(x, 'traceback.print_exc', 'print_exc')]
        ok = all(keyword(x, 'file') is not None and 'wsgi.errors' in unparse(keyword(x, 'file')) for x in tb)
        ctx.check(ok, 'MapProxyApp.__call__:traceback-to-error-log', 'the traceback goes to wsgi.errors, not into the response', fn, hb)
    nf = g.find_stmts(lambda s: isinstance(s, ast.Assign) and unparse(s.targets[0]) == 'resp' and is_call(s.value, 'Response') and const_value(keyword(s.value, 'status')) == 404)
    ok = bool(nf) and all(g.guarded(n, lambda at: at.op == '==' and 'resp' in at.text and 'None' in at.text, True) for n in nf)
    ctx.check(ok, 'MapProxyApp.__call__:not-found', 'no handler / no response -> 404 (or the welcome page for /)', fn)
    rets = g.find_stmts(lambda s: isinstance(s, ast.Return))
    ok = bool(rets) and all(is_call(g.stmt[r].value, 'resp') for r in rets)
    ctx.check(ok, 'MapProxyApp.__call__:always-response', 'every path returns resp(environ, start_response)', fn)
    sv = ctx.fn('mapproxy/service/base.py:Server.handle')
    hs = [h for h in sv.walk() if isinstance(h, ast.ExceptHandler) and h.type is not None and 'RequestError' in unparse(h.type)]
    ok = bool(hs) and all(any(isinstance(s, ast.Return) and is_call(s.value, 'render') for s in h.body) for h in hs)
    tr = enclosing(hs[0], ast.Try) if hs else None
    ok = ok and tr is not None and any(contains(s, lambda x: is_call(x, 'handler')) for s in tr.body) and any(contains(s, lambda x: is_call(x, 'self.parse_request')) for s in tr.body)
    ctx.check(ok, 'Server.handle:request-error-rendered', 'parsing and handling run in a try whose RequestError handler returns e.render()', sv,
              fail='a RequestError raised while parsing/handling is not rendered by Server.handle')
    rr = ctx.fn(EXC + ':RequestError.render')
    g = rr.cfg
    rets = g.find_stmts(lambda s: isinstance(s, ast.Return))
    defs = Defs(rr.node)
    resp = [v for v, sel in defs.of('resp')]
    ok = len(resp) == 3 and bool(rets) and all(same(g.stmt[r].value, 'resp') for r in rets)
    st = [s for s in rr.node.body if isinstance(s, ast.If)]
    ok = ok and bool(st) and bool(st[0].orelse)
    ctx.check(ok, 'RequestError.render:always-response', 'render() builds a response on all three branches (handler / status only / internal)', rr)
    ows = ctx.fn('mapproxy/service/ows.py:OWSServer.handle')
    g = ows.cfg
    rets = g.find_stmts(lambda s: isinstance(s, ast.Return))
    ok = bool(rets) and all(is_call(g.stmt[r].value, 'render', 'handle') for r in rets)
    ctx.check(ok, 'OWSServer.handle:always-response', 'the OWS dispatcher returns a rendered error or the service response on every path', ows)


XML_HANDLERS = [EXC + ':XMLExceptionHandler.render', EXC + ':OWSExceptionHandler.render']


@rule('C18.b', floor=4)
def c18b(ctx):
    escapes = ('escape', 'html.escape', 'escape_html', 'saxutils.escape', 'markupsafe.escape', 'xml.sax.saxutils.escape')
    for qn in XML_HANDLERS:
        fn = ctx.fn(qn)
        defs = Defs(fn.node)
        subs = [x for x in fn.walk() if is_call(x, 'substitute')]
        if not subs:
            ctx.bad(fn.short + ':substitute', 'no template.substitute call', fn)
            continue
        for s in subs:
            e = keyword(s, 'exception')
            v = e
            if isinstance(e, ast.Name):
                ds = defs.of(e.id)
                v = ds[0][0] if len(ds) == 1 and ds[0][1] is None else None
            ok = v is not None and isinstance(v, ast.Call) and len(v.args) >= 1 and same(v.args[0], 'request_error.msg')
            if ok:
                q = ctx.repo.resolve_name(fn.mod, v.func)
                imp = fn.mod.imports.get(v.func.id) if isinstance(v.func, ast.Name) else None
                is_esc = (imp is not None and imp[0] == 'obj' and (imp[1], imp[2]) in (('html', 'escape'), ('xml.sax.saxutils', 'escape'), ('markupsafe', 'escape'),
                                                                                         ('mapproxy.util.escape', 'escape_html'))) or \
                    unparse(v.func) in ('html.escape', 'saxutils.escape', 'markupsafe.escape') or (q or '').endswith(':escape_html')
                if not is_esc and q in ctx.repo.funcs:
                    # a sanitiser of the package: every value it returns went through one of the escaping functions
                    sf = ctx.repo.funcs[q]
                    rets = returns_of(sf.node)
                    is_esc = bool(rets) and all(r.value is not None and contains(r.value, lambda y: isinstance(y, ast.Call) and (
                        (isinstance(y.func, ast.Name) and sf.mod.imports.get(y.func.id, (None, None, None))[1:] in (('html', 'escape'), ('xml.sax.saxutils', 'escape')))
                        or unparse(y.func) in ('html.escape', 'saxutils.escape')) and y.args and unparse(y.args[0]) == sf.params[0]) for r in rets)
                ok = is_esc
            ctx.check(ok, fn.short + ':message-escaped', 'the template receives exception=escape(request_error.msg)', fn, s,
                      fail='the error message (request-derived text) reaches the XML template without html.escape: markup injection')
            others = {k.arg: unparse(k.value) for k in s.keywords if k.arg != 'exception'}
            ok = all(v in ('request_error.code', 'request_error.locator') for v in others.values())
            ctx.check(ok, fn.short + ':other-keywords', 'the only other template values are request_error.code / .locator', fn, s)
    # subclasses that define their own render must delegate
    base = ctx.repo.cls(EXC + ':XMLExceptionHandler')
    for c in base.subclasses():
        f = c.own_method('render')
        if f is None or f.qn in XML_HANDLERS:
            continue
        ok = any(is_call(x, 'XMLExceptionHandler.render', 'OWSExceptionHandler.render', 'render') and isinstance(getattr(x, '_parent', None), ast.Return) for x in f.walk()) and \
            not any(is_call(x, 'substitute') for x in f.walk())
        ctx.check(ok, '%s:delegates' % f.short, 'a handler overriding render() delegates to the escaping base implementation', f,
                  fail='%s renders a template itself without the escaping base implementation' % f.short)


@rule('C18.c', floor=50)
def c18c(ctx):
    # template placeholders
    kw = {}
    for qn in XML_HANDLERS:
        fn = ctx.fn(qn)
        for s in [x for x in fn.walk() if is_call(x, 'substitute')]:
            kw[fn.cls.name] = {k.arg for k in s.keywords}
    tmpl_of = {}
    for c in ctx.repo.cls(EXC + ':XMLExceptionHandler').subclasses(strict=False):
        tf = c.attr_value('template_file')
        v = const_value(tf) if tf is not None else None
        if isinstance(v, str):
            owner = 'OWSExceptionHandler' if any(m.name == 'OWSExceptionHandler' for m in c.mro()) else 'XMLExceptionHandler'
            tmpl_of.setdefault(v, set()).add(owner)
    if len(tmpl_of) < 6:
        raise Undecided('only %d exception templates found' % len(tmpl_of))
    for t, owners in sorted(tmpl_of.items()):
        rel = 'mapproxy/service/templates/' + t
        text = ctx.repo.template(rel)
        names = set()
        for kind, body, flt, pos, line in template_placeholders(text):
            if kind == 'expr':
                names |= set(re.findall(r'[A-Za-z_][A-Za-z0-9_]*', body)) - {'None', 'is', 'not', 'if', 'else'}
            elif kind == 'directive':
                m = re.match(r'(if|elif)\s+(.*)', body)
                if m:
                    names |= set(re.findall(r'[A-Za-z_][A-Za-z0-9_]*', m.group(2))) - {'None', 'is', 'not', 'and', 'or'}
        allowed = {'exception', 'code', 'locator'}
        passed = set.intersection(*[kw[o] for o in owners])
        ctx.check(names <= allowed and names <= passed, '%s:placeholders' % t,
                  'placeholders %s are a subset of {exception, code, locator} and of the keywords its renderer passes' % sorted(names), (rel, 1),
                  fail='template %s uses placeholders %s; allowed %s, passed %s' % (t, sorted(names), sorted(allowed), sorted(passed)))
        ctx.check('exception' in names, '%s:has-message' % t, 'the template shows the (escaped) message', (rel, 1))
    # RequestError construction sites
    n = 0
    init = ctx.fn(EXC + ':RequestError.__init__')
    params = [p for p in init.params if p != 'self']
    for rel, m in sorted(ctx.repo.modules.items()):
        for x in ast.walk(m.tree):
            if isinstance(x, ast.Call) and (dotted(x.func) or '').split('.')[-1] == 'RequestError':
                n += 1
                vals = {}
                for i, a in enumerate(x.args):
                    if i < len(params):
                        vals[params[i]] = a
                for k in x.keywords:
                    if k.arg:
                        vals[k.arg] = k.value
                bad = []
                for key in ('code', 'locator'):
                    v = vals.get(key)
                    if v is not None and not isinstance(v, ast.Constant):
                        bad.append('%s=%s' % (key, unparse(v)))
                    elif isinstance(v, ast.Constant) and isinstance(v.value, str) and re.search(r'[<>&"\']', v.value):
                        bad.append('%s=%r' % (key, v.value))
                fn = enclosing(x, (ast.FunctionDef, ast.AsyncFunctionDef))
                k = sum(1 for o in ctx.obs if o.construct.startswith('RequestError@%s:%s' % (rel, fn.name if fn else '<module>')))
                ctx.check(not bad, 'RequestError@%s:%s#%d' % (rel, fn.name if fn else '<module>', k),
                          'code and locator are string literals or None', (rel, x.lineno),
                          fail='RequestError(...) with non-constant %s: it is interpolated unescaped into an XML attribute' % ', '.join(bad))
    if n < 40:
        raise Undecided('only %d RequestError construction sites found' % n)


def _is_req_value(e):
    """request-derived text: req.args[...], req.args.get(..), req.script_url, req.path, req.server_script_url is built from config"""
    s = unparse(e)
    return bool(re.match(r'^(req|request|self\.http)\.(args\b|script_url$|path$|query_string$)', s)) or \
        bool(re.match(r'^(req|request)\.args', s))


@rule('C18.d', floor=10)
def c18d(ctx):
    # escape_html itself
    eh = ctx.fn('mapproxy/util/escape.py:escape_html')
    repl = {}
    for x in eh.walk():
        if is_call(x, 'replace') and len(x.args) == 2:
            repl[const_value(x.args[0])] = const_value(x.args[1])
    ok = repl.get('&') == '&amp;' and repl.get('<') == '&lt;' and repl.get('>') == '&gt;' and repl.get('"') is not None and '"' not in repl.get('"') \
        and repl.get("'") is not None and "'" not in repl.get("'")
    amp_first = [const_value(x.args[0]) for x in sorted([y for y in eh.walk() if is_call(y, 'replace')], key=order_key)]
    ok = ok and amp_first and amp_first[0] == '&'
    ctx.check(ok, 'escape_html:escapes', 'escape_html replaces & first, then < and >, and removes both quote characters', eh,
              fail='escape_html does not neutralise all of & < > " \' (or escapes & after the others)')
    # pages
    for qn in (APP + ':MapProxyApp.__call__', 'mapproxy/multiapp.py:MultiMapProxy.index_list', 'mapproxy/service/demo.py:DemoServer.handle',
               'mapproxy/service/demo.py:DemoServer._render_wms_template', 'mapproxy/service/demo.py:DemoServer._render_tms_template',
               'mapproxy/service/demo.py:DemoServer._render_wmts_template', 'mapproxy/service/demo.py:DemoServer.get_capabilities_url',
               'mapproxy/service/kml.py:KMLServer.kml'):
        fn = ctx.fn(qn)
        defs = Defs(fn.node)
        for x in sorted([y for y in fn.walk() if isinstance(y, (ast.Attribute, ast.Subscript)) and _is_req_value(y)
                         and not _is_req_value(getattr(y, '_parent', None) or ast.Pass())], key=order_key):
            verdict, why = _html_use(x, fn, defs)
            k = sum(1 for o in ctx.obs if o.construct.startswith(fn.short + ':req-value'))
            ctx.check(verdict, '%s:req-value%d' % (fn.short, k), 'request value %s %s' % (unparse(x)[:40], why), fn, x,
                      fail='request value %s reaches an HTML page / template unescaped (%s)' % (unparse(x)[:50], why))
    # read_capabilities escapes the fetched document
    rc = ctx.fn('mapproxy/service/demo.py:DemoServer.read_capabilities')
    rets = returns_of(rc.node)
    ok = bool(rets) and all(is_call(r.value, 'escape_html') for r in rets)
    ctx.check(ok, 'DemoServer.read_capabilities:escaped', 'the fetched capabilities document is escaped before it is shown', rc)


def _html_use(x, fn, defs, depth=4):
    """(ok, reason): every use of the request value is a key test / dict key / comparison / escape_html argument / method
    call whose result is escaped"""
    cur, par = x, getattr(x, '_parent', None)
    while par is not None:
        if isinstance(par, ast.Call) and cur is not par.func:
            nm = simple_name(par)
            if nm in ('join', 'format', 'str'):
                cur, par = par, getattr(par, '_parent', None)     # string building: follow the built string
                continue
            if nm in ('escape_html', 'escape', 'SRS', 'int', 'float', 'len'):
                return True, 'passes %s' % nm
            if nm in ('substitute', 'Response', 'welcome_response', 'render'):
                return False, 'argument of %s' % nm
            if nm in ('startswith', 'endswith', 'get', 'match', 'search', 'guess_type', 'static_filename', 'isfile', 'open', 'valid_url', 'read_capabilities',
                      'get_capabilities_url'):
                return True, 'used as argument of %s' % nm
            return True, 'argument of %s' % nm
        if isinstance(par, ast.Call) and cur is par.func:
            # method on the value (e.g. .replace / .lstrip / .rstrip): follow the result
            cur, par = par, getattr(par, '_parent', None)
            continue
        if isinstance(par, ast.Attribute):
            cur, par = par, getattr(par, '_parent', None)
            continue
        if isinstance(par, ast.Compare):
            return True, 'only compared'
        if isinstance(par, ast.Subscript) and par.slice is cur:
            return True, 'only used as a key'
        if isinstance(par, (ast.If, ast.While)) and par.test is cur:
            return True, 'only tested'
        if isinstance(par, ast.keyword):
            call = getattr(par, '_parent', None)
            if isinstance(call, ast.Call) and simple_name(call) in ('substitute', 'render', 'Response'):
                return False, 'keyword %s of %s' % (par.arg, simple_name(call))
            return True, 'keyword argument'
        if isinstance(par, (ast.Assign, ast.AugAssign)) and depth > 0:
            for t in (par.targets if isinstance(par, ast.Assign) else [par.target]):
                if isinstance(t, ast.Name):
                    uses = [u for u in fn.walk() if isinstance(u, ast.Name) and u.id == t.id and isinstance(u.ctx, ast.Load) and
                            (u.lineno, u.col_offset) > (par.lineno, par.col_offset)]
                    for u in uses:
                        ok, why = _html_use(u, fn, defs, depth - 1)
                        if not ok:
                            return False, 'via %s: %s' % (t.id, why)
            return True, 'bound to a local whose uses are safe'
        if isinstance(par, (ast.BinOp, ast.JoinedStr, ast.FormattedValue)):
            # string building: follow the built string
            cur, par = par, getattr(par, '_parent', None)
            continue
        if isinstance(par, ast.stmt):
            return True, 'statement'
        cur, par = par, getattr(par, '_parent', None)
    return True, 'unused'


@rule('C18.e', floor=2)
def c18e(ctx):
    pl = ctx.repo.cls(EXC + ':PlainExceptionHandler')
    mt = pl.attr_value('mimetype')
    ctx.check(const_value(mt) == 'text/plain', 'PlainExceptionHandler:text-plain', 'plain errors are text/plain', (EXC, pl.node.lineno),
              fail='PlainExceptionHandler answers request text with a markup content type')
    f = pl.method('render')
    ok = any(is_call(x, 'Response') and unparse(keyword(x, 'mimetype') or ast.Constant(value=None)) == 'self.mimetype' for x in f.walk())
    ctx.check(ok, 'PlainExceptionHandler.render:uses-mimetype', 'the response carries self.mimetype', f)
    rr = ctx.fn(EXC + ':RequestError.render')
    bare = [x for x in rr.walk() if is_call(x, 'Response')]
    ok = bool(bare) and all(keyword(x, 'mimetype') is None and keyword(x, 'content_type') is None for x in bare)
    rcls = ctx.repo.cls('mapproxy/response.py:Response')
    dct = rcls.attr_value('default_content_type')
    ok = ok and isinstance(const_value(dct), str) and const_value(dct).startswith('text/plain')
    resp_init = ctx.fn('mapproxy/response.py:Response.__init__')
    ok = ok and any(isinstance(st, ast.Assign) and unparse(st.targets[0]) == 'content_type' and same(st.value, 'self.default_content_type')
                    for st in resp_init.walk())
    ctx.check(ok, 'RequestError.render:fallback-text-plain', 'status-only / internal fall-backs use the Response default type text/plain', rr)


@rule('C18.f', floor=2)
def c18f(ctx):
    fn = ctx.fn('mapproxy/request/wms/exception.py:WMSImageExceptionHandler.render')
    rets = returns_of(fn.node)
    ok = bool(rets) and all(is_call(r.value, 'Response') and keyword(r.value, 'content_type') is not None for r in rets)
    ctx.check(ok, 'WMSImageExceptionHandler.render:content-type', 'the image error is sent with an image content type (C18.l: the type it is encoded in)', fn)
    g = fn.cfg
    sets = g.find_stmts(lambda s: isinstance(s, ast.Assign) and unparse(s.targets[0]) == 'size' and isinstance(s.value, ast.Tuple))
    ok = bool(sets) and all(g.guarded(n, lambda at: at.op == '==' and 'size' in at.text and 'None' in at.text, True) for n in sets)
    ctx.check(ok, 'WMSImageExceptionHandler.render:default-size', 'a missing size defaults to a fixed size', fn)


@rule('C18.g', floor=20)
def c18g(ctx):
    rm = ctx.repo.mod('mapproxy/response.py')
    tbl = rm.constants.get('_status_codes')
    if not isinstance(tbl, ast.Dict):
        raise Undecided('_status_codes table not found')
    codes = {const_value(k) for k in tbl.keys}
    n = 0
    for rel, m in sorted(ctx.repo.modules.items()):
        for x in ast.walk(m.tree):
            vals = []
            if isinstance(x, ast.keyword) and x.arg in ('status', 'status_code') and isinstance(x.value, ast.Constant) and isinstance(x.value.value, int):
                vals.append(x.value)
            if isinstance(x, ast.Assign) and any(unparse(t).split('.')[-1] in ('status_code', 'status') for t in x.targets) and \
                    isinstance(x.value, ast.Constant) and isinstance(x.value.value, int) and not isinstance(x.value.value, bool):
                vals.append(x.value)
            if isinstance(x, ast.Assign) and any(unparse(t).split('.')[-1] == 'status_codes' for t in x.targets) and isinstance(x.value, ast.Dict):
                vals += [v for v in x.value.values if isinstance(v, ast.Constant) and isinstance(v.value, int)]
            for v in vals:
                n += 1
                k = sum(1 for o in ctx.obs if o.construct.startswith('status@%s' % rel))
                ctx.check(v.value in codes, 'status@%s#%d' % (rel, k), 'status %d has a reason phrase in _status_codes' % v.value, (rel, v.lineno),
                          fail='status code %d is not a key of response._status_codes: building the status line raises KeyError inside the error path' % v.value)
    if n < 20:
        raise Undecided('only %d literal status codes found' % n)


@rule('C18.h', floor=3)
def c18h(ctx):
    """request properties evaluated outside the catch-all (host, script_url, path ...) cannot raise on odd header values:
    a split() result is only unpacked into n names with maxsplit n-1 and under a `sep in value` guard; a response body that is
    cached and shared between responses is immutable bytes, not a stream"""
    n = 0
    for q, f in sorted(ctx.repo.funcs.items()):
        if not (q.startswith('mapproxy/request/base.py:Request.') or q.startswith(APP + ':MapProxyApp.') or q.startswith('mapproxy/response.py:Response.')):
            continue
        g = f.cfg
        for x in f.walk():
            if isinstance(x, ast.Assign) and isinstance(x.targets[0], (ast.Tuple, ast.List)) and isinstance(x.value, ast.Call) and \
                    isinstance(x.value.func, ast.Attribute) and x.value.func.attr in ('split', 'rsplit'):
                n += 1
                k = len(x.targets[0].elts)
                call = x.value
                sep = call.args[0] if call.args else None
                ms = const_value(call.args[1]) if len(call.args) > 1 else const_value(keyword(call, 'maxsplit'))
                subj = unparse(call.func.value)
                guarded = sep is not None and g.guarded(g.node_of[id(x)], lambda at: at.op == 'in' and unparse(at.left) == unparse(sep) and unparse(at.right) == subj, True)
                ctx.check(ms == k - 1 and guarded, '%s:split-unpack' % f.short, 'split result is unpacked into %d names with maxsplit %d under `%s in %s`' % (k, k - 1, unparse(sep) if sep else '?', subj), f, x,
                          fail='%s unpacks %s into %d names without maxsplit=%d / guard: a header value with more separators (an IPv6 Host) raises '
                               'ValueError outside the service error handling' % (f.short, unparse(call)[:40], k, k - 1))
    hs = ctx.fn('mapproxy/request/base.py:Request.host')
    ok = not any(isinstance(x, ast.Assign) and isinstance(x.targets[0], ast.Tuple) and is_call(x.value, 'split') and len(x.value.args) < 2 for x in hs.walk())
    ctx.check(ok, 'Request.host:no-fixed-unpack', 'the Host header is taken apart by indexing, not by unpacking a fixed number of parts', hs,
              fail='Request.host unpacks host.split(":") into a fixed number of names: "[::1]:8080" raises ValueError before any error handling')
    er = ctx.fn('mapproxy/service/tile.py:TileLayer.empty_response')
    asg = [s for s in er.walk() if isinstance(s, ast.Assign) and unparse(s.targets[0]) == 'self._empty_tile']
    ok = bool(asg) and all(isinstance(s.value, ast.Call) and simple_name(s.value) in ('read', 'getvalue', 'bytes', 'tobytes') for s in asg)
    ctx.check(ok, 'TileLayer.empty_response:cached-body-is-bytes', 'the cached empty tile is stored as bytes (every response gets its own body)', er,
              fail='the cached empty tile is a shared stream object: a WSGI server that closes the first response (or two overlapping responses) '
                   'breaks every later empty-tile answer of that layer')


@rule('C18.i', floor=2)
def c18i(ctx):
    """"the declared content type": an encoded tile is only passed through un-encoded when its label (image_opts.format) equals the
    requested format, so every tile loaded from a cache must carry the label of the cache's format.  Backends that build
    ImageSource(<stored bytes>) without image_opts are only sound if the tile manager labels what it loaded before it returns it"""
    base = ctx.repo.cls('mapproxy/cache/base.py:TileCacheBase')
    unlabelled, labelled = [], []
    for c in sorted(base.subclasses(), key=lambda c: c.qn):
        if not ctx.thorough and c.file not in ('mapproxy/cache/file.py', 'mapproxy/cache/mbtiles.py', 'mapproxy/cache/geopackage.py', 'mapproxy/cache/compact.py'):
            continue
        for m in ('load_tile', 'load_tiles', '_load_tile'):
            f = c.own_method(m)
            if f is None:
                continue
            for x in f.walk():
                if is_call(x, 'ImageSource') and x.args:
                    (labelled if keyword(x, 'image_opts', 2) is not None else unlabelled).append((f, x))
    for f, x in labelled:
        ctx.ok('%s:source-labelled' % f.short, 'the loaded tile source is created with the cache\'s image options', f, x)
    lt = ctx.fn('mapproxy/cache/tile.py:TileManager._load_tile_coords')
    g = lt.cfg
    load_calls = g.find(lambda x: is_call(x, 'self.cache.load_tiles'))
    loads = [n for n, x in load_calls]
    labels = g.find_stmts(lambda s: isinstance(s, ast.Assign) and unparse(s.targets[0]).endswith('.source.image_opts') and same(s.value, 'self.image_opts'))
    all_rets = g.find_stmts(lambda s: isinstance(s, ast.Return))
    loops = [g.node_of[id(l)] for l in lt.walk() if isinstance(l, ast.For) and id(l) in g.node_of and any(inside(g.stmt[s], l) for s in labels)]
    # every batch load (the first one and the late one for tiles stored meanwhile) is followed by a labelling loop over the list it
    # loaded, on every way to a return
    central = bool(loads) and bool(loops)
    for l, x in load_calls:
        lst = unparse(x.args[0]) if x.args else '?'
        mine = [lp for lp in loops if unparse(g.stmt[lp].iter) == lst and g.dominates(l, lp)]
        central = central and bool(mine) and not any(g.reaches_avoiding(l, r, avoid=set(mine)) for r in all_rets)
    # the label is only set where it is missing (a labelled source keeps its own)
    central = central and all(g.guarded(s, lambda at: at.op == '==' and 'image_opts' in at.text and 'None' in at.text, True) or
                              g.guarded(s, lambda at: at.op is None and 'image_opts' in at.text, False) for s in labels)
    if unlabelled:
        names = sorted({f.short for f, x in unlabelled})
        ctx.check(central, 'TileManager._load_tile_coords:labels-loaded-tiles',
                  'tiles loaded by backends that do not label their sources (%s) get the cache\'s image options before they are returned' % ', '.join(names), lt,
                  fail='%s create ImageSource(<stored bytes>) without image_opts and the tile manager does not label them either: '
                       'ImageSource.as_buffer() cannot know the stored format, so a tile-sized GetMap in another FORMAT (TRANSPARENT=true) returns '
                       'the stored bytes under the requested content type' % ', '.join(names))
    else:
        ctx.ok('TileManager._load_tile_coords:labels-loaded-tiles', 'every backend labels the sources it loads', lt)
    ab = ctx.fn('mapproxy/image/__init__.py:ImageSource.as_buffer')
    ok = any(isinstance(x, ast.Compare) and 'format' in unparse(x) and 'self.image_opts' in unparse(x) for x in ab.walk())
    ctx.check(ok, 'ImageSource.as_buffer:reencode-on-format-change', 'an encoded image is re-encoded when its label differs from the requested format', ab)


def _class_covers(pattern, want):
    """does the regular expression `pattern` consist of one character class that contains every code point in `want`?"""
    import re._parser as sre
    try:
        p = sre.parse(pattern)
    except Exception:
        return False
    if len(p) != 1 or str(p[0][0]) != 'IN':
        return False
    have = set()
    for op, arg in p[0][1]:
        if str(op) == 'LITERAL':
            have.add(arg)
        elif str(op) == 'RANGE':
            have.update(range(arg[0], arg[1] + 1))
        elif str(op) == 'NEGATE':
            return False
    return set(want) <= have


XML_ILLEGAL = list(range(0, 9)) + [0x0b, 0x0c] + list(range(0x0e, 0x20))


def _removes_chars(fn, expr, want, ctx, depth=2):
    """is `expr` (closed form, inside function fn) the result of a filter that removes every code point in `want`?
    recognised: <compiled pattern>.sub('', x) / re.sub(pattern, '', x) with a covering character class; a comprehension over the
    characters with a filter `c >= ' '` (for want < 0x20); a chain of .replace(ch, '') for every wanted character; a call of a
    module function whose returned expression does"""
    mod = fn.mod
    for x in ast.walk(expr):
        if isinstance(x, ast.Call) and isinstance(x.func, ast.Attribute) and x.func.attr == 'sub' and len(x.args) >= 2 and const_value(x.args[0], 1) == '':
            # compiled pattern bound to a module constant
            recv = x.func.value
            if isinstance(recv, ast.Name):
                c = ctx.repo.const_expr(mod, recv.id)
                if c and is_call(c[1], 're.compile') and c[1].args and isinstance(const_value(c[1].args[0], None), str):
                    if _class_covers(const_value(c[1].args[0]), want):
                        return True
        if is_call(x, 're.sub') and len(x.args) >= 3 and const_value(x.args[1], 1) == '' and isinstance(const_value(x.args[0], None), str):
            if _class_covers(const_value(x.args[0]), want):
                return True
        if isinstance(x, (ast.GeneratorExp, ast.ListComp)) and len(x.generators) == 1 and isinstance(x.generators[0].target, ast.Name) and \
                unparse(x.elt) == x.generators[0].target.id and max(want) < 0x20:
            cv = x.generators[0].target.id
            for t in x.generators[0].ifs:
                for c in ast.walk(t):
                    if isinstance(c, ast.Compare):
                        ops = [c.left] + c.comparators
                        for a, op, b in zip(ops, c.ops, ops[1:]):
                            if unparse(b) == cv and const_value(a, None) == ' ' and isinstance(op, ast.LtE):
                                return True
                            if unparse(a) == cv and const_value(b, None) == ' ' and isinstance(op, ast.GtE):
                                return True
                            if same(a, 'ord(%s)' % cv) and const_value(b, None) in (32, 31) and isinstance(op, (ast.GtE, ast.Gt)):
                                return True
    reps = {const_value(x.args[0], None) for x in ast.walk(expr) if isinstance(x, ast.Call) and isinstance(x.func, ast.Attribute) and
            x.func.attr == 'replace' and len(x.args) == 2 and const_value(x.args[1], 1) == ''}
    if all(chr(w) in reps for w in want):
        return True
    if depth > 0:
        for x in ast.walk(expr):
            if isinstance(x, ast.Call) and isinstance(x.func, ast.Name):
                q = ctx.repo.resolve_name(mod, x.func)
                f = ctx.repo.funcs.get(q) if q else None
                if f is not None:
                    from ..flow import Canon as _C
                    cf = _C(f)
                    if any(r.value is not None and _removes_chars(f, cf.expr(r.value), want, ctx, depth - 1) for r in returns_of(f.node)):
                        return True
    return False


@rule('C18.j', floor=2)
def c18j(ctx):
    """error documents stay well-formed for every parameter value: the request-derived message that enters the XML / OWS exception
    templates is escaped *and* freed from the control characters XML 1.0 does not allow (they cannot be escaped)"""
    from ..flow import Canon
    for cname in ('XMLExceptionHandler', 'OWSExceptionHandler'):
        fn = ctx.fn('mapproxy/exception.py:%s.render' % cname)
        cf = Canon(fn)
        subs = [x for x in fn.walk() if is_call(x, 'substitute')]
        if not subs:
            raise Undecided('%s.render: no template.substitute' % cname)
        for x in subs:
            v = keyword(x, 'exception')
            form = cf.expr(v) if v is not None else None
            esc = form is not None and contains(form, lambda y: isinstance(y, ast.Call) and (call_name(y) or '').split('.')[-1] in ('escape', 'escape_xml_text', 'quoteattr'))
            ok = form is not None and _removes_chars(fn, form, XML_ILLEGAL, ctx)
            ctx.check(ok, '%s.render:message-without-illegal-xml-characters' % cname,
                      'the message is passed through a filter that removes U+0000-U+0008, U+000B, U+000C, U+000E-U+001F before it enters the template', fn, x,
                      fail='control characters of a request parameter (e.g. LAYERS=a%08b) are copied into the exception report: the document is not well-formed XML')
            ctx.check(esc or ok, '%s.render:message-escaped' % cname, 'the message is escaped', fn, x)


@rule('C18.k', floor=1)
def c18k(ctx):
    """no request parameter can start a new header line: every header value that is handed to start_response went through a
    filter that removes CR and LF (content types are built from FORMAT / INFO_FORMAT values of unvalidated requests)"""
    from ..flow import Canon
    fn = ctx.fn('mapproxy/response.py:Response.fixed_headers')
    cf = Canon(fn)
    apps = [x for x in fn.walk() if isinstance(x, ast.Call) and isinstance(x.func, ast.Attribute) and x.func.attr == 'append' and x.args]
    if not apps:
        raise Undecided('Response.fixed_headers: no append')
    for x in apps:
        t = x.args[0]
        val = t.elts[1] if isinstance(t, ast.Tuple) and len(t.elts) == 2 else t
        form = cf.expr(val)
        ok = _removes_chars(fn, form, [0x0a, 0x0d], ctx)
        ctx.check(ok, 'Response.fixed_headers:no-line-breaks-in-values', 'header values are filtered (no CR / LF) before they are emitted', fn, x,
                  fail='header values are emitted as they are: a CR/LF in INFO_FORMAT (empty GetFeatureInfo result) or FORMAT (in-image exception) '
                       'injects a header line into the response')
    call = ctx.fn('mapproxy/response.py:Response.__call__')
    ok = any(is_call(x, 'start_response') and len(x.args) >= 2 and same(x.args[1], 'self.fixed_headers') for x in call.walk())
    ctx.check(ok, 'Response.__call__:emits-fixed-headers', 'start_response receives the filtered header list', call)


@rule('C18.l', floor=1)
def c18l(ctx):
    """an image answer declares the type it is encoded in: the in-image exception handler (rendered for requests that did not pass
    validation) derives the content type from the image options the image is created with, not from the raw FORMAT parameter"""
    fn = ctx.fn('mapproxy/request/wms/exception.py:WMSImageExceptionHandler.render')
    defs = Defs(fn.node)
    from ..flow import Canon
    cf = Canon(fn)
    resp = [x for x in fn.walk() if is_call(x, 'Response')]
    mi = [x for x in fn.walk() if is_call(x, 'message_image')]
    if not resp or not mi:
        raise Undecided('WMSImageExceptionHandler.render: Response / message_image not found')
    opts = keyword(mi[0], 'image_opts', 2)
    for x in resp:
        ct = keyword(x, 'content_type', 2) or keyword(x, 'mimetype', 3)
        form = cf.expr(ct) if ct is not None else None
        raw = form is not None and contains(form, lambda y: isinstance(y, ast.Attribute) and y.attr in ('format_mime_type',)) or \
            (form is not None and contains(form, lambda y: is_call(y, 'get') and y.args and const_value(y.args[0], None) == 'format'))
        from_opts = ct is not None and opts is not None and depends(ct, lambda y: isinstance(y, ast.Name) and unparse(y) == unparse(opts), defs)
        ctx.check(bool(from_opts) and not raw, 'WMSImageExceptionHandler.render:declares-encoded-format',
                  'the content type is computed from the image options the error image is encoded with', fn, x,
                  fail='the content type of an in-image exception is the raw FORMAT parameter of the (unvalidated) request: "PNG" for WMS 1.0.0, '
                       'arbitrary trailing text otherwise')


@rule('C18.m', floor=2)
def c18m(ctx):
    """an image answer has the size that was requested: every image the simple (same SRS) transformation declares as `size=dst_size`
    has that size -- the unresampled crop box is (x0, y0, x0 + dst_size[0], y0 + dst_size[1]) (width and height taken from the
    requested size, not from two independently rounded corners), the resampled branch transforms to dst_size"""
    fn = ctx.fn('mapproxy/image/transform.py:ImageTransformer._transform_simple')
    crops = [x for x in fn.walk() if isinstance(x, ast.Call) and isinstance(x.func, ast.Attribute) and x.func.attr == 'crop' and x.args]
    if not crops:
        raise Undecided('_transform_simple: no crop')
    for x in crops:
        box = resolve1(x.args[0], Defs(fn.node))         # the box may be given a name first
        ok = isinstance(box, ast.Tuple) and len(box.elts) == 4
        if ok:
            at = fn.cfg.node_for(x)
            x0, y0, x1, y1 = [fn.canon.expr(e, at=at) for e in box.elts]        # closed forms: sizes may be unpacked into locals
            # compared as written at the call (x0 / y0 are the already rounded locals): right = left + width, lower = upper + height
            want = [sorted([factors(x0), ['dst_size[0]']]), sorted([factors(y0), ['dst_size[1]']])]
            ok = [sum_of_products(x1), sum_of_products(y1)] == want
        ctx.check(ok, 'ImageTransformer._transform_simple:crop-has-requested-size', 'the crop box spans exactly dst_size from its upper left corner', fn, x,
                  fail='the crop box %s does not span dst_size from its upper left corner: the image is a pixel larger or smaller than the size it is '
                       'declared with (the merger returns it as it is for a single opaque layer)' % unparse(box)[:90])
    trs = [x for x in fn.walk() if isinstance(x, ast.Call) and isinstance(x.func, ast.Attribute) and x.func.attr == 'transform' and x.args]
    ok = bool(trs) and all(same(x.args[0], 'dst_size') for x in trs)
    ctx.check(ok, 'ImageTransformer._transform_simple:resample-to-requested-size', 'the resampled branch transforms to dst_size', fn)


@rule('C18.n', floor=2)
def c18n(ctx):
    """the HTML of the root page is well-formed whatever Host / X-Forwarded-* headers the request carries: every value that is formatted
    into the page is a constant, the version string or went through escape_html"""
    W = 'mapproxy/wsgiapp.py:MapProxyApp.'
    fn = ctx.repo.with_inlined(ctx.fn(W + '__call__'), ['welcome_response'])
    n = 0
    for x in fn.walk():
        if isinstance(x, ast.BinOp) and isinstance(x.op, ast.Mod) and isinstance(x.left, ast.Constant) and isinstance(x.left.value, str) and '<' in x.left.value:
            vals = x.right.elts if isinstance(x.right, ast.Tuple) else [x.right]
            for v in vals:
                n += 1
                form = fn.canon.expr(v)
                safe = isinstance(form, ast.Constant) or same(form, 'mapproxy.version.version') or is_call(form, 'escape_html', 'escape')
                ctx.check(safe, 'MapProxyApp.welcome_response:html-value-%d' % n, 'the value %s formatted into the page is escaped / constant' % unparse(form)[:50], fn, x,
                          fail='the request-derived value %s is formatted into the HTML of the root page without escape_html: a Host / X-Forwarded-Host '
                               'header with markup characters injects elements and attributes' % unparse(form)[:60])
    if n < 2:
        raise Undecided('welcome page: only %d formatted values found' % n)


REQUEST_PATH_MODULES = ['mapproxy/layer.py', 'mapproxy/service/wms.py', 'mapproxy/service/tile.py', 'mapproxy/service/wmts.py', 'mapproxy/service/kml.py',
                        'mapproxy/service/demo.py', 'mapproxy/service/base.py', 'mapproxy/service/ows.py', 'mapproxy/source/wms.py', 'mapproxy/source/tile.py',
                        'mapproxy/source/arcgis.py', 'mapproxy/source/mapnik.py', 'mapproxy/source/error.py', 'mapproxy/cache/tile.py',
                        'mapproxy/image/__init__.py', 'mapproxy/image/tile.py', 'mapproxy/image/merge.py', 'mapproxy/image/transform.py', 'mapproxy/wsgiapp.py']
OS_LEVEL_EXCEPTIONS = {'IOError', 'OSError', 'EnvironmentError', 'Exception', 'BaseException', 'FileNotFoundError', 'PermissionError', 'UnidentifiedImageError'}
CLIENT_ERRORS = {'RequestError', 'SourceError', 'MapError', 'MapBBOXError', 'InvalidSourceQuery', 'PlainExceptionHandler'}


@rule('C18.o', floor=6)
def c18o(ctx):
    """an error document never contains a file-system path of the server: the text of an I/O level exception (IOError / OSError and what
    PIL raises -- "cannot identify image file '/srv/cache/../000.png'", "[Errno 13] Permission denied: '/srv/..'") names the file it
    was about.  Where the request path catches such an exception and raises one of the errors that are reported to the client, the
    caught exception reaches the message only through error_text_without_file_names (which strips file references), never as
    `'...%s' % ex`, str(ex) or ex.args"""
    n = 0
    for rel in REQUEST_PATH_MODULES:
        if rel not in ctx.repo.modules:
            continue
        for fn in sorted(ctx.repo.fns_in(rel + ':'), key=lambda f: f.qn):
            if '#' in fn.qn:
                continue
            for h in [x for x in fn.walk() if isinstance(x, ast.ExceptHandler)]:
                names = ({n_.id for n_ in ast.walk(h.type) if isinstance(n_, ast.Name)} | {n_.attr for n_ in ast.walk(h.type) if isinstance(n_, ast.Attribute)}) \
                    if h.type is not None else {'BaseException'}
                if not (names & OS_LEVEL_EXCEPTIONS):
                    continue
                n += 1
                if not h.name:
                    ctx.ok('%s:handler@%s' % (fn.short, sorted(names)[0]), 'the exception is not bound', fn, h)
                    continue
                bad = []
                for r in [x for x in ast.walk(h) if isinstance(x, ast.Raise) and x.exc is not None]:
                    exc = r.exc
                    if not (isinstance(exc, ast.Call) and simple_name(exc) in CLIENT_ERRORS):
                        continue
                    for a in list(exc.args) + [k.value for k in exc.keywords if k.arg in (None, 'msg', 'message')]:
                        for u in [y for y in ast.walk(a) if isinstance(y, ast.Name) and y.id == h.name]:
                            par = getattr(u, '_parent', None)
                            clean = isinstance(par, ast.Call) and simple_name(par) == 'error_text_without_file_names'
                            if not clean:
                                bad.append(unparse(a)[:70])
                k = sum(1 for o in ctx.obs if o.construct.startswith('%s:handler@' % fn.short))
                ctx.check(not bad, '%s:handler@%s#%d' % (fn.short, sorted(names & OS_LEVEL_EXCEPTIONS)[0], k),
                          'no client-visible error is built from the text of the caught %s' % '/'.join(sorted(names & OS_LEVEL_EXCEPTIONS)), fn, h,
                          fail='%s puts the text of a caught %s into an error that is reported to the client (%s): the message names files of the server'
                               % (fn.short, '/'.join(sorted(names & OS_LEVEL_EXCEPTIONS)), '; '.join(bad)))
    if n < 6:
        raise Undecided('only %d handlers of I/O level exceptions found on the request path' % n)
    hp = ctx.fn('mapproxy/util/py.py:error_text_without_file_names')
    subs = [x for x in hp.walk() if isinstance(x, ast.Call) and isinstance(x.func, ast.Attribute) and x.func.attr == 'sub']
    pat = ctx.repo.mod('mapproxy/util/py.py').constants.get('_file_reference')
    ptxt = const_value(pat.args[0]) if isinstance(pat, ast.Call) and pat.args else None
    import re as _re
    ok = bool(subs) and isinstance(ptxt, str)
    if ok:
        rx = _re.compile(ptxt)
        samples = ["cannot identify image file '/srv/cache/01/000.png'", "cannot identify image file <_io.BufferedReader name='/srv/c/0.png'>",
                   "[Errno 13] Permission denied: '/srv/cache/x'", 'cannot open /srv/cache/a.png now', 'broken C:\\\\cache\\\\a.png']
        ok = all('/srv' not in rx.sub('', s_) and 'C:' not in rx.sub('', s_) for s_ in samples)
    ctx.check(ok, 'error_text_without_file_names:strips-file-references', 'quoted names, object reprs and bare paths are removed from the text', hp,
              fail='error_text_without_file_names does not remove file references from the exception text')


@rule('C18.p', floor=3)
def c18p(ctx):
    """what the request controls is escaped before it stands in a document: the KML documents carry the URL of the service (host and
    scheme come from X-Forwarded-Host / X-Forwarded-Proto) in the href of every NetworkLink and every GroundOverlay.  Either the server
    hands the renderer the URL already escaped (escape_html(script_url)), or every href the renderer writes is escaped where it is
    built -- one of the two for *all* hrefs (an escape moved into the renderer for one loop and forgotten for the other leaves the
    GroundOverlay links raw: a host `h</href><x/>` adds elements to the document)"""
    srv = ctx.fn('mapproxy/service/kml.py:KMLServer.kml')
    rnd = ctx.fn('mapproxy/service/kml.py:KMLRenderer.render')
    calls = [x for x in srv.walk() if isinstance(x, ast.Call) and isinstance(x.func, ast.Attribute) and x.func.attr == 'render' and keyword(x, 'url') is not None]
    if not calls:
        raise Undecided('KMLServer.kml: render(url=...) not found')
    pre = all(is_call(srv.canon.expr(keyword(x, 'url')), 'escape_html') for x in calls)
    hrefs = []
    for x in rnd.walk():
        if isinstance(x, ast.Call) and call_name(x) == 'dict':
            for k in x.keywords:
                if k.arg == 'href':
                    hrefs.append((k.value, x))
    if len(hrefs) < 2:
        raise Undecided('KMLRenderer.render: %d href substitutions found' % len(hrefs))
    for i, (v, node) in enumerate(hrefs):
        c = rnd.ctext(v, at=rnd.cfg.node_for(node))
        own = c.startswith('escape_html(')
        ctx.check(pre or own, 'KMLRenderer.render:href#%d:escaped' % (i + 1), 'the href is escaped (by the server for the whole URL, or here)', rnd, node,
                  fail='the href %s is written into the KML document without escape_html: the host of the request ends up raw in the XML' % c[:60])
    ctx.check(True, 'KMLServer.kml:url-source', 'url handed to the renderer: %s' % ('escaped by the server' if pre else 'raw, escaped per href'), srv)


@rule('C18.q', floor=1)
def c18q(ctx):
    """every request gets an answer: the request object is built *before* the catch-all of the application, so its constructor must
    not assume optional CGI variables.  PEP 3333 lets a server omit PATH_INFO, QUERY_STRING and every HTTP_* variable: in
    Request.__init__ they are read with `.get(..)` (or after the constructor stored them itself), never by plain subscript"""
    fn = ctx.fn('mapproxy/request/base.py:Request.__init__')
    OPTIONAL = ('PATH_INFO', 'QUERY_STRING', 'CONTENT_TYPE', 'CONTENT_LENGTH', 'SCRIPT_NAME')
    g = fn.cfg
    bad = []
    for x in fn.walk():
        if isinstance(x, ast.Subscript) and isinstance(x.ctx, ast.Load) and isinstance(x.value, ast.Name) and x.value.id in ('environ', 'env'):
            k = const_value(x.slice)
            if isinstance(k, str) and (k in OPTIONAL or k.startswith('HTTP_')):
                n = g.node_for(x)
                stores = g.find_stmts(lambda s: isinstance(s, ast.Assign) and any(isinstance(t, ast.Subscript) and unparse(t.value) == x.value.id and
                                                                                  const_value(t.slice) == k for t in s.targets))
                present = g.guarded(n, lambda at: at.op == 'in' and k in at.text, True)
                if not present and not any(g.dominates(s_, n) and s_ != n for s_ in stores):
                    bad.append("%s[%r]" % (x.value.id, k))
    ctx.check(not bad, 'Request.__init__:optional-variables-read-with-default', 'optional CGI variables are read with a default', fn,
              fail='Request.__init__ indexes the environ with a key a server may omit (%s): the KeyError is raised outside the catch-all and the '
                   'request gets no response' % ', '.join(sorted(set(bad))))


@rule('C18.r', floor=2)
def c18r(ctx):
    """shared rule C16.b, re-evaluated for this property: an image response has the declared content type -- the tile layer hands the
    *checked* format of the request to the response (a request whose format is not exactly the layer's format is refused before the
    tile is loaded); a request without format that slips through gets a content type guessed from the first bytes, `image/png` for
    everything that is not JPEG"""
    from ..engine import share
    share(ctx, 'C16', {'C16.b'}, keep=lambda o: 'format-check-first' in o.construct)
