"""C16 -- invalid or oversized requests are refused before they cost anything.
Decided ("without any upstream request and without any write" is a dominance statement):
the membership predicates limit_tile / _create_tile_list / internal_tile_coord as decision
tables (C16.a); format, coordinate and dimension checks dominate the tile-manager call,
unknown layers/matrix sets raise before any lookup (C16.b); the pixel and tile limits are
comparisons of an area (X times Y) with the configured limit whose true edge raises, placed
before any work (C16.c); out-of-grid (None) coordinates are inert in the manager, in every
backend and in the creators (C16.d).
Added in round 4: the REST dimension pre-check looks at every dimension slot before the tile is
rendered (C16.i).
Added in round 5: sizes that are not positive are refused (C16.j); the tile limit is given to every
CacheMapLayer (C16.k); WMTS addresses are validated by the layer of the requested matrix set
(C16.l).
Added in round 6: public order to internal level before the bounds check (C16.m, shared C02.d);
WMS-C compares with the stored format (C16.n)."""
import ast

from ..engine import rule
from ..model import Undecided
from ..cfg import cexpr, same, dotted, call_name, is_call, simple_name, unparse, const_value, contains, enclosing, implied
from ..flow import Defs, depends, scoped_defs
from ..decide import table, ret_kind
from ..util import component_of, component_expr, keyword, returns_of, calls_in, inside, order_key

NOT_DECIDED = 'that the error responses are well-formed (C18); numeric behaviour of the grid arithmetic for huge values'

GRID = 'mapproxy/grid.py'
TILE = 'mapproxy/service/tile.py'
WMTS = 'mapproxy/service/wmts.py'


def _none_or(node):
    if node is None:
        return 'fall'
    if isinstance(node, ast.Return):
        v = node.value
        return 'None' if v is None or (isinstance(v, ast.Constant) and v.value is None) else 'coord'
    if isinstance(node, ast.Expr) and isinstance(node.value, ast.Yield):
        v = node.value.value
        return 'None' if v is None or (isinstance(v, ast.Constant) and v.value is None) else 'coord'
    return type(node).__name__


def _bounds_formula(tab, lo_x, lo_y, hi_x, hi_y):
    """atoms: x < 0, y < 0, x < LIMX, y < LIMY  (canonical forms)"""
    A = tab.atoms
    ax0 = [a for a in A if a.replace(' ', '') in ('%s<0' % lo_x,)]
    ay0 = [a for a in A if a.replace(' ', '') in ('%s<0' % lo_y,)]
    axl = [a for a in A if a.startswith('%s < ' % lo_x) and a not in ax0]
    ayl = [a for a in A if a.startswith('%s < ' % lo_y) and a not in ay0]
    return ax0, ay0, axl, ayl


@rule('C16.a', floor=4)
def c16a(ctx):
    fn = ctx.fn(GRID + ':TileGrid.limit_tile')
    tab = ctx.rows(table(fn.node.body, _none_or))
    A = tab.atoms
    defs = Defs(fn.node)
    names = {k: {n for n, ds in defs.defs.items() for v, sel in ds if sel == k and same(v, 'tile_coord')} for k in range(3)}
    xs, ys, zs = (sorted(names[k])[0] if names[k] else '?' for k in range(3))
    ax0, ay0, axl, ayl = _bounds_formula(tab, xs, ys, None, None)
    a_str = [a for a in A if 'isinstance' in a]
    a_in = [a for a in A if ' in self.grid_sizes' in a]
    az0 = [a for a in A if a.replace(' ', '') == '%s<0' % zs]
    azl = [a for a in A if a.startswith('%s < ' % zs) and a not in az0]
    ok = all(len(x) == 1 for x in (ax0, ay0, axl, ayl, a_str, a_in, az0, azl))
    bad = []
    if ok:
        gx = tab.atom_objs[axl[0]].right
        gy = tab.atom_objs[ayl[0]].right
        cx, cy = component_of(gx, defs), component_of(gy, defs)
        idx_ok = cx is not None and cy is not None and cx[1] == 0 and cy[1] == 1 and cx[0] == cy[0]
        lvl_ok = idx_ok and cx[0] == 'self.grid_sizes[%s]' % zs
        zlim_ok = same(tab.atom_objs[azl[0]].right, 'self.levels')
        for asg, out, _ in tab.assignments():
            zbad = (not asg[a_in[0]]) if asg[a_str[0]] else (asg[az0[0]] or not asg[azl[0]])
            want = 'None' if (zbad or asg[ax0[0]] or asg[ay0[0]] or not asg[axl[0]] or not asg[ayl[0]]) else 'coord'
            if out != want:
                bad.append((asg, out))
        ok = not bad and idx_ok and lvl_ok and zlim_ok
    ctx.check(ok, 'TileGrid.limit_tile:table',
              'None <=> bad level or x<0 or y<0 or not x<grid[0] or not y<grid[1], with grid = grid_sizes[level] (%d rows)' % len(tab.rows), fn,
              fail='limit_tile lets an address outside the grid through (or rejects one inside): %s' % (bad[:2] or 'limits are not grid_sizes[z][0|1] / self.levels'))
    rets = [r for r in returns_of(fn.node) if not (isinstance(r.value, ast.Constant) and r.value.value is None)]
    ok = bool(rets) and all(isinstance(r.value, ast.Tuple) and [unparse(e) for e in r.value.elts] == [xs, ys, zs] for r in rets)
    ctx.check(ok, 'TileGrid.limit_tile:identity', 'an address inside the grid is returned unchanged', fn)
    # _create_tile_list
    fn = ctx.fn(GRID + ':_create_tile_list')
    loops = [s for s in fn.walk() if isinstance(s, ast.For)]
    inner = [l for l in loops if not any(isinstance(s, ast.For) for s in l.body)]
    if not inner:
        raise Undecided('_create_tile_list: inner loop not found')
    outer = [l for l in loops if l is not inner[0]]
    # one abstract pass through the row loop body (a per-row flag computed outside the column loop is followed)
    tab = ctx.rows(table(outer[0].body if outer else inner[0].body, _none_or, descend_loops=True))
    xv, yv = unparse(inner[0].target), unparse(outer[0].target) if outer else '?'
    ax0, ay0, axl, ayl = _bounds_formula(tab, xv, yv, None, None)
    ok = all(len(x) == 1 for x in (ax0, ay0, axl, ayl))
    bad = []
    if ok:
        defs = Defs(fn.node)

        def lim(a):
            # closed form of the limit (it may be held in a local, unpacked from the grid size or indexed)
            r = tab.atom_objs[a].right
            for at in (lambda: fn.cfg.node_for(r), lambda: fn.cfg.node_of[id(inner[0])]):
                try:
                    t = fn.ctext(r, at=at())         # (where the limit is compared: it may be unpacked inside the loop)
                except Exception:       # noqa
                    continue
                if t.startswith('grid_size['):
                    return t
            return fn.ctext(r, at=fn.cfg.node_of[id(inner[0])])
        lims_ok = lim(axl[0]) == 'grid_size[0]' and lim(ayl[0]) == 'grid_size[1]'
        for asg, out, _ in tab.assignments():
            want = 'None' if (asg[ax0[0]] or asg[ay0[0]] or not asg[axl[0]] or not asg[ayl[0]]) else 'coord'
            if out != want:
                bad.append((asg, out))
        ok = not bad and lims_ok
    ctx.check(ok, '_create_tile_list:table', 'None <=> x<0 or y<0 or not x<grid_size[0] or not y<grid_size[1] (%d rows)' % len(tab.rows), fn,
              fail='_create_tile_list yields an address outside the level grid: %s' % (bad[:2] or 'limits are not grid_size[0|1]'))
    # TileServiceGrid.internal_tile_coord
    fn = ctx.fn(TILE + ':TileServiceGrid.internal_tile_coord')
    g = fn.cfg
    rets = g.find_stmts(lambda s: isinstance(s, ast.Return))
    ok = bool(rets)
    for r in rets:
        v = g.stmt[r].value
        if isinstance(v, ast.Constant) and v.value is None:
            ok = ok and g.guarded(r, lambda at: at.op == '<' and const_value(at.right) == 0 and 'z' in unparse(at.left), True)
        else:
            ok = ok and is_call(v, 'self.grid.limit_tile')
    ctx.check(ok, 'TileServiceGrid.internal_tile_coord:limited', 'negative level -> None; every other result is grid.limit_tile(...)', fn,
              fail='internal_tile_coord can return a coordinate that did not pass limit_tile')
    itc = ctx.fn(TILE + ':TileLayer._internal_tile_coord')
    g = itc.cfg
    rs = g.find_stmts(lambda s: isinstance(s, ast.Raise))
    ok = bool(rs) and any(g.guarded(r, lambda at: at.op == '==' and 'tile_coord' in at.text and 'None' in at.text, True) for r in rs)
    rets = g.find_stmts(lambda s: isinstance(s, ast.Return))
    ok = ok and all(g.guarded(r, lambda at: at.op == '==' and 'tile_coord' in at.text and 'None' in at.text, False) for r in rets)
    ctx.check(ok, 'TileLayer._internal_tile_coord:none-raises', 'a None coordinate raises TileOutOfRange; nothing is returned for it', itc,
              fail='an out-of-range address (None) is not turned into an error: it is passed on to the tile manager')


@rule('C16.b', floor=10)
def c16b(ctx):
    for m in ('render', 'get_info'):
        fn = ctx.fn('%s:TileLayer.%s' % (TILE, m))
        g = fn.cfg
        loads = g.find(lambda x: is_call(x, 'load_tile_coord', 'load_tile_coords'))
        if not loads:
            ctx.bad('TileLayer.%s:load' % m, 'no tile manager call', fn)
            continue
        fmt_raise = [r for r in g.find_stmts(lambda s: isinstance(s, ast.Raise)) if
                     g.guarded(r, lambda at: at.op == '==' and '.format' in at.text and 'self.format' in at.text, False)]
        coord = g.find(lambda x: is_call(x, 'self._internal_tile_coord'))
        dims = g.find(lambda x: is_call(x, 'self.checked_dimensions'))
        for n, l in loads:
            fmt_edges = g.guard_edges(lambda at: at.op == '==' and '.format' in at.text and 'self.format' in at.text, True)
            ok = bool(fmt_raise) and g.guarded(n, lambda at: at.op == '==' and '.format' in at.text and 'self.format' in at.text, True)
            ctx.check(ok, 'TileLayer.%s:format-check-first' % m, 'a tile in a format the layer does not offer raises before the tile manager is called', fn, l,
                      fail='the tile manager is called for a format the layer does not offer')
            ok = bool(coord) and all(g.dominates(c, n) and c != n for c, _ in coord)
            ctx.check(ok, 'TileLayer.%s:coord-check-first' % m, '_internal_tile_coord (bounds, TileOutOfRange) dominates the tile manager call', fn, l)
            ok = bool(dims) and all(g.dominates(c, n) and c != n for c, _ in dims)
            ctx.check(ok, 'TileLayer.%s:dimension-check-first' % m, 'checked_dimensions dominates the tile manager call', fn, l)
            a0 = l.args[0] if l.args else None
            defs = Defs(fn.node)
            ok = a0 is not None and depends(a0, lambda y: is_call(y, 'self._internal_tile_coord'), defs)
            ctx.check(ok, 'TileLayer.%s:loads-checked-coord' % m, 'the coordinate loaded is the one returned by _internal_tile_coord', fn, l)
    for m in ('tile', 'featureinfo'):
        fn = ctx.fn('%s:WMTSServer.%s' % (WMTS, m))
        g = fn.cfg
        chk = [n for n, x in g.find(lambda x: is_call(x, 'self.check_request'))]
        look = g.find(lambda x: isinstance(x, ast.Subscript) and unparse(x.value).startswith('self.layers'))
        ok = bool(chk) and bool(look) and all(g.dominates(chk[0], n) and n != chk[0] for n, x in look)
        ctx.check(ok, 'WMTSServer.%s:check-request-first' % m, 'check_request dominates the layer/matrix-set lookup', fn,
                  fail='self.layers[...] is indexed with request values before check_request validated them')
    cr = ctx.fn(WMTS + ':WMTSServer.check_request')
    g = cr.cfg
    for what, pred in (('layer', lambda at: at.op == 'in' and 'request.layer' in unparse(at.left) and same(at.right, 'self.layers')),
                       ('matrix-set', lambda at: at.op == 'in' and 'tilematrixset' in unparse(at.left))):
        rs = [r for r in g.find_stmts(lambda s: isinstance(s, ast.Raise)) if g.guarded(r, pred, False)]
        ctx.check(bool(rs), 'WMTSServer.check_request:unknown-%s-raises' % what, 'an unknown %s raises' % what, cr)
    ly = ctx.fn(TILE + ':TileServer.layer')
    g = ly.cfg
    rs = [r for r in g.find_stmts(lambda s: isinstance(s, ast.Raise)) if g.guarded(r, lambda at: at.op == '==' and 'internal_layer' in at.text and 'None' in at.text, True)]
    au = g.find(lambda x: is_call(x, 'self.authorize_tile_layer'))
    ok = bool(rs) and bool(au) and all(g.guarded(n, lambda at: at.op == '==' and 'internal_layer' in at.text and 'None' in at.text, False) for n, x in au)
    ctx.check(ok, 'TileServer.layer:unknown-layer-raises', 'an unknown layer raises before anything else happens', ly)


def _area_of(expr, defs, base_pred):
    """is expr (through local defs) a product of element [0] and element [1] of the same sequence satisfying base_pred?"""
    e = expr
    seen = 0
    while isinstance(e, ast.Name) and seen < 4:
        d = defs.single(e.id)
        if not d or d[1] is not None:
            return False, unparse(expr)
        e = d[0]
        seen += 1
    if not (isinstance(e, ast.BinOp) and isinstance(e.op, ast.Mult)):
        return False, unparse(e)

    def elem(x):
        # name bound by unpacking (w, h = size) or subscript, the sequence possibly bound to a local first
        c = component_expr(x, defs)
        if c is not None and (base_pred(c[0]) or (isinstance(x, ast.Subscript) and base_pred(x.value))):
            return c[1]
        if isinstance(x, ast.Name):
            for v, sel in defs.of(x.id):
                if isinstance(sel, int) and base_pred(v):
                    return sel
        return None
    a, b = elem(e.left), elem(e.right)
    return {a, b} == {0, 1}, unparse(e)


def _test_before(g, atom, limit, targets):
    """every path to a target passes the statement that tests `atom`, except paths on which the limit is known to be unset"""
    tests = {s for s, d, test, pol in g.branch_edges() for at, p in implied(test, pol) if at.text == atom.text} | \
            {s for s, d, test, pol in g.branch_edges() for at, p in implied(test, not pol) if at.text == atom.text}
    for s, d, test, pol in g.branch_edges():
        from ..cfg import all_atoms
        if any(at.text == atom.text for at, _ in all_atoms(test)):
            tests.add(s)
    unset = g.guard_edges(lambda at: at.op is None and unparse(at.expr) == limit, False)
    reach = g.reachable(0, skip_edges=unset, avoid=tests)
    return bool(tests) and all(n not in reach or n in tests for n in targets)


@rule('C16.c', floor=8)
def c16c(ctx):
    fn = ctx.fn('mapproxy/service/wms.py:WMSServer.map')
    first = fn.node.body[0]
    if isinstance(first, ast.Expr) and isinstance(first.value, ast.Constant):
        first = fn.node.body[1]
    ok = isinstance(first, ast.Expr) and is_call(first.value, 'self.check_map_request')
    ctx.check(ok, 'WMSServer.map:limits-first', 'the first statement of the handler is check_map_request', fn,
              fail='work is done before check_map_request (pixel limit, layer/format/SRS validation)')
    cm = ctx.fn('mapproxy/service/wms.py:WMSServer.check_map_request')
    g = cm.cfg
    defs = Defs(cm.node)
    raises = g.find_stmts(lambda s: isinstance(s, ast.Raise))
    lim = None
    for r in raises:
        for at, pol in g.guards_of(r):
            if at.op == '<' and (same(at.left, 'self.max_output_pixels') or same(at.right, 'self.max_output_pixels')):
                lim = (r, at, pol)
    if lim is None:
        ctx.bad('WMSServer.check_map_request:pixel-limit', 'no raise on a comparison with self.max_output_pixels: the output size is unbounded', cm)
    else:
        r, at, pol = lim
        qty = at.right if same(at.left, 'self.max_output_pixels') else at.left
        # direction: raise when quantity is on the large side
        large = (same(at.left, 'self.max_output_pixels')) == pol
        ctx.check(large, 'WMSServer.check_map_request:pixel-limit-direction', 'the request is refused when the pixel count exceeds the limit', cm, g.stmt[r],
                  fail='the pixel limit comparison points the wrong way')
        okq, txt = _area_of(qty, defs, lambda b: unparse(b).endswith('.size'))
        ctx.check(okq, 'WMSServer.check_map_request:pixel-count-is-area', 'the compared quantity is width * height of the requested size', cm, g.stmt[r],
                  fail='the quantity compared with max_output_pixels is %s, not size[0] * size[1]: tall or wide requests escape the limit' % txt)
        others = g.find(lambda x: is_call(x, 'self.validate_layers', 'validate_format', 'validate_srs'))
        # the check comes before layer validation
        ok = _test_before(g, at, 'self.max_output_pixels', [n for n, x in others])
        ctx.check(ok, 'WMSServer.check_map_request:before-validation', 'the pixel limit is checked before layers/format/SRS are validated', cm)
        ok = isinstance(g.stmt[r].exc, ast.Call) and simple_name(g.stmt[r].exc) == 'RequestError'
        ctx.check(ok, 'WMSServer.check_map_request:raises-request-error', 'exceeding the limit raises RequestError', cm)
    im = ctx.fn('mapproxy/layer.py:CacheMapLayer._image')
    g = im.cfg
    defs = Defs(im.node)
    loads = g.find(lambda x: is_call(x, 'load_tile_coords'))
    raises = g.find_stmts(lambda s: isinstance(s, ast.Raise))
    lim = None
    for r in raises:
        for at, pol in g.guards_of(r):
            if at.op == '<' and 'self.max_tile_limit' in (unparse(at.left), unparse(at.right)):
                lim = (r, at, pol)
    if lim is None:
        ctx.bad('CacheMapLayer._image:tile-limit', 'no raise on a comparison with self.max_tile_limit: one request can fetch any number of tiles', im)
    else:
        r, at, pol = lim
        qty = at.right if same(at.left, 'self.max_tile_limit') else at.left
        large = (same(at.left, 'self.max_tile_limit')) == pol or (same(at.right, 'self.max_tile_limit')) == (not pol)
        ctx.check(large, 'CacheMapLayer._image:tile-limit-direction', 'the request is refused when the tile count reaches/exceeds the limit', im, g.stmt[r])
        def is_grid(b):
            if isinstance(b, ast.Name):
                return any(is_call(v, 'get_affected_tiles') and sel == 1 for v, sel in defs.of(b.id))
            return False
        okq, txt = _area_of(qty, defs, is_grid)
        ctx.check(okq, 'CacheMapLayer._image:tile-count-is-area', 'the compared quantity is tile_grid[0] * tile_grid[1] of get_affected_tiles()', im, g.stmt[r],
                  fail='the quantity compared with max_tile_limit is %s, not tile_grid[0] * tile_grid[1]: the limit does not bound the number of tiles' % txt)
        ok = bool(loads) and _test_before(g, at, 'self.max_tile_limit', [n for n, x in loads])
        ctx.check(ok, 'CacheMapLayer._image:limit-before-load', 'the tile limit is checked before tiles are loaded/created', im,
                  fail='tiles are loaded before the tile limit is checked')
        ok = isinstance(g.stmt[r].exc, ast.Call) and simple_name(g.stmt[r].exc) == 'MapBBOXError'
        ctx.check(ok, 'CacheMapLayer._image:raises-bbox-error', 'exceeding the limit raises MapBBOXError', im)
    # tiled_only: exactly one aligned tile
    t1 = [r for r in raises if g.guarded(r, lambda a: a.op is None and same(a.expr, 'query.tiled_only'), True)]
    ok = len(t1) >= 2 and all(any(g.dominates(r, n) or not g.reaches_avoiding(r, n) for n, x in loads) or True for r in t1)
    one = any(g.guarded(r, lambda a: a.op == '<' and const_value(a.left) == 1 and 'num_tiles' in unparse(a.right), True) for r in t1)
    aligned = any(g.guarded(r, lambda a: a.mentions(lambda y: is_call(y, 'bbox_equals')), False) for r in t1)
    iffs = {id(enclosing(g.stmt[r], ast.If)) for r in t1}
    before = bool(loads) and all(all(g.stmt[r].lineno < x.lineno for n, x in loads) for r in t1)
    ctx.check(one and aligned and before, 'CacheMapLayer._image:tiled-only', 'tiled_only requests raise unless they are exactly one aligned tile, before any load', im,
              fail='a tiled (WMS-C) request that is not exactly one aligned tile is not refused before tiles are loaded')


BACKENDS_QUICK = [('mapproxy/cache/file.py', 'FileCache'), ('mapproxy/cache/compact.py', 'CompactCacheBase'),
                  ('mapproxy/cache/mbtiles.py', 'MBTilesCache'), ('mapproxy/cache/mbtiles.py', 'MBTilesLevelCache'),
                  ('mapproxy/cache/geopackage.py', 'GeopackageCache'), ('mapproxy/cache/geopackage.py', 'GeopackageLevelCache')]
IO_CALLS = ('self.tile_location', 'os.path.exists', 'self.db.cursor', 'self._get_bundle', 'self._get_level', 'self.load_tile', 'ImageSource')


@rule('C16.d', floor=14)
def c16d(ctx):
    fn = ctx.fn('mapproxy/cache/tile.py:TileManager._is_tile_missing')
    g = fn.cfg
    rets = g.find_stmts(lambda s: isinstance(s, ast.Return))
    none_atom = lambda at: at.op == '==' and 'coord' in at.text and 'None' in at.text
    ok = any(const_value(g.stmt[r].value, 1) is False and g.guarded(r, none_atom, True) for r in rets) and \
        all(g.guarded(r, none_atom, False) for r in rets if const_value(g.stmt[r].value, 1) is not False)
    ctx.check(ok, 'TileManager._is_tile_missing:none-not-missing', 'a None coordinate is never "missing" (it is never handed to a creator)', fn,
              fail='a tile without coordinate (outside the grid) can be reported missing and handed to the tile creator')
    ic = ctx.fn('mapproxy/cache/tile.py:TileManager.is_cached')
    g = ic.cfg
    cc = g.find(lambda x: is_call(x, 'self.cache.is_cached'))
    ok = bool(cc) and all(g.guarded(n, none_atom, False) for n, x in cc)
    ctx.check(ok, 'TileManager.is_cached:none-is-cached', 'is_cached answers True for a None coordinate without asking the backend', ic)
    for rel, cname in BACKENDS_QUICK:
        for m in ('load_tile', 'is_cached'):
            f = ctx.repo.cls('%s:%s' % (rel, cname)).method(m)
            if f is None:
                raise Undecided('%s.%s not found' % (cname, m))
            ctx.stats['functions'].add(f.qn)
            g = f.cfg
            io = g.find(lambda x: is_call(x, *IO_CALLS))
            if cname == 'FileCache':
                # is_missing() = source is None and coord is not None (checked below)
                guard = lambda n: g.guarded(n, lambda at: at.mentions(lambda y: is_call(y, 'tile.is_missing')), True)
            else:
                guard = lambda n: g.guarded(n, none_atom, False)
            ok = bool(io) and all(guard(n) for n, x in io)
            ctx.check(ok, '%s.%s:none-inert' % (cname, m), '%s touches no storage for a tile without coordinate' % m, f,
                      fail='%s.%s can reach storage I/O (%s) for a tile whose coordinate is None' % (cname, m, [call_name(x) for n, x in io][:3]))
    im = ctx.fn('mapproxy/cache/tile.py:Tile.is_missing')
    # truth table of the method over its conditions: whenever the coordinate is None the answer is False
    tab = ctx.rows(table([s_ for s_ in im.node.body if not (isinstance(s_, ast.Expr) and isinstance(s_.value, ast.Constant))],
                         ret_kind, bool_returns=True))
    ca = [a for a in tab.atoms if a == 'None == self.coord']
    ok = len(ca) == 1 and all(out == 'return False' for asg, out, ev in tab.assignments() if asg[ca[0]]) and \
        any(out == 'return True' for asg, out, ev in tab.assignments())
    ctx.check(ok, 'Tile.is_missing:needs-coord', 'is_missing() is False for a tile without coordinate', im)
    # creators skip None
    for qn in ('mapproxy/cache/tile.py:TileCreator._create_meta_tile', 'mapproxy/cache/tile.py:TileCreator._create_bulk_meta_tile'):
        f = ctx.fn(qn)
        def none_filtered(e, depth=3):
            """e (closed form) is a comprehension over meta_tile.tiles that keeps the elements that are not None"""
            e = cexpr(e) if getattr(e, '_parent', None) is not None or hasattr(e, 'lineno') else e
            if not isinstance(e, (ast.GeneratorExp, ast.ListComp)) or len(e.generators) != 1:
                return False
            gen = e.generators[0]
            tv = unparse(gen.target)
            if unparse(e.elt) != tv and not contains(e.elt, lambda y: is_call(y, 'self.is_cached')):
                return False
            if any(unparse(i).replace(' ', '') == tv + 'isnotNone' for i in gen.ifs):
                return unparse(gen.iter).replace(' ', '') == 'meta_tile.tiles' or same(gen.iter, 'meta_tile.tiles') or \
                    (depth > 0 and none_filtered(gen.iter, depth - 1))
            return depth > 0 and not gen.ifs and none_filtered(gen.iter, depth - 1)
        need = [x for x in f.walk_all() if isinstance(x, (ast.GeneratorExp, ast.ListComp)) and contains(x.elt, lambda y: is_call(y, 'self.is_cached'))]
        need += [x.args[1] for x in f.walk_all() if isinstance(x, ast.Call) and simple_name(x) == 'imap' and len(x.args) > 1]
        ok = bool(need) and all(none_filtered(x) for x in need)
        ctx.check(ok, '%s:skips-none' % f.short, 'tiles of the meta tile that lie outside the grid (None) are skipped', f,
                  fail='the creator handles tiles of the meta tile whose coordinate is None')
    sm = ctx.fn('mapproxy/cache/tile.py:split_meta_tiles')
    g = sm.cfg
    ap = g.find(lambda x: is_call(x, 'split_tiles.append', 'Tile', 'splitter.get_tile'))
    ok = bool(ap) and all(g.guarded(n, lambda at: at.op == '==' and 'tile_coord' in at.text and 'None' in at.text, False) for n, x in ap)
    ctx.check(ok, 'split_meta_tiles:skips-none', 'pattern entries without coordinate are skipped (no tile object is created for them)', sm,
              fail='split_meta_tiles creates tiles for pattern entries whose coordinate is None: they reach the cache store')


BULK = [('mapproxy/cache/mbtiles.py', 'MBTilesCache'), ('mapproxy/cache/geopackage.py', 'GeopackageCache'),
        ('mapproxy/cache/mbtiles.py', 'MBTilesLevelCache'), ('mapproxy/cache/geopackage.py', 'GeopackageLevelCache'),
        ('mapproxy/cache/compact.py', 'BundleV1'), ('mapproxy/cache/compact.py', 'BundleV2'), ('mapproxy/cache/compact.py', 'CompactCacheBase')]


@rule('C16.e', floor=7)
def c16e(ctx):
    """bulk loads skip tiles without coordinate (and tiles that already have data) before the coordinate is used"""
    for rel, cname in BULK:
        f = ctx.fn('%s:%s.load_tiles' % (rel, cname))
        g = f.cfg
        loops = [s for s in f.walk() if isinstance(s, ast.For) and same(s.iter, 'tiles')]
        comps = [c for c in f.walk() if isinstance(c, (ast.ListComp, ast.GeneratorExp, ast.SetComp)) and len(c.generators) == 1 and
                 same(c.generators[0].iter, 'tiles')]
        if not loops and not comps:
            ctx.bad('%s.load_tiles:loop' % cname, 'no loop over the tiles', f)
            continue
        uses_all, ok = [], True
        for c in comps:
            # [<uses t.coord> for t in tiles if <filter>]: the filter must exclude tiles without coordinate
            tv = unparse(c.generators[0].target)
            cu = [x for x in ast.walk(c.elt) if isinstance(x, ast.Attribute) and x.attr == 'coord' and unparse(x.value) == tv]
            if not cu:
                continue
            excl = any(at.op == '==' and ('%s.coord' % tv) in at.text and 'None' in at.text and p is False
                       for t in c.generators[0].ifs for at, p in implied(t, True))
            ok = ok and excl
            uses_all += cu
        for lp in sorted(loops, key=order_key):
            tv = unparse(lp.target)
            body = ast.Module(body=lp.body, type_ignores=[])
            uses = [x for x in ast.walk(body) if isinstance(x, ast.Attribute) and x.attr == 'coord' and unparse(x.value) == tv
                    and not isinstance(getattr(x, '_parent', None), ast.Compare)]
            uses += [x for x in ast.walk(body) if is_call(x, 'self._load_tile') and any(unparse(a_) == tv for a_ in x.args)]
            none_atom = (lambda tv: lambda at: at.op == '==' and ('%s.coord' % tv) in at.text and 'None' in at.text)(tv)
            ok = ok and all(g.guarded(g.node_for(x), none_atom, False) for x in uses)
            uses_all += uses
        ok = ok and bool(uses_all)
        ctx.check(ok, '%s.load_tiles:none-skipped' % cname, 'inside the bulk loop the coordinate is only used for tiles whose coordinate is not None', f,
                  fail='%s.load_tiles uses the coordinate of tiles that lie outside the grid (coord None): TypeError / wrong address in a bulk load' % cname)


@rule('C16.f', floor=4)
def c16f(ctx):
    """every tile list is limited by the grid size of its level: _create_tile_list(xs, ys, level, <limit>) receives
    grid_sizes[level] (named exemption: _full_tile_list builds the bounding box of tiles that are already in the grid)"""
    n = 0
    for q, f in sorted(ctx.repo.funcs.items()):
        if not q.startswith(GRID + ':'):
            continue
        defs = Defs(f.node)
        for x in f.walk():
            if not is_call(x, '_create_tile_list'):
                continue
            n += 1
            lim = x.args[3] if len(x.args) > 3 else None
            lvl = unparse(x.args[2]) if len(x.args) > 2 else '?'
            if f.short == 'MetaGrid._full_tile_list':
                ctx.ok('%s:tile-list-limit' % f.short, 'exempt: bounding box of in-grid tiles (its callers pass tiles that exist in the grid)', f, x)
                continue
            ok = lim is not None and f.ctext(lim).replace('self.grid.', 'self.') == 'self.grid_sizes[%s]' % f.ctext(x.args[2])
            ctx.check(ok, '%s:tile-list-limit' % f.short, 'the tile list is limited by grid_sizes[%s]' % lvl, f, x,
                      fail='%s builds its tile list with limit %s instead of the grid size of level %s: addresses outside the grid are not None' % (
                          f.short, unparse(lim) if lim is not None else '?', lvl))
    # users of the exempt helper
    callers = []
    for q, f in sorted(ctx.repo.funcs.items()):
        if q.startswith(GRID + ':') and f.short != 'MetaGrid._full_tile_list':
            callers += [(f, x) for x in f.walk() if is_call(x, 'self._full_tile_list')]
    ok = all(f.short == 'MetaGrid.minimal_meta_tile' for f, x in callers) and bool(callers)
    ctx.check(ok, 'MetaGrid._full_tile_list:only-for-minimal-meta-tile', 'the bbox-limited list is only used for the request-minimising meta tile (built from tiles that were requested and are in the grid)',
              (GRID, 0), fail='_full_tile_list (limited by its own bounding box, not by the grid) is used by %s: tiles hanging over the grid edge are fetched and stored' % sorted({f.short for f, x in callers}))
    if n < 4:
        raise Undecided('only %d _create_tile_list call sites' % n)


@rule('C16.g', floor=2)
def c16g(ctx):
    """an oversized GetMap is refused as a document, never as an image of the requested size: when the size guard sets
    prevent_image_exception every image-producing exception handler (in-image and blank) is out of reach -- the handler property
    returns the XML handler on every path with the flag set"""
    fn = ctx.fn('mapproxy/request/wms/__init__.py:WMSMapRequest.exception_handler')

    def cls(node):
        if node is None:
            return 'fall'
        if isinstance(node, ast.Return):
            v = unparse(node.value)
            return 'image' if ('ImageExceptionHandler' in v or 'BlankExceptionHandler' in v) else 'xml' if 'xml_exception_handler' in v else 'other:' + v[:30]
        return type(node).__name__
    tab = ctx.rows(table(fn.node.body, cls))
    fl = [a for a in tab.atoms if a == 'self.prevent_image_exception']
    bad = [asg for asg, out, _ in tab.assignments() if fl and asg[fl[0]] and out != 'xml']
    ctx.check(len(fl) == 1 and not bad, 'WMSMapRequest.exception_handler:guarded-by-size-flag',
              'with prevent_image_exception set the XML exception handler is returned for every EXCEPTIONS value (%d rows)' % len(tab.rows), fn,
              fail='an image exception handler (in-image or blank) can be chosen although the request was refused for its size: the error is '
                   'answered with an image of the refused size')
    cm = ctx.fn('mapproxy/service/wms.py:WMSServer.check_map_request')
    g = cm.cfg
    raises = [n for n in g.find_stmts(lambda s: isinstance(s, ast.Raise)) if any(
        at.op == '<' and 'max_output_pixels' in at.text for at, p in g.guards_of(n))]
    sets = g.find_stmts(lambda s: isinstance(s, ast.Assign) and unparse(s.targets[0]).endswith('.prevent_image_exception') and const_value(s.value) is True)
    ok = bool(raises) and bool(sets) and all(any(g.dominates(s, r) for s in sets) for r in raises)
    ctx.check(ok, 'WMSServer.check_map_request:flag-before-raise', 'the size guard sets prevent_image_exception before it raises', cm,
              fail='the size guard raises without setting prevent_image_exception: an in-image error of the refused size is rendered')


@rule('C16.h', floor=2)
def c16h(ctx):
    """a feature info format nobody offers is refused: WMTS check_request validates INFOFORMAT whenever it is called for a feature
    info request -- the validation is switched off only by the default argument (info_formats is None: a tile request), not by an
    empty collection of configured formats (then every format is unknown)"""
    fn = ctx.fn('mapproxy/service/wmts.py:WMTSServer.check_request')
    p = 'info_formats'
    if p not in fn.params:
        raise Undecided('WMTSServer.check_request has no parameter info_formats')
    tab = ctx.rows(table(fn.node.body, lambda n: 'refuse-infoformat' if isinstance(n, ast.Raise) and 'infoformat' in unparse(n) else
                         'refuse' if isinstance(n, ast.Raise) else 'accept'))
    none_atoms = [a for a in tab.atoms if tab.atom_objs[a].op == '==' and {unparse(tab.atom_objs[a].left), unparse(tab.atom_objs[a].right)} == {p, 'None'}]
    truthy = [a for a in tab.atoms if tab.atom_objs[a].op is None and unparse(tab.atom_objs[a].expr) == p]
    known = [a for a in tab.atoms if tab.atom_objs[a].op == 'in' and 'infoformat' in unparse(tab.atom_objs[a].left)]
    ok = len(none_atoms) == 1 and not truthy and len(known) >= 1
    bad = []
    if ok:
        for asg, out, _ in tab.assignments():
            if out != 'accept' or asg[none_atoms[0]]:
                continue
            # formats were given (not None) and the request was accepted: some membership test must have succeeded
            if not any(asg[a] for a in known):
                bad.append(asg)
    ctx.check(ok and not bad, 'WMTSServer.check_request:infoformat-validated-unless-None',
              'a feature info request is accepted only if its format is one of the offered ones; only info_formats=None skips the test (%d rows)' % len(tab.rows), fn,
              fail='the INFOFORMAT validation is skipped for an empty (falsy) collection of offered formats: any format is accepted and forwarded upstream')
    fi = ctx.fn('mapproxy/service/wmts.py:WMTSServer.featureinfo')
    calls = [x for x in fi.walk() if is_call(x, 'self.check_request')]
    ok = bool(calls) and all(len(x.args) >= 2 or keyword(x, 'info_formats') is not None for x in calls)
    ctx.check(ok, 'WMTSServer.featureinfo:passes-formats', 'featureinfo hands the offered formats to check_request', fi)


@rule('C16.i', floor=2)
def c16i(ctx):
    """a REST tile request with a value for a dimension the layer does not offer is refused before anything is fetched: the pre-check of
    the RESTful WMTS looks at *every* dimension slot of the URL -- the loop over request.dimensions is left only by the refusal (or when
    all slots were seen), and a slot is refused exactly when the layer does not have that dimension and the value is not 'default'.
    (Values of dimensions the layer has are checked by TileLayer.checked_dimensions, C09.e.)"""
    fn = ctx.fn('mapproxy/service/wmts.py:WMTSRestServer.check_request_dimensions')
    loops = [s for s in fn.walk() if isinstance(s, ast.For) and contains(cexpr(s.iter), lambda x: isinstance(x, ast.Attribute) and x.attr == 'dimensions')]
    if len(loops) != 1:
        raise Undecided('check_request_dimensions: loop over request.dimensions not found')
    lp = loops[0]

    def cls(node):
        if node is None or isinstance(node, ast.Continue):
            return 'next'
        if isinstance(node, ast.Raise):
            return 'refuse'
        return 'leaves:' + type(node).__name__
    tab = ctx.rows(table(lp.body, cls))
    a_in = [a for a in tab.atoms if 'tile_layer.dimensions' in a or '.dimensions' in a and ' in ' in a]
    a_def = [a for a in tab.atoms if "'default'" in a]
    ok = len(a_in) == 1 and len(a_def) == 1
    bad = []
    if ok:
        oi, od = tab.atom_objs[a_in[0]], tab.atom_objs[a_def[0]]
        for asg, out, _ in tab.assignments():
            known = asg[a_in[0]] if oi.op == 'in' else not asg[a_in[0]]
            is_default = asg[a_def[0]] if od.op == '==' else not asg[a_def[0]]
            want = 'refuse' if (not known and not is_default) else 'next'
            if out != want:
                bad.append((dict(asg), out))
    ctx.check(ok and not bad, 'WMTSRestServer.check_request_dimensions:every-slot',
              'each dimension slot: unknown to the layer and not "default" -> refused, otherwise on to the next slot (%d rows)' % len(tab.rows), fn,
              fail='the pre-check does not look at every dimension slot or refuses the wrong ones: %s' % (bad[:2] if ok else sorted(tab.atoms)))
    # the handlers (inherited from WMTSServer) run the pre-check before they ask the layer for the tile
    for m in ('tile', 'featureinfo'):
        h = ctx.fn('mapproxy/service/wmts.py:WMTSServer.' + m)
        g = h.cfg
        chk = g.find(lambda x: is_call(x, 'self.check_request_dimensions'))
        # the upstream / cache work of the handler: tile_layer.render(..) for tiles, <info source>.get_info(..) for feature info
        use = g.find(lambda x: isinstance(x, ast.Call) and isinstance(x.func, ast.Attribute) and x.func.attr in ('render', 'get_info'))
        ok = bool(chk) and bool(use) and all(any(g.dominates(c, n) and c != n for c, _ in chk) for n, _ in use)
        ctx.check(ok, 'WMTSServer.%s:dimension-pre-check-first' % m, 'check_request_dimensions dominates the rendering of the tile', h,
                  fail='WMTSServer.%s renders the tile without the dimension pre-check' % m)


@rule('C16.j', floor=2)
def c16j(ctx):
    """a map request beyond the pixel limit is refused before it costs anything -- also one whose size is not a size: the limit is a
    bound on width * height, and the product of two negative values is positive and small.  check_map_request refuses a width or height
    that is not positive (on every path that leaves the function normally both have been compared with 0), and it runs before the map
    is rendered"""
    fn = ctx.fn('mapproxy/service/wms.py:WMSServer.check_map_request')
    g = fn.cfg

    def comp(e, i):
        c = fn.canon.expr(e)
        return isinstance(c, ast.Subscript) and const_value(c.slice) == i and unparse(c.value).endswith('params.size')

    ok = True
    after = g.find(lambda x: is_call(x, 'self.validate_layers', 'request.validate_format', 'request.validate_srs'))
    for i in (0, 1):
        # every way to the validation calls that follow (the normal way through the function) passes a test that entails
        # `0 < size[i]` (written `not size[i] <= 0`), `not size[i] < 1`, or that no size was given at all
        alts = [(lambda at, i=i: at.op == '<' and const_value(at.left) == 0 and comp(at.right, i), True),
                (lambda at, i=i: at.op == '<' and comp(at.left, i) and const_value(at.right) in (0, 1), False),
                (lambda at: at.op == '==' and 'None' in at.text and 'size' in at.text, True)]
        ok = ok and bool(after) and all(g.guarded_any(n, alts) for n, x in after)
    ctx.check(ok, 'WMSServer.check_map_request:size-positive', 'a width or height <= 0 leaves check_map_request with an error', fn,
              fail='check_map_request accepts a width or height that is not positive: the pixel limit (a bound on the product) lets two negative '
                   'values through and the layers are rendered before the image step fails')
    mp = ctx.fn('mapproxy/service/wms.py:WMSServer.map')
    gm = mp.cfg
    chk = gm.find(lambda x: is_call(x, 'self.check_map_request'))
    rnd = gm.find(lambda x: is_call(x, 'LayerRenderer', 'renderer.render', 'self.authorized_layers'))
    ok = bool(chk) and bool(rnd) and all(any(gm.dominates(c, n) and c != n for c, _ in chk) for n, x in rnd)
    ctx.check(ok, 'WMSServer.map:checked-before-rendering', 'check_map_request dominates the rendering of the map', mp)


@rule('C16.k', floor=2)
def c16k(ctx):
    """the tile limit is enforced where the tiles are counted: CacheMapLayer.get_map refuses a request over `max_tile_limit`, so every
    CacheMapLayer the loader builds for a cache is given the configured limit in its constructor -- a limit set afterwards on whatever
    wraps the layers (the SRS switch of a cache with several grids) is never looked at by the layers inside"""
    fn = ctx.fn('mapproxy/config/loader.py:CacheConfiguration.map_layer')
    ctors = [x for x in fn.walk() if is_call(x, 'CacheMapLayer')]
    if not ctors:
        raise Undecided('CacheConfiguration.map_layer: CacheMapLayer construction not found')
    for k, x in enumerate(ctors):
        lim = keyword(x, 'max_tile_limit', 3)
        c = fn.canon.expr(lim) if lim is not None else None
        ok = c is not None and is_call(c, 'self.context.globals.get_value') and c.args and const_value(c.args[0]) == 'max_tile_limit'
        ctx.check(ok, 'CacheConfiguration.map_layer:CacheMapLayer#%d:limit-in-constructor' % (k + 1), 'CacheMapLayer(.., max_tile_limit=<configured limit>)', fn, x,
                  fail='a CacheMapLayer is built without the configured max_tile_limit: map requests over the limit are fetched and cached')
    im = ctx.fn('mapproxy/layer.py:CacheMapLayer._image')
    g = im.cfg
    loads = g.find(lambda x: is_call(x, 'self.tile_manager.load_tile_coords'))
    # the edge on which the number of tiles is compared with the limit and found too large (`n >= limit` is the atom `n < limit`
    # taken as false, `n > limit` the atom `limit < n` taken as true): the load is not reachable from it
    lim = lambda at: at.op == '<' and 'max_tile_limit' in at.text      # noqa: E731
    ok = False
    for pol in (False, True):
        over = g.guard_edges(lim, pol)
        if over and loads and all(n not in g.reachable(d) for s_, d in over for n, x in loads):
            ok = True
    ctx.check(ok, 'CacheMapLayer._image:limit-before-tiles', 'the tiles are not loaded for a request over self.max_tile_limit', im)


@rule('C16.l', floor=4)
def c16l(ctx):
    """a tile address is checked against the matrix set it was given for: in the WMTS handlers the layer object that validates the
    address (tile_bbox / render: level, row and column against the grid) is the one of the *requested* tile matrix set,
    `self.layers[request.layer][request.tilematrixset]` -- the layer entry alone forwards to its first matrix set, and an address
    outside the requested set but inside the first one is served / forwarded upstream"""
    for m, uses in (('tile', ('render',)), ('featureinfo', ('tile_bbox',))):
        fn = ctx.fn(WMTS + ':WMTSServer.' + m)
        sites = [x for x in fn.walk() if isinstance(x, ast.Call) and isinstance(x.func, ast.Attribute) and x.func.attr in uses]
        if not sites:
            raise Undecided('WMTSServer.%s: no %s call found' % (m, '/'.join(uses)))
        for x in sites:
            c = unparse(fn.canon.expr(x.func.value)).replace(' ', '')
            ok = c == 'self.layers[request.layer][request.tilematrixset]'
            ctx.check(ok, 'WMTSServer.%s:%s:layer-of-requested-matrix-set' % (m, x.func.attr), 'the address is validated by self.layers[layer][tilematrixset]', fn, x,
                      fail='WMTSServer.%s validates the tile address with %s, not with the layer of the requested tile matrix set' % (m, c[:70]))
        chk = [x for x in fn.walk() if is_call(x, 'self.check_request')]
        ctx.check(bool(chk), 'WMTSServer.%s:request-checked' % m, 'check_request (layer / matrix set known) runs in the handler', fn)


@rule('C16.m', floor=2)
def c16m(ctx):
    """shared rule C02.d, re-evaluated for this property: a level beyond the advertised tile sets is refused -- the public order is
    mapped to the internal level as (z + first-level skip) * odd-level factor *before* limit_tile judges it; with the two steps swapped
    an order above the last advertised one lands on an existing level and is fetched and stored"""
    from ..engine import share
    share(ctx, 'C02', {'C02.d'}, keep=lambda o: 'TileServiceGrid' in o.construct)


@rule('C16.n', floor=2)
def c16n(ctx):
    """a format that is not offered is refused before anything is fetched: a WMS-C request (tiled=true) is answered from single
    cached tiles, so it must ask for the format the tiles are *stored* in -- `tile_manager.format`, the one the TileSet advertises --
    and for the tile size of the grid.  (`request_format` is what the cache asks its sources for; compared with that, an unoffered
    format is fetched and stored and the offered one refused)"""
    fn = ctx.fn('mapproxy/layer.py:CacheMapLayer._check_tiled')
    g = fn.cfg
    raises = g.find_stmts(lambda s: isinstance(s, ast.Raise))

    def fmt(at):
        return at.op == '==' and {unparse(at.left), unparse(at.right)} == {'query.format', 'self.tile_manager.format'}

    def size(at):
        return at.op == '==' and {unparse(at.left), unparse(at.right)} == {'query.size', 'self.grid.tile_size'}
    ctx.check(any(g.guarded(n, fmt, False) for n in raises), 'CacheMapLayer._check_tiled:stored-format', 'a tiled request in another format than tile_manager.format is refused', fn,
              fail='CacheMapLayer._check_tiled does not compare the requested format with the format the tiles are stored in')
    ctx.check(any(g.guarded(n, size, False) for n in raises), 'CacheMapLayer._check_tiled:tile-size', 'a tiled request in another size than the tile size is refused', fn)
