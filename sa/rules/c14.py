"""C14 -- layers composite in order with correct alpha; shortcuts never change the picture.
Decided: the three shortcuts are guards -- the single-layer fast path is only taken for an
opaque layer (or a transparent output), an unset or equal size, no clipping layer coverage
and no global coverage (C14.a); opaque pruning is conservative: is_opaque may only answer
True inside the resolution range, for a non-transparent source, without partial opacity and
with the query fully inside the coverage, the generic layer is never opaque, and the reset of
the layer stack is guarded by renders_query and is_opaque (C14.b); request combination only
merges adjacent layers and is refused whenever an attribute that changes pixels differs
(C14.c); images are added and merged in list order starting from the background image
(C14.d).
Added in round 4: ranges of sources are merged unfiltered (a source without range makes the layer
unlimited), the opacity of a layer is never tested by truthiness and fades exactly below 1.0
(C14.i); a group layer is as opaque as what it draws (C14.b).
Added in round 5: flatten_to_polygons tests the type of each part (C14.j).
Added in round 6: a colour-keyed source is not opaque (C14.k); the combined source gets every
attribute the compatibility test compared (C14.l); coverages with different clip flags are not
equal (C14.m)."""
import ast

from ..engine import rule, run_property
TILE = 'mapproxy/cache/tile.py'
from ..model import Undecided
from ..cfg import same, ctext_of, same_args, dotted, call_name, is_call, simple_name, unparse, const_value, contains, enclosing, implied
from ..flow import Defs, depends
from ..decide import table, ret_kind, expr_table
from ..util import keyword, returns_of, calls_in, inside, order_key

NOT_DECIDED = 'alpha arithmetic, rounding, palette handling, the actual pixels'

MERGE = 'mapproxy/image/merge.py'
WMS = 'mapproxy/service/wms.py'
SW = 'mapproxy/source/wms.py'


def fast_path_table(ctx, mg, g, ret_node):
    """decision table of the block that contains `return layer_img` (all nested ifs of the single-layer branch)"""
    st = enclosing(g.stmt[ret_node], ast.If)
    outer = st
    while enclosing(outer, ast.If) is not None:
        outer = enclosing(outer, ast.If)
    # start below the `len(self.layers) == 1` test if that is the outermost one
    body = outer.body if 'len(self.layers)' in unparse(outer.test) else [outer]
    tab = ctx.rows(table(body, lambda n: 'fast' if isinstance(n, ast.Return) and same(n.value, 'layer_img') else 'go'))
    return st, tab


def _merge_fn(ctx):
    cands = [f for f in ctx.repo.fns_in(MERGE + ':LayerMerger.merge') if any(is_call(x, 'mask_image') for x in f.walk())]
    if not cands:
        raise Undecided('LayerMerger.merge not found')
    ctx.stats['functions'].add(cands[0].qn)
    return cands[0]


@rule('C14.a', floor=2)
def c14a(ctx):
    mg = _merge_fn(ctx)
    g = mg.cfg
    fast = g.find_stmts(lambda s: isinstance(s, ast.Return) and same(s.value, 'layer_img'))
    if not fast:
        ctx.ok('LayerMerger.merge:no-fast-path', 'no single-layer fast path', mg)
        ctx.ok('LayerMerger.merge:no-fast-path-2', 'nothing to guard', mg)
        return
    for r in fast:
        st, tab = fast_path_table(ctx, mg, g, r)
        A = tab.atoms
        a_lo = [a for a in A if a == 'layer_opts']
        a_lt = [a for a in A if a == 'layer_opts.transparent']
        a_ot = [a for a in A if a == 'image_opts.transparent']
        a_sz = [a for a in A if a == 'size']
        a_eq = [a for a in A if '==' in a and 'size' in a and 'len(' not in a]
        a_cov = [a for a in A if a == 'coverage']
        a_lc = [a for a in A if a == 'layer_coverage']
        a_clip = [a for a in A if a.endswith('.clip')]
        # the opacity of the single layer: `layer_opts.opacity is None`, `layer_opts.opacity < 1.0` (in whatever spelling)
        a_opn = [a for a in A if 'layer_opts.opacity' in a and 'None' in a]
        a_opc = [a for a in A if 'layer_opts.opacity' in a and 'None' not in a]
        ok = all(len(x) == 1 for x in (a_lo, a_lt, a_ot, a_sz, a_eq, a_cov, a_lc, a_clip, a_opn, a_opc))
        bad = []
        if ok:
            oc = tab.atom_objs[a_opc[0]]
            full = const_value(oc.right) if unparse(oc.left) == 'layer_opts.opacity' else None
            ok = oc.op == '<' and isinstance(full, (int, float)) and 0.99 <= full <= 1.0
            for asg, v, _ in tab.assignments():
                opaque_ok = (asg[a_lo[0]] and not asg[a_lt[0]]) or asg[a_ot[0]]
                size_ok = (not asg[a_sz[0]]) or asg[a_eq[0]]
                clip_free = not (asg[a_lc[0]] and asg[a_clip[0]])
                # with options, an opacity that is given and below 1 fades the layer: the composition blends it with the background
                faded = asg[a_lo[0]] and not asg[a_opn[0]] and asg[a_opc[0]]
                nec = opaque_ok and size_ok and clip_free and not asg[a_cov[0]] and not faded
                if v == 'fast' and not nec:
                    bad.append(asg)
        ctx.check(ok and not bad, 'LayerMerger.merge:fast-path-guard',
                  'the single image is returned as is only if (layer opaque or output transparent) and (no size or equal size) and no '
                  'clipping layer coverage, no global coverage and no opacity below 1 (%d rows)' % len(tab.rows), mg, st,
                  fail='the single-layer fast path is taken although %s' % (
                      'a required condition is missing from its guard: %s' % sorted(A) if not ok else 'recomposition is needed: %s' % bad[:1]))
        # only for exactly one layer
        ok = g.guarded(r, lambda at: at.op == '==' and 'len(self.layers)' in at.text and '1' in at.text, True)
        ctx.check(ok, 'LayerMerger.merge:fast-path-single', 'the fast path applies to exactly one layer', mg)


@rule('C14.b', floor=6)
def c14b(ctx):
    fn = ctx.fn(SW + ':WMSSource.is_opaque')
    tab = ctx.rows(table(fn.node.body, ret_kind))
    A = tab.atoms
    a_rr = [a for a in A if a == 'self.res_range']
    a_rc = [a for a in A if 'res_range.contains' in a]
    a_tr = [a for a in A if a == 'self.image_opts.transparent']
    a_on = [a for a in A if 'self.opacity' in a and 'None' in a]
    # every test on the value of the opacity: `self.opacity < c` (the layer is faded below c)
    a_ocmp = [a for a in A if 'self.opacity' in a and 'None' not in a]
    a_cv = [a for a in A if a == 'self.coverage']
    a_cc = [a for a in A if 'self.coverage.contains' in a]
    ok = all(len(x) == 1 for x in (a_rr, a_rc, a_tr, a_on, a_ocmp, a_cv, a_cc))
    bad = []
    if ok:
        cobj = tab.atom_objs[a_cc[0]].expr
        ok = is_call(cobj, 'self.coverage.contains') and same(cobj.args[0], 'query.bbox')
        # the one comparison is `self.opacity < c` with 0.9 <= c <= 1 (the merger fades for every opacity below 1.0, down to and
        # including 0: a lower bound on the faded range would declare an invisible layer opaque)
        oo = tab.atom_objs[a_ocmp[0]]
        c = const_value(oo.right) if unparse(oo.left) == 'self.opacity' else None
        ok = ok and oo.op == '<' and isinstance(c, (int, float)) and 0.9 <= c <= 1.0
        for asg, out, _ in tab.assignments():
            if out != 'return True':
                continue
            in_range = (not asg[a_rr[0]]) or asg[a_rc[0]]
            faded = (not asg[a_on[0]]) and asg[a_ocmp[0]]
            covered = (not asg[a_cv[0]]) or asg[a_cc[0]]
            if not (in_range and not asg[a_tr[0]] and not faded and covered):
                bad.append(asg)
    ctx.check(ok and not bad, 'WMSSource.is_opaque:conservative',
              'True only if inside the resolution range, not transparent, opacity None or not below ~1 (0 included in "below"), and no coverage or the coverage contains the query bbox (%d rows)' % len(tab.rows),
              fn, fail='is_opaque answers True although the source may leave pixels uncovered/transparent: %s' % (bad[:1] or sorted(A)))
    base = ctx.fn('mapproxy/layer.py:MapLayer.is_opaque')
    rets = returns_of(base.node)
    ctx.check(bool(rets) and all(const_value(r.value, 1) is False for r in rets), 'MapLayer.is_opaque:false', 'the generic layer is never opaque', base,
              fail='MapLayer.is_opaque can answer True for layers that do not know their transparency')
    f = ctx.fn(WMS + ':WMSLayer.is_opaque')
    rets = returns_of(f.node)
    ok = bool(rets) and all(is_call(r.value, 'any') and contains(r.value, lambda x: is_call(x, 'is_opaque')) and
                            contains(r.value, lambda x: isinstance(x, ast.Attribute) and unparse(x) == 'self.map_layers') for r in rets)
    ctx.check(ok, '%s:any-child' % f.short, 'a WMS layer is opaque iff one of its map layers is', f)
    # a group answers for what it draws: with sources of its own (`this`) only those are rendered when the group is requested
    # (map_layers_for_query), so only they can make it opaque; without, the child layers are rendered
    f = ctx.fn(WMS + ':WMSGroupLayer.is_opaque')
    g_ = f.cfg
    rets = g_.find_stmts(lambda s_: isinstance(s_, ast.Return))
    ok = bool(rets)
    for r in rets:
        v = g_.stmt[r].value
        if is_call(v, 'self.this.is_opaque'):
            ok = ok and g_.guarded(r, lambda at: at.op is None and at.text == 'self.this', True)
        elif is_call(v, 'any') and contains(v, lambda x: is_call(x, 'is_opaque')) and contains(v, lambda x: isinstance(x, ast.Attribute) and unparse(x) == 'self.layers'):
            ok = ok and g_.guarded(r, lambda at: at.op is None and at.text == 'self.this', False)
        else:
            ok = False
    mq = ctx.fn(WMS + ':WMSGroupLayer.map_layers_for_query')
    gq = mq.cfg
    own = gq.find(lambda x: is_call(x, 'self.this.map_layers_for_query'))
    ok = ok and bool(own) and all(gq.guarded(n, lambda at: at.op is None and at.text == 'self.this', True) for n, x in own)
    ctx.check(ok, 'WMSGroupLayer.is_opaque:what-it-draws', 'a group with own sources is as opaque as those, a group without as its children: the same split as map_layers_for_query', f,
              fail='WMSGroupLayer.is_opaque asks layers that the group does not draw (children of a group that renders its own sources): the layers below are '
                   'pruned although the group does not cover them')
    mp = ctx.fn(WMS + ':WMSServer.map')
    g = mp.cfg
    resets = [n for n in g.find_stmts(lambda s: isinstance(s, ast.Assign) and unparse(s.targets[0]) == 'actual_layers' and is_call(s.value, 'odict'))
              if enclosing(g.stmt[n], ast.For) is not None]
    ok = bool(resets)
    for n in resets:
        ok = ok and g.guarded(n, lambda at: at.mentions(lambda x: is_call(x, 'layer.renders_query')), True) and \
            g.guarded(n, lambda at: at.mentions(lambda x: is_call(x, 'layer.is_opaque')), True)
    ctx.check(ok, 'WMSServer.map:prune-guard', 'the layers below are dropped only when the layer renders the query and is opaque for it', mp,
              fail='layers are pruned without both renders_query() and is_opaque() being true for the covering layer')
    adds = g.find_stmts(lambda s: isinstance(s, ast.Assign) and isinstance(s.targets[0], ast.Subscript) and unparse(s.targets[0].value) == 'actual_layers')
    ok = bool(adds) and bool(resets) and all(g.reaches_avoiding(r, a) for r in resets for a in adds) and \
        all(g.stmt[a].lineno > g.stmt[r].lineno for r in resets for a in adds)
    ctx.check(ok, 'WMSServer.map:prune-before-add', 'the reset precedes adding the opaque layer itself', mp)
    ok = all(g.guarded(a, lambda at: at.mentions(lambda x: is_call(x, 'layer.renders_query')), True) for a in adds)
    ctx.check(ok, 'WMSServer.map:only-rendering-layers', 'a layer is only added if it renders the query', mp)


PIXEL_ATTRS = ['opacity', 'transparent_color', 'transparent_color_tolerance', 'coverage']


@rule('C14.c', floor=7)
def c14c(ctx):
    fn = ctx.fn(SW + ':WMSSource._is_compatible')
    tab = ctx.rows(table(fn.node.body, ret_kind, bool_returns=True))
    A = tab.atoms
    for attr in PIXEL_ATTRS:
        if attr == 'opacity':
            atoms = [a for a in A if 'opacity' in a]
            ok = len(atoms) >= 1
            bad = []
            for asg, out, _ in tab.assignments():
                # either opacity set (atom `None == self.opacity` False) must force False
                set_any = any(('None' in a and not asg[a]) for a in atoms if 'None' in a)
                if set_any and out == 'return True':
                    bad.append(asg)
            ctx.check(ok and not bad, 'WMSSource._is_compatible:%s' % attr, 'sources with an opacity are never combined', fn,
                      fail='two sources can be combined although one has an opacity (it would be applied to both or to none)')
            continue
        atoms = [a for a in A if ('self.%s' % attr) in a and ('other.%s' % attr) in a and '==' in a and (attr != 'transparent_color' or 'tolerance' not in a)]
        ok = len(atoms) == 1
        bad = []
        if ok:
            for asg, out, _ in tab.assignments():
                if not asg[atoms[0]] and out == 'return True':
                    bad.append(asg)
        ctx.check(ok and not bad, 'WMSSource._is_compatible:%s' % attr, 'a difference in %s refuses the combination' % attr, fn,
                  fail='two sources that differ in %s can be combined into one upstream request: the composition changes' % attr)
    dims = [a for a in A if 'dimensions_for_params' in a]
    ok = len(dims) == 1
    if ok:
        ok = all(not (not asg[dims[0]] and out == 'return True') for asg, out, _ in tab.assignments())
    ctx.check(ok, 'WMSSource._is_compatible:dimensions', 'different forwarded dimension values refuse the combination', fn)
    ty = [a for a in A if 'isinstance' in a]
    ok = len(ty) == 1 and all(not (not asg[ty[0]] and out == 'return True') for asg, out, _ in tab.assignments())
    ctx.check(ok, 'WMSSource._is_compatible:same-kind', 'only WMS sources are combined with WMS sources', fn)
    cl = ctx.fn(SW + ':WMSSource.combined_layer')
    g = cl.cfg
    cc = g.find(lambda x: is_call(x, 'self.client.combined_client'))
    ok = bool(cc) and all(g.guarded(n, lambda at: at.mentions(lambda x: is_call(x, 'self._is_compatible')), True) for n, x in cc)
    ctx.check(ok, 'WMSSource.combined_layer:compatible-first', 'clients are combined only for compatible sources', cl)
    cc2 = ctx.fn('mapproxy/client/wms.py:WMSClient.combined_client')
    g = cc2.cfg
    news = g.find(lambda x: is_call(x, 'WMSClient'))
    ok = bool(news) and all(g.guarded(n, lambda at: at.op == '==' and all(ctext_of(e).endswith('request_template.url') for e in (at.left, at.right)), True) for n, x in news)
    ctx.check(ok, 'WMSClient.combined_client:same-url', 'requests are combined only for the same upstream URL', cc2,
              fail='requests to different upstream URLs can be combined')
    lay = [s for s in cc2.walk() if isinstance(s, ast.Assign) and unparse(s.targets[0]) == 'new_req.params.layers']
    ok = len(lay) == 1 and isinstance(lay[0].value, ast.BinOp) and isinstance(lay[0].value.op, ast.Add) and \
        same(lay[0].value.left, 'new_req.params.layers') and same(lay[0].value.right, 'other.request_template.params.layers')
    ctx.check(ok, 'WMSClient.combined_client:layer-order', 'the combined LAYERS list is self then other (bottom layer first)', cc2,
              fail='the combined request lists the layers in the wrong order')
    cb = ctx.fn(WMS + ':combined_layers')
    # roles instead of names: R = the list that is returned, L = the layer that is offered to R[-1], C = the result of the offer
    cdefs = Defs(cb.node)
    rets = [r.value.id for r in returns_of(cb.node) if isinstance(r.value, ast.Name) and r.value.id not in cb.params]
    R = rets[0] if rets else '?'
    comb = [x for x in cb.walk() if is_call(x, 'combined_layer')]
    ok = len(comb) == 1 and same(comb[0].func.value, '%s[-1]' % R) and isinstance(comb[0].args[0], ast.Name)
    L = comb[0].args[0].id if ok else '?'
    ctx.check(ok, 'combined_layers:adjacent-only', 'only the last combined layer and the next layer (adjacent) are merged', cb,
              fail='non-adjacent layers can be combined: a layer in between changes its position in the stack')
    asg = enclosing(comb[0], ast.Assign) if comb else None
    C = asg.targets[0].id if asg is not None and isinstance(asg.targets[0], ast.Name) else '?'
    app = [x for x in cb.walk() if is_call(x, R + '.append')]
    g = cb.cfg
    ok = bool(app) and all(unparse(x.args[0]) == L and g.guarded(g.node_for(x), lambda at: at.op is None and unparse(at.expr) == C, False) for x in app)
    repl = g.find_stmts(lambda s: isinstance(s, ast.Assign) and unparse(s.targets[0]) == '%s[-1]' % R)
    ok = ok and bool(repl) and all(unparse(g.stmt[n].value) == C and g.guarded(n, lambda at: at.op is None and unparse(at.expr) == C, True) for n in repl)
    ctx.check(ok, 'combined_layers:append-otherwise', 'a layer that cannot be combined is appended in order; a combined one replaces the last entry', cb)
    # L runs over the input front to back: pop(0) from a copy, or a forward for loop over the list (tail)
    ldefs = cdefs.of(L)
    src = cb.params[0]
    okf = bool(ldefs)
    for v, sel in ldefs:
        if is_call(v, 'pop'):
            okf = okf and const_value(v.args[0] if v.args else None, 'x') == 0
        elif sel == 'elem':
            it = v
            okf = okf and not contains(it, lambda x: is_call(x, 'reversed') or (isinstance(x, ast.Slice) and x.step is not None)) and \
                (unparse(it) in (src, src + '[1:]'))
        else:
            okf = False
    first = [v for v, sel in cdefs.of(R) if isinstance(v, ast.List) and len(v.elts) == 1]
    okf = okf and len(first) == 1 and (unparse(first[0].elts[0]) in (src + '[0]', src + '.pop(0)'))
    ctx.check(okf, 'combined_layers:front-to-back', 'layers are consumed from the front (bottom first)', cb)


@rule('C14.d', floor=4)
def c14d(ctx):
    mg = _merge_fn(ctx)
    g = mg.cfg
    loops = [s for s in mg.walk() if isinstance(s, ast.For) and same(s.iter, 'self.layers')]
    ok = len(loops) == 1
    ctx.check(ok, 'LayerMerger.merge:list-order', 'layers are composed by a plain loop over self.layers (insertion order)', mg,
              fail='the composition loop does not iterate self.layers in order')
    defs = Defs(mg.node)
    res = sorted([v for v, sel in defs.of('result') if sel is None], key=order_key)
    ok = bool(res) and is_call(res[0], 'create_image') and same_args(res[0].args[:2], ['size', 'image_opts'])
    first = sorted([s for s in mg.walk() if isinstance(s, ast.Assign) and unparse(s.targets[0]) == 'result'], key=order_key)
    ok = ok and bool(loops) and first[0].lineno < loops[0].lineno
    ctx.check(ok, 'LayerMerger.merge:background-first', 'composition starts from create_image(size, image_opts) (background)', mg)
    add = ctx.fn(MERGE + ':LayerMerger.add')
    ok = any(is_call(x, 'self.layers.append') for x in add.walk()) and not any(is_call(x, 'self.layers.insert', 'sort', 'reverse') for x in add.walk())
    ctx.check(ok, 'LayerMerger.add:append', 'add() appends (bottom layers first)', add)
    for m in ('_render_raise_exceptions', '_render_capture_source_errors'):
        f = ctx.fn('%s:LayerRenderer.%s' % (WMS, m))
        gg = f.cfg
        adds = gg.find(lambda x: is_call(x, 'layer_merger.add') and len(x.args) + len(x.keywords) >= 2)
        lp = [s for s in f.walk() if isinstance(s, ast.For) and is_call(s.iter, 'imap')]
        ok = len(adds) == 1 and len(lp) == 1 and inside(adds[0][1], lp[0]) and same(lp[0].iter.args[1], 'render_layers')
        ctx.check(ok, 'LayerRenderer.%s:adds-in-order' % m, 'each rendered layer image is added inside the in-order loop over render_layers', f,
                  fail='%s does not add every rendered layer image to the merger in order' % m)
    rn = ctx.fn(WMS + ':LayerRenderer.render')
    ok = any(isinstance(s, ast.Assign) and unparse(s.targets[0]) == 'render_layers' and is_call(s.value, 'combined_layers') and
             same(s.value.args[0], 'self.layers') for s in rn.walk())
    ctx.check(ok, 'LayerRenderer.render:combined-in-order', 'the render list is combined_layers(self.layers, query)', rn)


@rule('C14.e', floor=1)
def c14e(ctx):
    """the opacity clause of _is_compatible must refuse whenever either side has an opacity (equal opacities do not
    commute with combination: (b over a)@o != a@o then b@o)"""
    fn = ctx.fn(SW + ':WMSSource._is_compatible')
    tab = ctx.rows(table(fn.node.body, ret_kind))
    a_s = [a for a in tab.atoms if 'self.opacity' in a and 'None' in a and 'other' not in a]
    a_o = [a for a in tab.atoms if 'other.opacity' in a and 'None' in a and 'self' not in a]
    ok = len(a_s) == 1 and len(a_o) == 1
    if ok:
        for asg, out, _ in tab.assignments():
            if (not asg[a_s[0]] or not asg[a_o[0]]) and out == 'return True':
                ok = False
    ctx.check(ok, 'WMSSource._is_compatible:any-opacity-refuses', 'combination is refused when self.opacity or other.opacity is set (tested against None on both sides)', fn,
              fail='sources with an opacity can be combined (e.g. when both opacities are equal): the opacity is applied once to the '
                   'combined image instead of to each layer')


@rule('C14.f', floor=3)
def c14f(ctx):
    """shortcuts trust the label: an image that can contain transparent regions is labelled transparent, and a cached tile that is
    handed on unmerged carries the cache's image options (opacity, format, transparency) -- otherwise the single-layer shortcut
    and the opacity handling of the merger return something else than the full composition"""
    fn = ctx.fn('mapproxy/image/__init__.py:SubImageSource')
    defs = Defs(fn.node)
    cr = [x for x in fn.walk() if is_call(x, 'create_image')]
    rets = [r.value for r in returns_of(fn.node) if is_call(r.value, 'ImageSource')]
    ok = len(cr) == 1 and bool(rets) and len(cr[0].args) > 1 and isinstance(cr[0].args[1], ast.Name)
    if ok:
        oname = cr[0].args[1].id
        ok = all(unparse(keyword(r, 'image_opts', 2) or ast.Constant(value=None)) == oname for r in rets)
        tr = [s for s in fn.walk() if isinstance(s, ast.Assign) and unparse(s.targets[0]) == oname + '.transparent' and const_value(s.value) is True]
        cp = [v for v, sel in defs.of(oname) if is_call(v, 'copy') and unparse(v.func.value) == fn.params[3]]
        ok = ok and bool(tr) and bool(cp)
    ctx.check(ok, 'SubImageSource:labelled-as-created', 'the partially filled canvas is created with a transparent copy of the options and returned '
              'with exactly those options', fn,
              fail='the sub image (transparent outside the pasted part) is returned with options that do not say transparent: the single-layer '
                   'shortcut hands it out without background')
    im = ctx.fn('mapproxy/layer.py:CacheMapLayer._image')
    g = im.cfg
    rets = g.find_stmts(lambda s: isinstance(s, ast.Return) and g.guarded(g.node_of[id(s)], lambda at: at.op is None and same(at.expr, 'query.tiled_only'), True))
    ok = bool(rets)
    for r in rets:
        v = g.stmt[r].value
        sets = g.find_stmts(lambda s: isinstance(s, ast.Assign) and isinstance(v, ast.Name) and unparse(s.targets[0]) == v.id + '.image_opts' and
                            same(s.value, 'self.tile_manager.image_opts'))
        ok = ok and isinstance(v, ast.Name) and bool(sets) and all(g.dominates(s, r) for s in sets)
    if not ok and rets:
        # the other way to the same guarantee: the tile manager hands out no tile without the image options of its cache (loaded tiles
        # are labelled centrally, C18.i; created tiles by their creator) -- then the explicit assignment here is redundant
        from ..engine import run_property
        sub = run_property(ctx.repo, 'C18', ctx.tier, only={'C18.i'})
        central = not sub.errors and any(o.construct == 'TileManager._load_tile_coords:labels-loaded-tiles' and o.status == 'ok' for o in sub.obs) and \
            all(o.status == 'ok' for o in sub.obs)
        cr_ = ctx.fn('mapproxy/cache/tile.py:TileCreator._create_single_tile')
        created = any(isinstance(s_, ast.Assign) and unparse(s_.targets[0]) == 'source.image_opts' and same(s_.value, 'self.tile_mgr.image_opts') for s_ in cr_.walk())
        ok = central and created
    ctx.check(ok, 'CacheMapLayer._image:tile-carries-cache-options', 'a cached tile returned unmerged (tiled_only) gets the image options of its cache', im,
              fail='a tile handed on unmerged does not carry the image options of its cache: backends that load tiles without options lose the '
                   'configured opacity/format, and the merger pastes the tile fully opaque')
    ms = ctx.fn('mapproxy/image/merge.py:LayerMerger.merge')
    ok = any(isinstance(x, ast.Attribute) and x.attr == 'opacity' and 'image_opts' in unparse(x) for x in ms.walk())
    ctx.check(ok, 'LayerMerger.merge:opacity-from-image-opts', 'the merger reads the opacity from the layer image\'s options', ms)


@rule('C14.g', floor=2)
def c14g(ctx):
    """clipping is never skipped where the clip line crosses the image: the "one source, no merging" shortcut of the tile creator is
    refused whenever the source has a clipping coverage that *intersects* the query box (a box that is only partly inside still
    needs the mask; `contains` would let it through unclipped)"""
    fn = ctx.fn(TILE + ':TileCreator._query_sources')
    g = fn.cfg
    direct = [(n, x) for n, x in g.find(lambda x: is_call(x, 'get_map')) if not isinstance(enclosing(x, ast.FunctionDef), type(None)) and
              enclosing(x, ast.FunctionDef) is fn.node]
    if not direct:
        ctx.ok('TileCreator._query_sources:no-shortcut', 'no unmerged shortcut', fn)
        return
    tab = ctx.rows(table(fn.node.body, ret_kind, event_of=lambda st: 'direct' if isinstance(st, (ast.Return, ast.Assign, ast.Expr)) and st.value is not None and
                         contains(st.value, lambda x: is_call(x, 'get_map')) else None))
    # a local that merely names the source's coverage (`coverage = self.sources[0].coverage`) is read as what it names
    import re as _re
    fdefs = Defs(fn.node)
    alias = {nm: unparse(ds[0][0]) for nm, ds in fdefs.defs.items()
             if len(ds) == 1 and ds[0][1] is None and isinstance(ds[0][0], ast.Attribute) and ds[0][0].attr == 'coverage'}

    def full(a):
        for nm, t in alias.items():
            a = _re.sub(r'(?<![\w.])%s(?!\w)' % _re.escape(nm), t, a)
        return a
    clip = [a for a in tab.atoms if full(a).endswith('.coverage.clip')]
    cov = [a for a in tab.atoms if full(a).endswith('.coverage') and tab.atom_objs[a].op is None]
    inter = [a for a in tab.atoms if is_call(tab.atom_objs[a].expr, 'intersects') and 'coverage' in a and 'query.bbox' in a]
    weaker = [a for a in tab.atoms if is_call(tab.atom_objs[a].expr, 'contains') and 'coverage' in a]
    ok = len(clip) == 1 and len(cov) == 1 and len(inter) == 1 and not weaker
    bad = []
    if ok:
        for asg, out, events in tab.assignments():
            if asg[cov[0]] and asg[clip[0]] and asg[inter[0]] and 'direct' in events:
                bad.append(asg)
    ctx.check(ok and not bad, 'TileCreator._query_sources:shortcut-off-when-clip-intersects',
              'the unmerged shortcut is not taken when the source has a clipping coverage that intersects the query (%d rows)' % len(tab.rows), fn,
              fail='the single-source shortcut is taken although a clipping coverage crosses the tile: the tile is stored unclipped')
    # the merged path hands every source's coverage to the merger
    inner = [f for q, f in ctx.repo.funcs.items() if q.startswith(TILE + ':TileCreator._query_sources.')]
    ok = any(any(isinstance(r.value, ast.Tuple) and len(r.value.elts) == 2 and unparse(r.value.elts[1]).endswith('.coverage') for r in returns_of(f.node) if r.value is not None)
             for f in inner)
    ctx.check(ok, 'TileCreator._query_sources:coverage-to-merger', 'each source image is paired with the coverage of its source for the merger', fn)


@rule('C14.h', floor=1)
def c14h(ctx):
    """shared rule, re-evaluated for this property: the clip masks are positioned with the geometry that was rendered (C10.h)"""
    sub = run_property(ctx.repo, 'C10', ctx.tier, only={'C10.h'})
    for er in sub.errors:
        raise Undecided('shared rule %s: %s' % er)
    for o in sub.obs:
        (ctx.ok if o.status == 'ok' else ctx.bad)('%s:%s' % (o.rule, o.construct), o.msg, o.where)
    ctx.stats['functions'] |= sub.stats['functions']


@rule('C14.i', floor=4)
def c14i(ctx):
    """a layer takes part in the composition whenever one of its sources is visible: the resolution range of a layer / group / cache is
    the union of the ranges of its sources, and a source *without* range (visible at every scale) makes the union unlimited.  The
    ranges are collected without looking at their value (a None in the list is what makes merge_resolution_range answer None); a
    filter on the truth of the range would drop exactly the unlimited sources and hide the layer at scales where they are visible"""
    fn = ctx.fn('mapproxy/layer.py:merge_layer_res_ranges')
    par = fn.params[0]
    comps = [x for x in fn.walk_all() if isinstance(x, (ast.ListComp, ast.GeneratorExp)) and len(x.generators) == 1 and
             same(x.generators[0].iter, par) and isinstance(x.elt, ast.Attribute) and x.elt.attr == 'res_range']
    ok = len(comps) == 1
    detail = ''
    if ok:
        gen = comps[0].generators[0]
        tv = unparse(gen.target)
        for i in gen.ifs:
            if not (is_call(i, 'hasattr') and len(i.args) == 2 and unparse(i.args[0]) == tv and const_value(i.args[1]) == 'res_range'):
                ok = False
                detail = 'filter `%s`' % unparse(i)
    ctx.check(ok, 'merge_layer_res_ranges:collects-every-range', 'the ranges of all layers are collected, the unlimited (None) ones included', fn,
              fail='the ranges are collected with a filter on their value (%s): sources without a range no longer make the merged range unlimited' % detail)
    red = [x for x in fn.walk() if is_call(x, 'reduce') and x.args and same(x.args[0], 'merge_resolution_range')]
    ctx.check(bool(red), 'merge_layer_res_ranges:reduce', 'the collected ranges are folded with merge_resolution_range', fn)
    mr = ctx.fn('mapproxy/grid.py:merge_resolution_range')
    a, b = mr.params[:2]
    tab = ctx.rows(table(mr.node.body, lambda n: 'fall' if n is None else 'none' if isinstance(n, ast.Return) and const_value(n.value, 1) is None
                         else 'range' if isinstance(n, ast.Return) else type(n).__name__))
    aa = [x for x in tab.atoms if x in (a, '%s == None' % a, 'None == %s' % a)]
    ab = [x for x in tab.atoms if x in (b, '%s == None' % b, 'None == %s' % b)]
    ok = len(aa) == 1 and len(ab) == 1
    if ok:
        for asg, out, _ in tab.assignments():
            has_a = asg[aa[0]] if aa[0] == a else not asg[aa[0]]
            has_b = asg[ab[0]] if ab[0] == b else not asg[ab[0]]
            if (out == 'range') != (has_a and has_b):
                ok = False
    ctx.check(ok, 'merge_resolution_range:unlimited-wins', 'the union of two ranges is a range only if both are ranges, else unlimited (None)', mr,
              fail='merge_resolution_range answers with a limited range although one side is unlimited')
    # opacity 0 is an opacity
    mg = _merge_fn(ctx)
    from .c05 import _truthy_names
    defs = Defs(mg.node)
    op_names = {n for n, ds in defs.defs.items() if any(isinstance(v, ast.Attribute) and v.attr == 'opacity' for v, sel in ds)} | {'opacity'}
    flagged = []
    for node in mg.walk():
        tests = []
        if isinstance(node, (ast.If, ast.While, ast.IfExp, ast.Assert)):
            _truthy_names(node.test, tests)
        elif isinstance(node, ast.BoolOp):
            for v in node.values[:-1]:
                _truthy_names(v, tests)
            for v in node.values[:-1]:
                if isinstance(v, ast.Attribute) and v.attr == 'opacity':
                    flagged.append(unparse(v))
                if isinstance(v, ast.BoolOp) and any(isinstance(y, ast.Attribute) and y.attr == 'opacity' for y in v.values):
                    flagged.append(unparse(v))
        flagged += [t.id for t in tests if t.id in op_names and t.id in defs.defs]
    ctx.check(not flagged, 'LayerMerger.merge:opacity-zero-is-an-opacity', 'the opacity of a layer is compared (is None, < 1.0), never tested by truthiness', mg,
              fail='the opacity %s is tested by truthiness: opacity 0 (invisible) is taken for "no opacity" and the layer is drawn opaque' % sorted(set(flagged)))
    g = mg.cfg
    fades = g.find(lambda x: is_call(x, 'Image.blend', 'ImageChops.multiply'))
    ok = bool(fades) and all(g.guarded(n, lambda at: at.op == '<' and 'opacity' in unparse(at.left) and const_value(at.right) in (1, 1.0), True) for n, x in fades)
    ctx.check(ok, 'LayerMerger.merge:fade-below-one', 'a layer is faded exactly when its opacity is below 1.0 (%d fading sites)' % len(fades), mg,
              fail='the fading of a layer is not guarded by `opacity < 1.0` alone')


@rule('C14.j', floor=2)
def c14j(ctx):
    """the clip mask is drawn from every polygon of the clip geometry: where the intersection of the request window with a coverage is a
    collection (a polygon plus the line along which the window touches the outline), flatten_to_polygons keeps its polygon *parts* --
    the test "is a polygon" is put to each part, not to the collection (which never is one: the mask would be empty and the clipped
    layer vanish, or cover everything)"""
    fn = ctx.fn('mapproxy/util/geom.py:flatten_to_polygons')
    sites = []
    for x in fn.walk():
        if isinstance(x, ast.For) and contains(x.iter, lambda y: isinstance(y, ast.Attribute) and y.attr == 'geoms') and isinstance(x.target, ast.Name):
            tests = [c for c in ast.walk(x) if isinstance(c, ast.Compare) and any(const_value(o) == 'Polygon' for o in [c.left] + c.comparators)]
            sites.append((x.target.id, tests, x))
        elif isinstance(x, (ast.ListComp, ast.GeneratorExp)):
            for gen in x.generators:
                if contains(gen.iter, lambda y: isinstance(y, ast.Attribute) and y.attr == 'geoms') and isinstance(gen.target, ast.Name):
                    tests = [c for i in gen.ifs for c in ast.walk(i) if isinstance(c, ast.Compare) and any(const_value(o) == 'Polygon' for o in [c.left] + c.comparators)]
                    sites.append((gen.target.id, tests, x))
    if not sites:
        raise Undecided('flatten_to_polygons: no iteration over .geoms found')
    for k, (var, tests, node) in enumerate(sites):
        ok = bool(tests) and all(contains(c, lambda y: isinstance(y, ast.Attribute) and y.attr in ('type', 'geom_type') and
                                          isinstance(y.value, ast.Name) and y.value.id == var) for c in tests)
        ctx.check(ok, 'flatten_to_polygons:parts#%d:type-of-the-part' % (k + 1), 'each part of a collection is kept if *it* is a polygon', fn, node,
                  fail='flatten_to_polygons does not test the type of the part (%s) it iterates over: the polygons of a geometry collection are '
                       'dropped / everything is kept' % var)
    rets = returns_of(fn.node)
    ctx.check(any(isinstance(r.value, ast.List) and len(r.value.elts) == 1 for r in rets if r.value is not None),
              'flatten_to_polygons:single-polygon', 'a single polygon is its own one-element list', fn)


@rule('C14.k', floor=2)
def c14k(ctx):
    """a source whose picture has holes is not opaque: a WMS source with a `transparent_color` keys that colour out of every map it
    returns, so the layers below show through -- it must not count as opaque (opaque layers prune everything below them before
    anything is rendered).  The constructor marks such a source transparent (`image_opts.transparent = True` under
    `transparent_color`), which is what is_opaque reads -- or is_opaque asks for the colour key itself"""
    init = ctx.fn('mapproxy/source/wms.py:WMSSource.__init__')
    g = init.cfg
    marks = g.find_stmts(lambda s: isinstance(s, ast.Assign) and unparse(s.targets[0]) == 'self.image_opts.transparent' and const_value(s.value, 0) is True)
    keyed = lambda at: at.op is None and unparse(at.expr) in ('self.transparent_color', 'transparent_color')      # noqa: E731
    in_init = bool(marks) and any(g.guarded(n, keyed, True) for n in marks) and \
        bool(g.guard_edges(keyed, True)) and all(any(n in g.reachable(d) for n in marks) for s_, d in g.guard_edges(keyed, True))
    op = ctx.fn('mapproxy/source/wms.py:WMSSource.is_opaque')
    go = op.cfg
    falses = go.find_stmts(lambda s: isinstance(s, ast.Return) and const_value(s.value, 1) is False)
    in_opaque = any(go.guarded(n, lambda at: at.op is None and unparse(at.expr) == 'self.transparent_color', True) for n in falses)
    ctx.check(in_init or in_opaque, 'WMSSource:colour-keyed-source-is-not-opaque', 'a source with transparent_color is marked transparent (or is_opaque tests the colour key)', init,
              fail='a WMS source with a transparent_color still counts as opaque: the layers below it are pruned and the keyed-out areas show the '
                   'background instead')
    reads = [x for x in op.walk() if isinstance(x, ast.Attribute) and unparse(x) == 'self.image_opts.transparent']
    ctx.check(bool(reads) or in_opaque, 'WMSSource.is_opaque:reads-the-mark', 'is_opaque answers False for a source marked transparent', op)


@rule('C14.l', floor=7)
def c14l(ctx):
    """combining adjacent requests never changes the picture: the source that stands in for two compatible sources behaves like
    each of them -- _is_compatible demanded that coverage, resolution range, SRS and format lists, colour key and image options are
    equal, and combined_layer hands every one of them to the combined source (a combined source without the coverage is neither
    clipped nor limited to it)"""
    fn = ctx.fn('mapproxy/source/wms.py:WMSSource.combined_layer')
    ctors = [x for x in fn.walk() if is_call(x, 'WMSSource')]
    if not ctors:
        raise Undecided('combined_layer: WMSSource construction not found')
    init = ctx.fn('mapproxy/source/wms.py:WMSSource.__init__')
    pos = {p: i - 1 for i, p in enumerate(init.params)}         # without self
    for attr in ('image_opts', 'transparent_color', 'transparent_color_tolerance', 'supported_srs', 'supported_formats', 'res_range', 'coverage'):
        ok = True
        for x in ctors:
            v = keyword(x, attr, pos.get(attr))
            ok = ok and v is not None and unparse(v) == 'self.' + attr
        ctx.check(ok, 'WMSSource.combined_layer:hands-on-%s' % attr, 'the combined source gets %s of the sources it replaces' % attr, fn,
                  fail='the combined WMS source is built without %s=self.%s: combining two adjacent layers changes what is rendered' % (attr, attr))


@rule('C14.m', floor=2)
def c14m(ctx):
    """combining adjacent requests never changes the picture: two sources are only combined when their coverages are *equal*
    (C14.c), and equal coverages clip alike -- the equality of a coverage compares the `clip` flag next to SRS and geometry.  (With
    clip left out of the comparison a clipping source and a merely limited one of the same geometry are merged into one request,
    and the clipping is lost or applied to both)"""
    for cname in ('BBOXCoverage', 'GeomCoverage'):
        fn = ctx.fn('mapproxy/util/coverage.py:%s.__eq__' % cname)
        g = fn.cfg
        trues = g.find_stmts(lambda s: isinstance(s, ast.Return) and const_value(s.value, 0) is True)

        def clip_eq(at):
            return at.op == '==' and 'self.clip' in at.text and 'other.clip' in at.text
        ok = bool(trues) and all(g.guarded(n, clip_eq, True) for n in trues)
        if not ok:
            # the comparison written as one expression: `return self.srs == other.srs and .. and self.clip == other.clip`
            rets = [r for r in returns_of(fn.node) if r.value is not None and not isinstance(r.value, ast.Constant) and unparse(r.value) != 'NotImplemented']
            ok = bool(rets) and not trues and all('self.clip' in unparse(r.value) and 'other.clip' in unparse(r.value) for r in rets)
        ctx.check(ok, '%s.__eq__:compares-clip' % cname, 'coverages are only equal when their clip flags agree', fn,
                  fail='%s.__eq__ ignores the clip flag: a clipping and a non-clipping source of one geometry count as compatible and are '
                       'combined into one request' % cname)
