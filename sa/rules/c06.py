"""C06 -- a crash while storing never leaves a corrupt or foreign tile visible.
Decided: the two mechanisms the property names are ordering/ownership disciplines:
who may open a storage file for writing (C06.a); the shape of write_atomic: unique temp
name, O_EXCL, close before rename, temp->final, handler unlinks and re-raises (C06.b);
compact bundles append the record before they publish the index entry, with the published
offset data-dependent on the append (C06.c); every reader of record bytes at an
index-derived offset treats zero as missing (C06.d); every store goes through the atomic
writer with the location the readers open (C06.e).
Added in round 5: storage modules do not write through raw descriptors and do not copy files into
place (C06.g).
Added in round 6: the temporary bundle of a defragmentation starts empty (C06.h, shared C19.g)."""
import ast

from ..engine import rule
from ..model import Undecided
from ..cfg import same, dotted, call_name, is_call, simple_name, unparse, const_value, contains, enclosing, find_all
from ..flow import Canon, expand, Defs, depends, try_const
from ..decide import table, ret_kind
from ..util import calls_to, keyword, returns_of, calls_in, inside, order_key

NOT_DECIDED = 'torn writes, directory states after a crash, durability (fsync), non-POSIX rename semantics'

FS = 'mapproxy/util/fs.py'
COMPACT = 'mapproxy/cache/compact.py'
STORAGE = ['mapproxy/cache/file.py', COMPACT, 'mapproxy/cache/legend.py', 'mapproxy/seed/util.py', FS]
THOROUGH_EXTRA = ['mapproxy/cache/tile.py', 'mapproxy/cache/base.py', 'mapproxy/cache/path.py', 'mapproxy/cache/mbtiles.py',
                  'mapproxy/cache/geopackage.py', 'mapproxy/cache/renderd.py', 'mapproxy/seed/seeder.py',
                  'mapproxy/seed/cleanup.py', 'mapproxy/util/lock.py']


def write_mode(call, repo=None, mod=None, defs=None):
    """is this call a write-capable open?  -> description or None (mode / flags bound to a local are followed; unknown = write-capable)"""
    n = call_name(call) or ''
    if n in ('open', 'io.open', 'codecs.open'):
        mode = keyword(call, 'mode', 1)
        mv = const_value(mode) if mode is not None else 'r'
        if mv is None:
            return 'open(mode=?)'
        if any(c in mv for c in 'wa+x'):
            return 'open(%r)' % mv
        return None
    if n == 'os.open':
        flags = call.args[1] if len(call.args) > 1 else None
        if flags is None:
            return None
        forms = expand(flags, defs) if defs is not None else [flags]
        if any(contains(e, lambda x: isinstance(x, ast.Attribute) and x.attr in ('O_WRONLY', 'O_RDWR', 'O_CREAT', 'O_APPEND', 'O_TRUNC'))
               for e in forms):
            return 'os.open(%s)' % unparse(flags)
        if not any(contains(e, lambda x: isinstance(x, ast.Attribute) and x.attr.startswith('O_')) for e in forms):
            return 'os.open(flags=?)'
        return None
    if n == 'os.fdopen':
        mode = keyword(call, 'mode', 1)
        mv = const_value(mode) if mode is not None else 'r'
        if mv is None or any(c in mv for c in 'wa+x'):
            return 'os.fdopen(%r)' % mv
    return None


ALLOWED_WRITERS = {
    # (file, function) -> reason
    (FS, 'write_atomic'): 'the atomic writer itself (temp file, POSIX branch; in-place fallback on Windows)',
    (COMPACT, 'BundleIndexV1.readwrite'): "in-place 'r+b' handle of the V1 index: covered by C06.c/C08.d",
    (COMPACT, 'BundleDataV1.readwrite'): "in-place 'r+b' handle of the V1 data file: covered by C06.c/C08.d",
    (COMPACT, 'BundleV2._readwrite'): "in-place 'r+b' handle of the V2 bundle: covered by C06.c/C08.d",
}


@rule('C06.a', floor=5)
def c06a(ctx):
    mods = STORAGE + (THOROUGH_EXTRA if ctx.thorough else [])
    n = 0
    for rel in mods:
        m = ctx.repo.mod(rel)
        for fn in sorted(ctx.repo.fns_in(rel + ':'), key=lambda f: f.qn):
            fdefs = Defs(fn.node)
            for c in sorted([x for x in fn.walk() if isinstance(x, ast.Call)], key=order_key):
                w = write_mode(c, defs=fdefs)
                if not w:
                    continue
                n += 1
                short = fn.short.split('#')[0]
                construct = '%s:%s' % (short, w.split('(')[0])
                if (rel, short) in ALLOWED_WRITERS:
                    if short != 'write_atomic':
                        mode = const_value(keyword(c, 'mode', 1))
                        ctx.check(mode == 'r+b', construct, "allowed writer opens in place ('r+b', never truncating): %s"
                                  % ALLOWED_WRITERS[(rel, short)], fn, c,
                                  fail='%s opens the bundle with mode %r: truncates or creates the file outside the '
                                       'atomic writer' % (short, mode))
                    else:
                        ctx.ok(construct, 'allowed writer: ' + ALLOWED_WRITERS[(rel, short)], fn, c)
                    continue
                # temp-then-rename by hand
                defs = Defs(fn.node)
                patharg = c.args[0] if c.args else None
                renames = [r for r in fn.walk() if is_call(r, 'os.rename', 'os.replace') and r.args
                           and patharg is not None and unparse(r.args[0]) == unparse(patharg) and r.lineno > c.lineno]
                if w.startswith('os.fdopen'):
                    # fd from an os.open in the same function that is itself judged
                    ctx.ok(construct, 'fdopen of a descriptor opened (and judged) in the same function', fn, c)
                    continue
                ctx.check(bool(renames), construct,
                          'write-open of a path that is renamed to its final name afterwards (temp-then-rename)', fn, c,
                          fail='new non-atomic writer: %s on %s in a storage module; readers can observe a partial file'
                               % (w, unparse(patharg) if patharg is not None else '?'))
    if n < 4:
        raise Undecided('only %d write-capable opens found in the storage modules' % n)


def _posix_nodes(fn):
    """CFG nodes of write_atomic that are reachable when the platform test says "not Windows" """
    g = fn.cfg
    win = g.guard_edges(lambda at: contains(at.expr, lambda x: isinstance(x, ast.Attribute) and x.attr == 'platform') and
                        contains(at.expr, lambda x: isinstance(x, ast.Constant) and x.value == 'win'), True)
    return g.reachable(0, skip_edges=win)


@rule('C06.b', floor=7)
def c06b(ctx):
    fn = ctx.fn(FS + ':write_atomic')
    g = fn.cfg
    posix = _posix_nodes(fn)
    defs = Defs(fn.node)
    p_final = fn.params[0]

    def calls(*names):
        return [(n, x) for n, x in g.find(lambda x: is_call(x, *names)) if n in posix]
    renames = calls('os.rename', 'os.replace')
    if len(renames) != 1:
        ctx.bad('write_atomic:rename', 'expected exactly one os.rename/os.replace in the POSIX branch, found %d' % len(renames), fn)
        return
    rnn, rn = renames[0]
    src, dst = rn.args[0], rn.args[1]
    # 1 temp = filename + non-empty suffix
    tmpdefs = [v for v, sel in defs.of(unparse(src))] if isinstance(src, ast.Name) else []
    ok = bool(tmpdefs) and all(isinstance(v, ast.BinOp) and isinstance(v.op, ast.Add) and
                               contains(v, lambda x: isinstance(x, ast.Name) and x.id == p_final) and
                               contains(v, lambda x: isinstance(x, ast.Constant) and isinstance(x.value, str) and x.value != '')
                               for v in tmpdefs)
    ctx.check(ok, 'write_atomic:temp-name', 'temp path is the final name plus a non-empty suffix (temp != final)', fn, rn)
    rnd = bool(tmpdefs) and all(contains(v, lambda x: is_call(x, 'random.randint', 'randint', 'uuid4', 'getpid', 'mkstemp'))
                                for v in tmpdefs)
    ctx.check(rnd, 'write_atomic:temp-unique', 'temp name contains a random component (concurrent writers do not share it)', fn, rn)
    # 2 O_EXCL (the flags may be bound to a local first)
    opens = [x for n, x in calls('os.open')]
    flags = expand(opens[0].args[1], defs) if len(opens) == 1 and len(opens[0].args) > 1 else None
    ok = len(opens) == 1 and unparse(opens[0].args[0]) == unparse(src) and flags is not None and \
        any(contains(e, lambda x: isinstance(x, ast.Attribute) and x.attr == 'O_EXCL') for e in flags) and \
        any(contains(e, lambda x: isinstance(x, ast.Attribute) and x.attr == 'O_CREAT') for e in flags)
    ctx.check(ok, 'write_atomic:excl-create', 'the temp file is created with O_CREAT|O_EXCL', fn, opens[0] if opens else rn,
              fail='the temp file is not created exclusively (O_EXCL missing): two writers can share a temp file')
    # 3 data written inside a with (or followed by close()) that is complete before the rename
    writes = [(n, x) for n, x in calls('write') if x.args and unparse(x.args[0]) == fn.params[1]]
    ok = False
    detail = 'no f.write(data) found'
    if writes:
        wn, wc = writes[0]
        w = enclosing(wc, ast.With)
        if w is not None:
            ok = not inside(rn, w) and g.dominates(wn, rnn)
            detail = 'os.rename is inside the `with` that writes the data (rename before close/flush)' if inside(rn, w) \
                else 'the rename is not preceded by the with block that writes the data'
        else:
            closes = calls('close')
            ok = bool(closes) and all(g.dominates(c, rnn) for c, _ in closes) and all(g.dominates(wn, c) and c != wn for c, _ in closes)
            detail = 'data is written without a `with`/close() that completes before the rename'
    ctx.check(ok, 'write_atomic:close-before-rename', 'the data is written and the handle closed before os.rename', fn, rn, fail=detail)
    # 4 rename temp -> parameter
    ctx.check(isinstance(dst, ast.Name) and dst.id == p_final and unparse(src) != p_final, 'write_atomic:rename-direction',
              'rename(temp, filename): source is the temp, destination the parameter', fn, rn)
    # 5 handler unlinks temp and re-raises
    tr = enclosing(rn, ast.Try)
    ok_un = ok_rr = False
    if tr is not None:
        for h in tr.handlers:
            if contains(h, lambda x: is_call(x, 'os.unlink', 'os.remove') and x.args and unparse(x.args[0]) == unparse(src)):
                ok_un = True
            last = h.body[-1] if h.body else None
            if isinstance(last, ast.Raise):
                ok_rr = True
    ctx.check(ok_un, 'write_atomic:handler-unlinks-temp', 'the OSError handler removes the temp file', fn, tr or rn)
    ctx.check(ok_rr, 'write_atomic:handler-reraises', 'the OSError handler re-raises (a failed store is not reported as success)',
              fn, tr or rn, fail='the OSError handler swallows the error: a failed store looks successful')


def _same_block_after(w, rn):
    par = getattr(w, '_parent', None)
    for fld in ('body', 'orelse', 'finalbody'):
        blk = getattr(par, fld, None)
        if isinstance(blk, list) and w in blk:
            i = blk.index(w)
            return any(inside(rn, s) for s in blk[i + 1:])
    return False


@rule('C06.c', floor=8)
def c06c(ctx):
    # ---- V1
    fn = ctx.fn(COMPACT + ':BundleV1.store_tiles')
    g = fn.cfg
    defs = Defs(fn.node)
    app = g.find(lambda x: is_call(x, 'append_tile'))
    upd = g.find(lambda x: is_call(x, 'update_tile_offset'))
    if not app or not upd:
        ctx.bad('BundleV1.store_tiles:append-then-publish', 'append_tile / update_tile_offset call not found', fn)
    else:
        for n, u in upd:
            off = keyword(u, 'offset', 2)
            dep = off is not None and depends(off, lambda x: is_call(x, 'append_tile'), defs)
            # flow sensitivity: the definition that reaches the call must be the append result -> the append precedes
            before = all(g.dominates(a, n) for a, _ in app) and all(a != n for a, _ in app)
            last_def = _last_def_before(fn, off, u)
            dep_last = last_def is not None and contains(last_def, lambda x: is_call(x, 'append_tile'))
            ctx.check(before and dep and dep_last, 'BundleV1.store_tiles:append-then-publish',
                      'update_tile_offset is dominated by append_tile and publishes the offset returned by it', fn, u,
                      fail='the index entry is published before / independently of the record append (offset argument %s)'
                           % (unparse(off) if off is not None else '?'))
    at = ctx.fn(COMPACT + ':BundleDataV1.append_tile')
    _write_order(ctx, at, 'BundleDataV1.append_tile')
    # ---- V2
    fn = ctx.fn(COMPACT + ':BundleV2._store_tile')
    g = fn.cfg
    defs = Defs(fn.node)
    app = g.find(lambda x: is_call(x, 'self._append_tile'))
    upd = g.find(lambda x: is_call(x, 'self._update_tile_offset'))
    meta = g.find(lambda x: is_call(x, 'self._update_metadata'))
    if not app or not upd:
        ctx.bad('BundleV2._store_tile:append-then-publish', '_append_tile / _update_tile_offset call not found', fn)
    else:
        for n, u in upd:
            off = u.args[3] if len(u.args) > 3 else keyword(u, 'offset')
            dep = off is not None and depends(off, lambda x: is_call(x, 'self._append_tile'), defs)
            before = all(g.dominates(a, n) and a != n for a, _ in app)
            ctx.check(dep and before, 'BundleV2._store_tile:append-then-publish',
                      '_update_tile_offset is dominated by _append_tile and publishes the offset returned by it', fn, u,
                      fail='the V2 index entry is published before / independently of the record append (offset '
                           'argument %s)' % (unparse(off) if off is not None else '?'))
        for n, m in meta:
            ctx.check(all(g.dominates(a, n) for a, _ in upd), 'BundleV2._store_tile:metadata-last',
                      'header metadata is updated after the index entry', fn, m)
    ap = ctx.fn(COMPACT + ':BundleV2._append_tile')
    g = ap.cfg
    writes = g.find(lambda x: is_call(x, 'fh.write', 'write'))
    tells = g.find(lambda x: is_call(x, 'fh.tell', 'tell'))
    rets = returns_of(ap.node)
    defs = Defs(ap.node)
    ok = len(writes) == 2 and len(tells) >= 1
    if ok:
        (n1, w1), (n2, w2) = writes
        cfa = Canon(ap)
        a1 = cfa.expr(w1.args[0]) if w1.args else w1
        a2 = cfa.expr(w2.args[0]) if w2.args else None
        size_first = contains(a1, lambda x: is_call(x, 'pack')) and contains(a1, lambda x: is_call(x, 'len'))
        data_second = isinstance(a2, ast.Name) and a2.id in ap.params
        tn = tells[0][0]
        between = g.dominates(n1, tn) and g.dominates(tn, n2) and n1 != tn != n2
        ret_tell = bool(rets) and all(depends(r.value, lambda x: is_call(x, 'tell'), defs) for r in rets)
        ok = size_first and data_second and between and ret_tell
    ctx.check(ok, 'BundleV2._append_tile:size-tell-data',
              'writes the size word, takes tell(), writes the data, returns the tell() taken between them', ap,
              fail='_append_tile does not write size, then take the offset, then write the data (the returned offset '
                   'would not point at the record data)')
    seeks = g.find(lambda x: is_call(x, 'seek'))
    ok = bool(seeks) and contains(seeks[0][1], lambda x: isinstance(x, ast.Attribute) and x.attr == 'SEEK_END') and \
        all(g.dominates(seeks[0][0], n) for n, _ in writes)
    ctx.check(ok, 'BundleV2._append_tile:append-at-end', 'records are appended at SEEK_END (existing records are never overwritten)', ap)


def _last_def_before(fn, expr, at):
    """value of the textually last assignment to Name `expr` before node `at` (straight-line blocks)"""
    if not isinstance(expr, ast.Name):
        return expr
    best = None
    for n in fn.walk():
        if isinstance(n, ast.Assign) and (n.lineno, n.col_offset) < (at.lineno, at.col_offset):
            for t in n.targets:
                for x in ast.walk(t):
                    if isinstance(x, ast.Name) and x.id == expr.id:
                        if best is None or n.lineno > best.lineno:
                            best = n
    return best.value if best is not None else None


def _write_order(ctx, fn, label):
    g = fn.cfg
    cf = Canon(fn)
    # what is written, in closed form (a value bound to a local first is followed)
    writes = [(n, w, cf.expr(w.args[0]) if w.args else None) for n, w in g.find(lambda x: is_call(x, 'self._fh.write', 'write'))]
    dparam = [p for p in fn.params if p == 'data'] or fn.params[-1:]
    size_w = [(n, w) for n, w, a in writes if a is not None and contains(a, lambda x: is_call(x, 'pack')) and
              contains(a, lambda x: isinstance(x, ast.Constant) and x.value == '<L')]
    data_w = [(n, w) for n, w, a in writes if isinstance(a, ast.Name) and a.id in dparam]
    hdr_w = [(n, w) for n, w, a in writes if a is not None and contains(a, lambda x: isinstance(x, ast.Name) and x.id == 'BUNDLE_V1_HEADER_STRUCT_FORMAT')]
    ok = len(size_w) == 1 and len(data_w) == 1 and g.dominates(size_w[0][0], data_w[0][0]) and size_w[0][0] != data_w[0][0]
    ctx.check(ok, label + ':size-then-data', 'the size word is written before the data', fn)
    ok = bool(hdr_w) and bool(data_w) and all(g.dominates(data_w[0][0], n) for n, _ in hdr_w)
    ctx.check(ok, label + ':record-before-header', 'the record is written before the header is rewritten', fn)
    seeks = g.find(lambda x: is_call(x, 'seek') and contains(x, lambda y: isinstance(y, ast.Attribute) and y.attr == 'SEEK_END'))
    ok = bool(seeks) and bool(size_w) and any(g.dominates(s, size_w[0][0]) for s, _ in seeks)
    ctx.check(ok, label + ':append-at-end', 'records are appended at SEEK_END', fn)


def zero_atom(var):
    def p(at):
        if at.op == '==':
            return (unparse(at.left) == var and const_value(at.right) == 0) or (unparse(at.right) == var and const_value(at.left) == 0)
        if at.op == '<':      # size <= 0  ->  not (0 < size)
            return False
        return at.op is None and unparse(at.expr) == var
    return p


@rule('C06.d', floor=6)
def c06d(ctx):
    """reads at an index-derived offset are guarded by the zero test of that offset/size"""
    sites = [
        (COMPACT + ':BundleV1.is_cached', 'read_size', 'offset'),
        (COMPACT + ':BundleV1.load_tiles', 'read_tile', 'offset'),
        (COMPACT + ':BundleV2._load_tile', 'read', 'size'),
    ]
    for qn, callee, var in sites:
        fn = ctx.fn(qn)
        g = fn.cfg
        calls = g.find(lambda x: is_call(x, callee) and x.args and unparse(x.args[0]) == var)
        if not calls:
            ctx.bad('%s:%s' % (fn.short, callee), 'no %s(%s) call found' % (callee, var), fn)
            continue
        for n, c in calls:
            # zero offset/size must exclude the read: atom `var == 0` False, or truthiness atom True
            ok = g.guarded(n, lambda at: at.op == '==' and zero_atom(var)(at), False) or \
                g.guarded(n, lambda at: at.op is None and unparse(at.expr) == var, True)
            ctx.check(ok, '%s:%s-guarded' % (fn.short, callee),
                      '%s(%s) only runs when %s is non-zero (empty index entry = missing tile)' % (callee, var, var), fn, c,
                      fail='%s(%s) is reachable with %s == 0: an empty index entry is read as a record (header bytes '
                           'or another tile are returned)' % (callee, var, var))
    # V1 read_tile: size <= 0 -> False before read(size)
    fn = ctx.fn(COMPACT + ':BundleDataV1.read_tile')
    g = fn.cfg
    reads = g.find(lambda x: is_call(x, 'read') and x.args and same(x.args[0], 'size'))
    for n, c in reads:
        ok = g.guarded(n, lambda at: at.op == '<' and same(at.left, '0') and same(at.right, 'size'), True) or \
            g.guarded(n, lambda at: at.op == '==' and zero_atom('size')(at), False) or \
            g.guarded(n, lambda at: at.op is None and same(at.expr, 'size'), True)
        ctx.check(ok, 'BundleDataV1.read_tile:size-guarded', 'record bytes are only read for a positive size word', fn, c)
    if not reads:
        ctx.bad('BundleDataV1.read_tile:size-guarded', 'no read(size) found', fn)
    # V2 _tile_offset_size: size == 0 -> (0, 0)
    fn = ctx.fn(COMPACT + ':BundleV2._tile_offset_size')
    tab_ok = False
    for st in fn.walk():
        if isinstance(st, ast.If) and contains(st.test, lambda x: isinstance(x, ast.Name) and x.id == 'size'):
            r = [x for x in st.body if isinstance(x, ast.Return)]
            if r and isinstance(r[0].value, ast.Tuple) and len(r[0].value.elts) == 2 and const_value(r[0].value.elts[1], 1) == 0:
                tab_ok = True
    ctx.check(tab_ok, 'BundleV2._tile_offset_size:zero-size-empty', 'a zero size in the index entry is returned as size 0 = missing (callers test the size)', fn)
    # V2 is_cached
    fn = ctx.fn(COMPACT + ':BundleV2.is_cached')
    g = fn.cfg
    tab = ctx.rows(table(fn.node.body, ret_kind, bool_returns=True))
    nz = [a for a in tab.atoms if a == 'size'] or [a for a in tab.atoms if zero_atom('size')(tab.atom_objs[a]) and tab.atom_objs[a].op == '==']
    trues = [asg for asg, out, _ in tab.assignments() if out == 'return True']
    ok = bool(trues) and len(nz) == 1 and all(asg[nz[0]] == (nz[0] == 'size') for asg in trues)
    ctx.check(ok, 'BundleV2.is_cached:size-guarded', 'is_cached returns True only for a non-zero size', fn)
    # readers treat a missing file as missing tile (readonly yields None)
    for qn in (COMPACT + ':BundleIndexV1.readonly', COMPACT + ':BundleV2._readonly'):
        fn = ctx.fn(qn)
        ok = any(isinstance(h, ast.ExceptHandler) and contains(h, lambda x: isinstance(x, ast.Attribute) and x.attr == 'ENOENT')
                 and contains(h, lambda x: isinstance(x, ast.Yield) and (x.value is None or const_value(x.value, 1) is None))
                 for h in fn.walk())
        ctx.check(ok, fn.short + ':enoent-is-missing', 'a missing bundle file is reported as "no handle" (missing tile)', fn)


STORES = [
    ('mapproxy/cache/file.py:FileCache._store', 'location'),
    ('mapproxy/cache/legend.py:LegendCache.store', 'legend.location'),
    ('mapproxy/seed/util.py:ProgressStore.write', 'self.filename'),
    (COMPACT + ':BundleIndexV1._init_index', 'self.filename'),
    (COMPACT + ':BundleDataV1._init_bundle', 'self.filename'),
    (COMPACT + ':BundleV2._init_index', 'self.filename'),
]


@rule('C06.e', floor=6)
def c06e(ctx):
    for qn, loc in STORES:
        fn = ctx.fn(qn)
        calls = calls_in(fn.node, 'write_atomic')
        ok = len(calls) >= 1 and all(c.args and unparse(c.args[0]) == loc for c in calls)
        # write_atomic must be the one from util.fs
        res = ctx.repo.resolve_name(fn.mod, calls[0].func) if calls else None
        ctx.check(ok and res == FS + ':write_atomic', fn.short + ':atomic-store',
                  'stores through util.fs.write_atomic(%s, ...)' % loc, fn, calls[0] if calls else None,
                  fail='%s does not store through write_atomic(%s, ...): a crash can leave a truncated file at the '
                       'location readers open' % (fn.short, loc))
    # the location the readers open is the one that is written
    fc = ctx.fn('mapproxy/cache/file.py:FileCache.store_tile')
    defs = Defs(fc.node)
    stores = [c for c in fc.walk() if is_call(c, 'self._store')]
    ok = bool(stores) and all(len(c.args) > 1 and depends(c.args[1], lambda x: is_call(x, 'self.tile_location'), defs) for c in stores)
    ctx.check(ok, 'FileCache.store_tile:location', 'the tile is stored at self.tile_location(tile, ...), the path load_tile opens', fc)


@rule('C06.f', floor=2)
def c06f(ctx):
    """replace-by-rename, not remove-then-write: before the atomic write FileCache._store may only remove a *link* (the one case
    the statement allows to read as missing: a linked single-colour tile that is being replaced); a regular tile stays in place
    until the rename replaces it"""
    fn = ctx.fn('mapproxy/cache/file.py:FileCache._store')
    g = fn.cfg
    wr = g.find(lambda x: is_call(x, 'write_atomic'))
    rm = [(n, x) for n, x in g.find(lambda x: is_call(x, 'os.unlink', 'os.remove', 'os.rename', 'os.replace', 'shutil.move', 'os.truncate'))
          if x.args and unparse(x.args[0]) == fn.params[2]]
    ctx.check(bool(wr), 'FileCache._store:writes', 'the tile is written by write_atomic', fn)
    for n, x in rm:
        before = any(g.reaches_avoiding(n, w) for w, _ in wr)
        ok = (not before) or g.guarded(n, lambda at: at.op is None and is_call(at.expr, 'os.path.islink', 'islink') and
                                       unparse(at.expr.args[0]) == fn.params[2], True)
        ctx.check(ok, 'FileCache._store:removes-only-links-before-write', 'the old entry is removed before the write only if it is a link', fn, x,
                  fail='a regular tile is removed before the new content is renamed into place: a crash (or a failed write) in between '
                       'leaves an address that had content reporting "missing"')
    if not rm:
        ctx.ok('FileCache._store:removes-only-links-before-write', 'nothing is removed before the write', fn)
    # opening the final location for writing would truncate it: only write_atomic touches it (C06.a covers opens)
    sc = ctx.fn('mapproxy/cache/file.py:FileCache._store_single_color_tile')
    g2 = sc.cfg
    un = [(n, x) for n, x in g2.find(lambda x: is_call(x, 'os.unlink', 'os.remove')) if x.args and unparse(x.args[0]) == sc.params[2]]
    lk = calls_to(g2, Defs(sc.node), 'os.link', 'os.symlink')
    ok = bool(lk) and all(any(g2.reaches_avoiding(n, l) for l, _ in lk) for n, _ in un)
    ctx.check(ok, 'FileCache._store_single_color_tile:unlink-then-link', 'the only removal of a tile location outside _store is the unlink that '
              'directly precedes the creation of the single-colour link (the window the statement allows)', sc)


@rule('C06.g', floor=8)
def c06g(ctx):
    """a tile file appears under its name complete, and what a bundle writer appends reaches the file before the index points at it:
    the storage modules write only through the routines judged above (write_atomic, the buffered file object of a bundle inside its
    readwrite context).  They do not write through a raw descriptor (os.write / os.pwrite / fileno() -- a positional write overtakes
    the data still sitting in the buffer of the file object: the index entry is on disk before the record it points at), and they do
    not copy a file into its final place (shutil.copy* creates the name first and fills it afterwards)"""
    RAW = ('os.write', 'os.pwrite', 'os.writev', 'os.pwritev', 'os.sendfile', 'os.truncate', 'os.ftruncate')
    COPY = ('shutil.copyfile', 'shutil.copy', 'shutil.copy2', 'shutil.copyfileobj', 'shutil.move', 'copyfile', 'copy2', 'copyfileobj')
    n = 0
    for rel, mod in sorted(ctx.repo.modules.items()):
        if not (rel.startswith('mapproxy/cache/') or rel == 'mapproxy/util/fs.py') or '/test/' in rel:
            continue
        n += 1
        bad = []
        for fn in ctx.repo.fns_in(rel + ':'):
            for x in fn.walk():
                if isinstance(x, ast.Call):
                    nm = call_name(x) or ''
                    if nm in RAW or nm in COPY:
                        bad.append('%s in %s' % (nm, fn.short))
                    elif isinstance(x.func, ast.Attribute) and x.func.attr == 'fileno':
                        bad.append('%s in %s' % (unparse(x), fn.short))
        ctx.check(not bad, '%s:writes-through-the-judged-routines' % rel.split('/')[-1], 'no raw descriptor write and no copy into place', (rel, 1),
                  fail='%s writes a storage file outside the judged routines: %s' % (rel, '; '.join(sorted(set(bad)))[:200]))
    if n < 8:
        raise Undecided('only %d storage modules found' % n)


@rule('C06.h', floor=2)
def c06h(ctx):
    """shared rule C19.g, re-evaluated for this property: what an interrupted defragmentation left behind never becomes visible as
    tiles of another bundle -- the temporary bundle is emptied before a bundle is rewritten into it"""
    from ..engine import share
    share(ctx, 'C19', {'C19.g'})
